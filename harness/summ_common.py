"""Shared machinery of the C09 (summarize) and C08 (aggregate) checks: T-rules step, replay
serialisation, generators, independent Python oracles, Coq case files."""
from __future__ import annotations

import datetime
import math
import re
import shutil
import warnings
from fractions import Fraction
from pathlib import Path

import numpy as np

from harness.common import COQ, REPO, audit_coq_sources, coq_comment_strip, parse_coq_eval, parse_print_assumptions, sh
from harness.coqterm import NotRepresentable, canon_cell, canon_meta, canon_value, ccells, cerr
from harness.gen import ATTRS, Gen

warnings.simplefilter("ignore")

D = datetime.date
ADDITIVE = ["paid_loss", "reported_loss", "incurred_loss", "reported_claims", "open_claims", "closed_claims",
            "closed_with_pay_claims", "reported_count", "open_count", "closed_count", "closed_with_pay_count",
            "earned_premium", "used_earned_premium", "earned_exposure", "written_premium", "written_exposure",
            "incurred_loss_developed", "paid_loss_developed", "reported_loss_developed",
            "incurred_loss_prior", "paid_loss_prior", "reported_loss_prior"]
RATIO = {"implied_atu": ("reported_loss", "TId"), "bf_weight": ("reported_loss", "TId"),
         "geometric_weight": ("reported_loss", "TId"), "log_industry_lr": ("earned_premium", "TExpLog")}
NON_LOSS = {"earned_premium", "used_earned_premium", "earned_exposure", "written_premium", "written_exposure",
            "implied_atu", "bf_weight", "geometric_weight"}
REGISTERED = set(ADDITIVE) | set(RATIO)


# ------------------------------------------------------------------------------------------ coq steps
def prove_static_local(ctx, rel, timeout=900):
    """Re-check a static property file; the .vo goes to build/<pid>/ under the same base name."""
    src = COQ / rel
    txt = coq_comment_strip(src.read_text())
    names = re.findall(r"^\s*(?:Theorem|Corollary)\s+([A-Za-z0-9_']+)", txt, re.M)
    probs = audit_coq_sources([src])
    out_vo = ctx.build / (src.stem + ".vo")
    cmd = ["coqc", "-q", "-Q", str(COQ), "Bermuda", "-o", str(out_vo), str(src)]
    ctx.checker_cmds.append(" ".join(cmd))
    rc, out = sh(cmd, timeout=timeout, cwd=ctx.build)
    ok = rc == 0 and not probs
    assum = parse_print_assumptions(out, re.findall(r"Print\s+Assumptions\s+([A-Za-z0-9_'.]+)\s*\.", txt))
    for n in names:
        ctx.obligation(f"{src.name}:{n}", ok, "" if ok else out[-1200:] + "\n".join(probs), assum.get(n))
    if not ok:
        ctx.log(f"static property file {rel} FAILED:\n{out[-1500:]}" + "\n".join(probs))
    return ok, out


def rules_step(ctx, genprops_file):
    """T-rules: probe the registry of REPO, write + compile GenRules.v, compile the GenProps file.
    Returns (table, non_loss, gen_ok, props_ok)."""
    from translate import t_rules

    for f in list(ctx.build.glob("*.vo")) + list(ctx.build.glob("*.glob")) + list(ctx.build.glob("cases_*.v")):
        f.unlink()
    try:
        txt, (table, nl) = t_rules.translate(REPO)
    except t_rules.Unsupported as ex:
        ctx.obligation("T-rules probing of SUMMARIZE_DEFAULTS", False, str(ex))
        return None, None, False, False
    ctx.obligation("T-rules probing of SUMMARIZE_DEFAULTS", True)
    (ctx.build / "GenRules.v").write_text(txt)
    rc, out = ctx.coqc(ctx.build / "GenRules.v", timeout=300)
    ctx.obligation("GenRules.v compiles", rc == 0, out)
    if rc != 0:
        return table, nl, False, False
    shutil.copy(COQ / "GenProps" / genprops_file, ctx.build / genprops_file)
    ok, _ = ctx.prove(ctx.build / genprops_file, timeout=600)
    return table, nl, True, ok


def rule_defects(table, nl):
    """Registry entries that contradict the documented registry (what table_ok decides in Coq)."""
    bad = []
    rules = {name: rule for name, rule, _ in table}
    for k in ADDITIVE:
        if rules.get(k) != ("sum", k):
            bad.append((k, rules.get(k)))
    for k, (w, tr) in RATIO.items():
        if rules.get(k) != ("wavg", k, w, tr):
            bad.append((k, rules.get(k)))
    if set(nl) != NON_LOSS:
        bad.append(("NON_LOSS_METRICS", sorted(set(nl) ^ NON_LOSS)))
    return bad


# ------------------------------------------------------------------------------------------ replay format
def val_to_data(v):
    if v is None:
        return None
    if isinstance(v, np.ndarray):
        return {"arr": v.tolist(), "dtype": str(v.dtype)}
    if isinstance(v, (float, np.floating)):
        return {"f": float(v)}
    return {"i": int(v)}


def val_from_data(d):
    if d is None:
        return None
    if "arr" in d:
        return np.array(d["arr"], dtype=d["dtype"])
    return float(d["f"]) if "f" in d else int(d["i"])


def mval_to_data(v):
    if isinstance(v, datetime.date):
        return {"date": v.isoformat()}
    if isinstance(v, bool):
        return {"b": v}
    if isinstance(v, float):
        return {"f": v}
    return v


def mval_from_data(d):
    if isinstance(d, dict):
        if "date" in d:
            return D.fromisoformat(d["date"])
        if "b" in d:
            return bool(d["b"])
        return float(d["f"])
    return d


def meta_to_data(m):
    pol = m.per_occurrence_limit
    return {"risk_basis": m.risk_basis, "country": m.country, "currency": m.currency,
            "reinsurance_basis": m.reinsurance_basis, "loss_definition": m.loss_definition,
            "per_occurrence_limit": mval_to_data(pol),
            "details": {k: mval_to_data(v) for k, v in m.details.items()},
            "loss_details": {k: mval_to_data(v) for k, v in m.loss_details.items()}}


def meta_from_data(d):
    from bermuda import Metadata

    return Metadata(risk_basis=d["risk_basis"], country=d["country"], currency=d["currency"],
                    reinsurance_basis=d["reinsurance_basis"], loss_definition=d["loss_definition"],
                    per_occurrence_limit=mval_from_data(d["per_occurrence_limit"]),
                    details={k: mval_from_data(v) for k, v in d["details"].items()},
                    loss_details={k: mval_from_data(v) for k, v in d["loss_details"].items()})


def iso(d):
    """ISO calendar date of a date / datetime / pandas.Timestamp."""
    return D(d.year, d.month, d.day).isoformat()


def date_as(d, flavour):
    """The calendar date d in the representation `flavour` (how user code may hand dates to Cell):
    'date' = datetime.date, 'dt' = datetime.datetime with a time of day, 'ts' = pandas.Timestamp."""
    if flavour == "ts":
        import pandas as pd

        return pd.Timestamp(d.year, d.month, d.day)
    if flavour == "dt":
        return datetime.datetime(d.year, d.month, d.day, 17, 30)
    return D(d.year, d.month, d.day)


def dates_not_plain(cells):
    """Cells whose stored dates are not exactly datetime.date (the constructor must normalise)."""
    bad = []
    for c in cells:
        ds = [c.period_start, c.period_end, c.evaluation_date]
        if type(c).__name__ == "IncrementalCell":
            ds.append(c.prev_evaluation_date)
        if any(type(x) is not D for x in ds):
            bad.append(c)
    return bad


def cells_to_data(cells):
    out = []
    for c in cells:
        out.append({"cls": type(c).__name__, "ps": iso(c.period_start), "pe": iso(c.period_end),
                    "ev": iso(c.evaluation_date),
                    "prev": iso(c.prev_evaluation_date) if hasattr(c, "prev_evaluation_date") else None,
                    "dates_given_as": getattr(c, "_verif_dates", "date"),
                    "meta": meta_to_data(c.metadata), "values": {k: val_to_data(v) for k, v in c.values.items()}})
    return out


def cells_from_data(data):
    from bermuda import Cell, CumulativeCell, IncrementalCell

    out = []
    for d in data:
        fl = d.get("dates_given_as", "date")
        kw = dict(period_start=date_as(D.fromisoformat(d["ps"]), fl), period_end=date_as(D.fromisoformat(d["pe"]), fl),
                  evaluation_date=date_as(D.fromisoformat(d["ev"]), fl), metadata=meta_from_data(d["meta"]),
                  values={k: val_from_data(v) for k, v in d["values"].items()})
        if d["cls"] == "IncrementalCell":
            c = IncrementalCell(prev_evaluation_date=date_as(D.fromisoformat(d["prev"]), fl), **kw)
        else:
            c = {"Cell": Cell, "CumulativeCell": CumulativeCell}[d["cls"]](**kw)
        c._verif_dates = fl
        out.append(c)
    return out


def mk_cell(cls, flavour, ps, pe, ev, values, metadata, prev=None):
    """Build a cell handing the dates over as `flavour`; the flavour is remembered for the replay."""
    kw = dict(period_start=date_as(ps, flavour), period_end=date_as(pe, flavour), evaluation_date=date_as(ev, flavour),
              values=values, metadata=metadata)
    if prev is not None:
        kw["prev_evaluation_date"] = date_as(prev, flavour)
    c = cls(**kw)
    c._verif_dates = flavour
    return c


def run_impl(thunk):
    """-> ('ok', cells) | ('err', exception)"""
    try:
        r = thunk()
    except Exception as ex:  # noqa: BLE001
        return "err", ex
    return "ok", list(r.cells)


def run_twice(t, thunk):
    """Family H (state between calls): the same call twice on the same receiver gives strictly identical
    results and leaves the receiver unchanged.  -> (status, result, failures)"""
    from harness.coqterm import canon_tri

    before = canon_tri(t.cells, ordered=True)
    st1, r1 = run_impl(thunk)
    mid = canon_tri(t.cells, ordered=True)
    st2, r2 = run_impl(thunk)
    fails = []
    if before != mid or mid != canon_tri(t.cells, ordered=True):
        fails.append("the call changed the triangle it was called on")
    if st1 != st2 or (st1 == "err" and type(r1) is not type(r2)) or \
            (st1 == "ok" and canon_tri(r1, ordered=False) != canon_tri(r2, ordered=False)):
        fails.append("the same call twice on the same triangle gave different results")
    return st1, r1, fails


# ------------------------------------------------------------------------------------------ value algebra (oracle side)
def pyval(v):
    """Python number of a (NumPy) scalar."""
    return v.item() if isinstance(v, np.generic) else v


def vkind(v):
    if v is None:
        return "none"
    if isinstance(v, np.ndarray):
        return "arr_float" if v.dtype.kind == "f" else "arr_int"
    return "float" if isinstance(v, (float, np.floating)) else "int"


def exact_total(values):
    """Independent sum: exact, broadcasting scalars over arrays; None skipped.
    -> (kind, tuple of Fractions or single Fraction)"""
    vals = [v for v in values if v is not None]
    n = None
    for v in vals:
        if isinstance(v, np.ndarray):
            if n is not None and n != len(v):
                return None
            n = len(v)
    is_f = any(vkind(v) in ("float", "arr_float") for v in vals)
    if n is not None and n > 64:              # large sample arrays: vectorised, still exact (int64 / dyadic float64)
        tot = np.zeros(n, dtype=np.float64 if is_f else np.int64)
        for v in vals:
            tot = tot + (np.asarray(v, dtype=tot.dtype) if isinstance(v, np.ndarray) else pyval(v))
        return ("arr_float" if is_f else "arr_int", ("np", np.ascontiguousarray(tot).tobytes()))
    if n is None:
        return ("float" if is_f else "int", sum((Fraction(pyval(v)) for v in vals), Fraction(0)))
    tot = [Fraction(0)] * n
    for v in vals:
        xs = v.tolist() if isinstance(v, np.ndarray) else [pyval(v)] * n
        tot = [a + Fraction(x) for a, x in zip(tot, xs)]
    return ("arr_float" if is_f else "arr_int", tuple(tot))


def value_as_exact(v):
    if v is None:
        return ("none", None)
    if isinstance(v, np.ndarray):
        if len(v) > 64:
            return (vkind(v), ("np", np.ascontiguousarray(v, dtype=np.float64 if v.dtype.kind == "f" else np.int64).tobytes()))
        return (vkind(v), tuple(Fraction(x) for x in v.tolist()))
    return (vkind(v), Fraction(pyval(v)))


def group_is_clean(values):
    """No value-level conflict possible in _conforming_sum: all scalars, or all arrays of one length
    whose accumulation never puts a float into an int64 array."""
    kinds = [vkind(v) for v in values if v is not None]
    if all(k in ("int", "float") for k in kinds):
        return True
    if all(k.startswith("arr") for k in kinds):
        lens = {len(v) for v in values if v is not None}
        if len(lens) != 1:
            return False
        first = kinds[0]
        return first == "arr_float" or all(k == "arr_int" for k in kinds)
    return False


def wavg_expected(vals, weights, tr):
    """Exact/float reference for _conforming_weighted_average; None when not well-formed."""
    if tr == "TExpLog" and (any(v is None for v in vals) or any(w is None for w in weights)):
        return None
    pairs = [(v, w) for v, w in zip(vals, weights) if v is not None]
    if any(w is None for _, w in pairs):
        return None
    weights = [w for w in weights if w is not None]   # None weights are skipped in the denominator
    arr = any(isinstance(x, np.ndarray) for p in pairs for x in p) or any(isinstance(w, np.ndarray) for w in weights)
    if len({len(x) for x in list(vals) + list(weights) if isinstance(x, np.ndarray)}) > 1:
        return None                       # arrays of different lengths: the code raises ValueError
    if tr == "TExpLog" and arr and not all(isinstance(v, np.ndarray) for v in vals):
        return None                       # np.exp of a ragged list raises
    if arr:
        f = (lambda x: np.exp(np.asarray(x, dtype=float))) if tr == "TExpLog" else (lambda x: np.asarray(x, dtype=float))
        num = sum((f(v) * np.asarray(w, dtype=float) for v, w in pairs), 0.0)
        den = sum((np.asarray(w, dtype=float) for w in weights), 0.0)
        if np.any(den == 0):
            return None
        r = num / den
        return np.log(r) if tr == "TExpLog" else r
    if tr == "TExpLog":
        den = sum(float(w) for w in weights)
        if den == 0:
            return None
        return math.log(sum(math.exp(float(v)) * float(w) for v, w in pairs) / den)
    den = sum(Fraction(w) for w in weights)
    if den == 0:
        return None
    return float(sum(Fraction(v) * Fraction(w) for v, w in pairs) / den)


def close(a, b, tol=1e-9):
    try:
        a, b = np.asarray(a, dtype=float), np.asarray(b, dtype=float)
    except Exception:  # noqa: BLE001
        return False
    if a.shape != b.shape:
        return False
    return bool(np.all(np.abs(a - b) <= tol * np.maximum(1.0, np.maximum(np.abs(a), np.abs(b)))))


# ------------------------------------------------------------------------------------------ shared-metadata oracle
def py_eq(a, b):
    return type(a) in (int, float, bool) and type(b) in (int, float, bool) and a == b or (
        type(a) is type(b) and a == b) or (a is None and b is None)


def expected_shared_metadata(cells):
    """Independent statement of the rule: an attribute / detail entry is kept iff every cell has it
    (with an ==-equal value); values are those of the first cell; a shared None is no entry."""
    m0 = cells[0].metadata
    out = {}
    for a in ("risk_basis", "country", "currency", "reinsurance_basis", "loss_definition", "per_occurrence_limit"):
        v0 = getattr(m0, a)
        out[a] = v0 if all(py_eq(getattr(c.metadata, a), v0) for c in cells) else None
    for a in ("details", "loss_details"):
        d0 = getattr(m0, a)
        out[a] = {k: v for k, v in d0.items()
                  if v is not None and all(k in getattr(c.metadata, a) and py_eq(getattr(c.metadata, a)[k], v) for c in cells)}
    return out


def meta_matches(m, exp):
    from harness.coqterm import canon_mval

    for a in ("risk_basis", "country", "currency", "reinsurance_basis", "loss_definition", "per_occurrence_limit"):
        if canon_mval(getattr(m, a)) != canon_mval(exp[a]):
            return f"{a}: {getattr(m, a)!r} != {exp[a]!r}"
    for a in ("details", "loss_details"):
        got = sorted((k, canon_mval(v)) for k, v in getattr(m, a).items())
        want = sorted((k, canon_mval(v)) for k, v in exp[a].items())
        if got != want:
            return f"{a}: {getattr(m, a)!r} != {exp[a]!r}"
    return None


# ------------------------------------------------------------------------------------------ summarize oracle
def _eqnorm(v):
    """Value normalised so that tuple equality is Python's == on metadata values (7 == 7.0 == True is 1)."""
    if v is None:
        return ("none",)
    if isinstance(v, (bool, int, float)):
        return ("num", Fraction(v))
    if isinstance(v, datetime.date):
        return ("date", iso(v))
    return (type(v).__name__, v)


def meta_key(m):
    """Identity of a slice, independent of Metadata.__hash__/__eq__: attribute-wise ==, detail dicts as
    key -> value maps regardless of insertion order."""
    return (m.risk_basis, m.country, m.currency, m.reinsurance_basis, m.loss_definition, _eqnorm(m.per_occurrence_limit),
            tuple(sorted((k, _eqnorm(v)) for k, v in m.details.items())),
            tuple(sorted((k, _eqnorm(v)) for k, v in m.loss_details.items())))


def fresh_str(x):
    """An equal but distinct str object (built at run time; CPython shares only literals / 0-1 char strings)."""
    return "".join(list(x)) if isinstance(x, str) else x


def fresh_meta(m):
    from bermuda import Metadata

    return Metadata(risk_basis=fresh_str(m.risk_basis), country=fresh_str(m.country), currency=fresh_str(m.currency),
                    reinsurance_basis=fresh_str(m.reinsurance_basis), loss_definition=fresh_str(m.loss_definition),
                    per_occurrence_limit=m.per_occurrence_limit,
                    details={fresh_str(k): fresh_str(v) for k, v in m.details.items()},
                    loss_details={fresh_str(k): fresh_str(v) for k, v in m.loss_details.items()})


def respell(m, extra=None):
    """(m1, m2): two EQUAL Metadata objects spelled differently -- detail keys inserted in opposite
    order and an integral number once as int, once as float."""
    from bermuda import Metadata

    d = {**m.details, **(extra if extra is not None else {"cov2": "BI", "st2": "NY", "lim2": 7})}
    ld = dict(m.loss_details)

    def flip(x):
        return {k: (float(v) if type(v) is int else int(v) if type(v) is bool else v) for k, v in reversed(list(x.items()))}
    kw = dict(risk_basis=m.risk_basis, country=m.country, currency=m.currency, reinsurance_basis=m.reinsurance_basis,
              loss_definition=m.loss_definition)
    pol = m.per_occurrence_limit
    pol2 = float(pol) if type(pol) is int else int(pol) if (type(pol) is float and pol.is_integer()) else pol
    return (Metadata(details=d, loss_details=ld, per_occurrence_limit=pol, **kw),
            Metadata(details=flip(d), loss_details=flip(ld), per_occurrence_limit=pol2, **kw))


def coord(c, inc):
    return (iso(c.period_start), iso(c.period_end), iso(c.evaluation_date), iso(c.prev_evaluation_date) if inc else None)


def summarize_oracle(cells, prem, status, res, notes=None, known=None):
    """Property C09 judged directly on the implementation's result.  `cells` = triangle.cells.
    Returns a list of failure strings (empty = fine).  Only what the property forbids is flagged."""
    fails = []
    inc = bool(cells) and type(cells[0]).__name__ == "IncrementalCell"
    prem_eff = True if inc else prem
    cur = {c.metadata.currency for c in cells}
    rb = {c.metadata.risk_basis for c in cells}
    keys = {k for c in cells for k in c.values}
    unreg = sorted(k for k in keys if k.lower() not in REGISTERED)
    groups = {}
    for c in cells:
        groups.setdefault(coord(c, inc), []).append(c)

    def clean_group(g):
        gk = {k for c in g for k in c.values}
        for k in gk:
            if k != k.lower():
                return False
            vals = [c.values.get(k) for c in g]
            if k in RATIO and not (not prem_eff and k in NON_LOSS):
                w = RATIO[k][0]
                ws = [c.values.get(w) for c in g]
                if wavg_expected(vals, ws, RATIO[k][1]) is None:
                    return False
                kinds = {vkind(x) for x in vals + ws if x is not None}
                if len({len(x) for x in vals + ws if isinstance(x, np.ndarray)}) > 1 or \
                        (any(kk.startswith("arr") for kk in kinds) and any(not kk.startswith("arr") for kk in kinds)):
                    return False
            elif not group_is_clean(vals):
                return False
        return True

    all_clean = all(clean_group(g) for g in groups.values())
    must_refuse = len(cur) != 1 or len(rb) != 1 or not cells
    if must_refuse or unreg:
        why = "mixed currency" if len(cur) > 1 else "mixed risk basis" if len(rb) > 1 else \
            "empty triangle" if not cells else f"field(s) without rule {unreg}"
        if status == "ok":
            fails.append(f"not refused: {why}")
        elif (must_refuse or all_clean) and cerr(res) != "TriangleError":
            fails.append(f"{why}: raised {type(res).__name__}, not TriangleError")
        return fails
    if status == "err":
        if all_clean:
            fails.append(f"valid input refused with {type(res).__name__}: {res}")
        return fails
    if any(k != k.lower() for k in keys):
        return fails        # mixed-case field names are outside the documented vocabulary (model-vs-code only)
    out = res
    if dates_not_plain(out):
        fails.append("an output cell stores a date that is not a plain datetime.date")
    ocoords = [coord(o, inc) for o in out]
    if len(set(ocoords)) != len(ocoords):
        fails.append("two output cells share a coordinate")
    if set(ocoords) != set(groups):
        fails.append("output coordinates differ from the distinct input coordinates")
    want_cls = "IncrementalCell" if inc else "CumulativeCell"
    exp_meta = expected_shared_metadata(cells)
    for o in out:
        g = groups.get(coord(o, inc))
        if g is None:
            continue
        if type(o).__name__ != want_cls:
            fails.append(f"output cell class {type(o).__name__}, expected {want_cls}")
        mm = meta_matches(o.metadata, exp_meta)
        if mm:
            fails.append(f"shared-metadata rule: {mm}")
        gk = {k for c in g for k in c.values}
        if set(o.values) != gk:
            fails.append(f"key set {sorted(o.values)} != union of the group's keys {sorted(gk)}")
            continue
        for k in gk:
            vals = [c.values.get(k) for c in g]
            got = o.values[k]
            if not prem_eff and k in NON_LOSS:
                held = [canon_value(v) for v in vals if v is not None]
                if canon_value(got) in held:
                    continue
                if got is None and g[0].values.get(k) is None:
                    if held:
                        # known finding S1: the first cell of the group lacks the field, so the result is None
                        # although another cell of the group holds it
                        msg = (f"summarize_premium=False: {k} = None because the first cell of the group lacks it, "
                               f"although other cells hold {[v for v in vals if v is not None][:2]!r}")
                        if known is not None:
                            known.append(msg)
                        else:
                            fails.append(msg)
                    continue                  # no cell holds a value: None is every cell's value
                fails.append(f"summarize_premium=False: {k} = {got!r} is not the value of an existing cell {vals!r}")
            elif k in RATIO:
                w, tr = RATIO[k]
                want = wavg_expected(vals, [c.values.get(w) for c in g], tr)
                if want is None or not close(got, want):
                    fails.append(f"ratio field {k}: got {got!r}, weighted average by {w} is {want!r}")
            else:
                want = exact_total(vals)
                if want is None or value_as_exact(got) != want:
                    fails.append(f"{k}: got {got!r}, sum over the {len(g)} cells of the coordinate is {want!r} (values {vals!r})")
    # conservation of totals over the whole triangle
    for k in keys:
        if k in RATIO or (not prem_eff and k in NON_LOSS):
            continue
        tin = exact_total([c.values.get(k) for c in cells])
        tout = exact_total([o.values.get(k) for o in out])
        if tin is None or tout is None:
            continue                      # array lengths differ between coordinates: no common total
        if tin[1] != tout[1]:
            fails.append(f"total of {k} not conserved: in {tin}, out {tout}")
    return fails


# ------------------------------------------------------------------------------------------ generator
class SummGen(Gen):
    """Multi-slice triangles over the whole registered field vocabulary."""

    def field_value(self, kind, field, n_samples):
        r = self.r
        if field in RATIO:                       # ratios: small positive dyadics
            if kind.startswith("arr"):
                return np.array([r.randint(1, 32) / 8.0 for _ in range(n_samples)], dtype=np.float64)
            return r.randint(1, 32) / 8.0
        if kind == "int":
            return r.randint(1, 5000)
        if kind == "float":
            return r.randint(8, 40000) / 8.0
        if kind == "arr_int":
            return np.array([r.randint(1, 5000) for _ in range(n_samples)], dtype=np.int64)
        return np.array([r.randint(8, 40000) / 8.0 for _ in range(n_samples)], dtype=np.float64)

    def pick_fields(self, n):
        r = self.r
        fs = r.sample(ADDITIVE, min(n, len(ADDITIVE)))
        if r.random() < 0.3:
            k = r.choice(sorted(RATIO))
            fs.append(k)
            if RATIO[k][0] not in fs and r.random() < 0.93:
                fs.append(RATIO[k][0])
        return fs

    def metas(self, n_slices, slice_diff=None):
        """As Gen.metas, but every Metadata gets its OWN string objects (equal, never identical: as if parsed from
        JSON / CSV or produced by code.strip().upper()); sometimes one slice has risk_basis=None."""
        ms, sd = super().metas(n_slices, slice_diff)
        if sd == "risk_basis" and len(ms) >= 2 and self.r.random() < 0.5:
            from bermuda import Metadata

            m = ms[self.r.randrange(len(ms))]
            none_rb = Metadata(risk_basis=None, country=m.country, currency=m.currency, reinsurance_basis=m.reinsurance_basis,
                               loss_definition=m.loss_definition, per_occurrence_limit=m.per_occurrence_limit,
                               details=dict(m.details), loss_details=dict(m.loss_details))
            ms = [x for x in ms if x is not m] + [none_rb]
        return [fresh_meta(m) for m in ms], sd

    def metas_ext(self, n_slices, slice_diff=None):
        from bermuda import Metadata

        ms, sd = self.metas(n_slices, slice_diff)
        r = self.r
        if r.random() < 0.25:                    # falsy detail values (0, 0.0, False, ""), shared or ==-equal or differing
            fam = r.choice(["num", "num", "str"])
            key, where = r.choice(["z0", "zf"]), r.choice(["details", "loss_details"])
            ms2 = []
            for i, m in enumerate(ms):
                if fam == "num":
                    v = r.choice([0, 0.0, False]) if r.random() < 0.85 else r.choice([1, 2.5, True])
                else:
                    v = "" if r.random() < 0.85 else "x"
                d, ld = dict(m.details), dict(m.loss_details)
                (d if where == "details" else ld)[key] = v
                ms2.append(Metadata(risk_basis=m.risk_basis, country=m.country, currency=m.currency,
                                    reinsurance_basis=m.reinsurance_basis, loss_definition=m.loss_definition,
                                    per_occurrence_limit=m.per_occurrence_limit, details=d, loss_details=ld))
            ms = []
            for m in ms2:
                if m not in ms:
                    ms.append(m)
        if r.random() < 0.15:                    # a shared / partly shared None-valued detail, numeric == variants
            ms2 = []
            for i, m in enumerate(ms):
                d = dict(m.details)
                d["opt"] = None if (r.random() < 0.7 or i == 0) else "z"
                pol = m.per_occurrence_limit
                if pol is not None and float(pol).is_integer() and r.random() < 0.5:
                    pol = float(pol) if isinstance(pol, int) else int(pol)
                ms2.append(Metadata(risk_basis=m.risk_basis, country=m.country, currency=m.currency,
                                    reinsurance_basis=m.reinsurance_basis, loss_definition=m.loss_definition,
                                    per_occurrence_limit=pol, details=d, loss_details=dict(m.loss_details)))
            ms = []
            for m in ms2:
                if m not in ms:
                    ms.append(m)
        return ms, sd

    def summ_case(self):
        """-> (list of cells, prem, info)"""
        from bermuda import CumulativeCell, IncrementalCell, Metadata

        r = self.r
        u = r.random()
        kind = ("clean" if u < 0.58 else "mixedkind" if u < 0.68 else "currency" if u < 0.73 else "risk_basis" if u < 0.78
                else "unregistered" if u < 0.84 else "upper" if u < 0.87 else "layers")
        basis = r.choice(["cum", "cum", "inc"])
        prem = r.random() < 0.6
        n_slices = r.choice([1, 2, 2, 3, 3, 4])
        slice_diff = r.choice(ATTRS + ["several", "several"])
        if kind == "layers":
            slice_diff, prem, basis, n_slices = r.choice(["loss_details", "per_occurrence_limit"]), False, "cum", r.choice([2, 3])
        if kind == "currency":
            slice_diff, n_slices = "currency", max(2, n_slices)
        if kind == "risk_basis":
            slice_diff, n_slices = "risk_basis", max(2, n_slices)
        ms, slice_diff = self.metas_ext(n_slices, slice_diff)
        layout = r.choice(["regular", "ragged", "holey", "irregular", "single_period", "single_lag"])
        rows, _ = self.coords(layout, None, r.randint(1, 3), r.randint(1, 4))
        fields = self.pick_fields(r.randint(1, 4))
        vk = r.choice(["int", "int", "float", "arr_int", "arr_float"])
        fkind = {f: vk for f in fields}
        n_samples = r.choice([2, 3])
        cells = []
        prem_store = {}
        flavours = set()
        respelled = set()
        for si, m in enumerate(ms):
            if r.random() < 0.2:
                rows_s, _ = self.coords(layout, None, r.randint(1, 3), r.randint(1, 3))
                if r.random() < 0.7:             # partial overlap with the first slice
                    rows_s = rows[: max(1, len(rows) - 1)] + rows_s[:1] if rows_s[0][0] > rows[-1][1] else rows
            else:
                rows_s = rows
            sf = fields if (kind == "layers" or r.random() < 0.5) else r.sample(fields, r.randint(1, len(fields)))
            for f in list(sf):                   # keep weight keys with their ratio most of the time
                if f in RATIO and RATIO[f][0] in fields and RATIO[f][0] not in sf and r.random() < 0.9:
                    sf = sf + [RATIO[f][0]]
            kinds = dict(fkind)
            if kind == "mixedkind":
                tied = set(RATIO) | {w for w, _ in RATIO.values()}     # ratio inputs keep one kind
                kinds = {f: (vk if f in tied else r.choice(["int", "float", "arr_int", "arr_float"])) for f in fields}
                if r.random() < 0.3:
                    n_samples = r.choice([2, 3])
            spell = respell(m) if r.random() < 0.15 else (m, m)
            n_in_slice = 0
            own_cadence = kind != "layers" and si > 0 and r.random() < 0.4
            flavour = r.choice(["ts", "ts", "dt"]) if r.random() < 0.15 else "date"
            flavours.add(flavour)
            for ps, pe, evs in rows_s:
                prev = ps - datetime.timedelta(days=1)
                if own_cadence:                  # this slice is evaluated on its own (coarser) grid: incremental
                    evs = [e for e in evs[:-1] if r.random() < 0.5] + list(evs[-1:])   # cells then share (period, eval) but differ in prev
                for e in evs:
                    vals = {f: self.field_value(kinds[f], f, n_samples) for f in sf}
                    if kind == "layers":         # premium identical across loss layers
                        for f in sf:
                            if f in NON_LOSS:
                                vals[f] = prem_store.setdefault((ps, e, f), vals[f])
                    if r.random() < 0.04:
                        vals[r.choice(sf)] = None
                    if r.random() < 0.05:        # falsy but valid: zero of the field's kind
                        f0 = r.choice(sf)
                        if vals[f0] is not None and f0 not in RATIO and f0 not in {w for w, _ in RATIO.values()}:
                            vals[f0] = vals[f0] * 0
                    mm = spell[n_in_slice % 2]
                    n_in_slice += 1
                    if spell[0] is not m:
                        respelled.add(si)
                    if basis == "inc":
                        cells.append(mk_cell(IncrementalCell, flavour, ps, pe, e, vals, mm, prev=prev))
                        prev = e
                    else:
                        cells.append(mk_cell(CumulativeCell, flavour, ps, pe, e, vals, mm))
        if basis == "cum" and cells and r.random() < 0.06:      # restated cells: same slice and coordinates, other values
            for c in r.sample(cells, min(len(cells), r.randint(1, 3))):
                v2 = {k: (v if (v is None or k in RATIO) else v + v) for k, v in c.values.items()}
                cells.append(mk_cell(type(c), "date", c.period_start, c.period_end, c.evaluation_date, v2, c.metadata))
        if kind == "unregistered" and cells:
            bad = r.choice(["loss_ratio", "foo", "paid_los", "Ünï", "premium"])
            for c in r.sample(cells, r.randint(1, len(cells))):
                c.values[bad] = 1
        if kind == "upper" and cells:
            up = r.choice(["Paid_Loss", "PAID_LOSS", "Earned_Premium"])
            both = r.random() < 0.5
            for c in cells:
                c.values[up] = 3
                if both:
                    c.values[up.lower()] = 4
        incm = basis == "inc" and len({(c.period_start, c.period_end, c.evaluation_date, c.prev_evaluation_date) for c in cells}) \
            > len({(c.period_start, c.period_end, c.evaluation_date) for c in cells})
        info = {"kind": kind, "basis": basis, "mixed_prev": incm, "date_flavours": sorted(flavours), "respelled_slices": len(respelled), "n_slices": len(ms), "slice_diff": slice_diff, "values": vk if kind != "mixedkind" else "mixed",
                "layout": layout, "n_cells": len(cells), "fields": fields, "prem": prem}
        return cells, prem, info


# ------------------------------------------------------------------------------------------ coq case files
def masked_cells(cells, mask):
    """Copies of the implementation's output cells with the masked (ratio) fields set to None."""
    out = []
    for c in cells:
        ks = [k for k in c.values if mask(k)]
        if ks:
            c = c.replace(values={**c.values, **{k: None for k in ks}})
        out.append(c)
    return out


def cresult(status, res, mask=None):
    if status == "err":
        return f"(Err {cerr(res)})"
    cells = masked_cells(res, mask) if mask else res
    return f"(Ok {ccells(cells)})"


def parse_failing(out):
    """The last `Eval` printed a tuple of lists of nat -> list of index lists."""
    vals = parse_coq_eval(out)
    if not vals:
        return None
    groups = re.findall(r"\[([^\]]*)\]", vals[-1])
    return [[int(x) for x in re.findall(r"\d+", g.replace("%nat", ""))] for g in groups]


# ------------------------------------------------------------------------------------------ constructor refusals
def report_family_refused(ctx, name, ex):
    """The library raised while the VALID cells of a directed family were being constructed."""
    ctx.hist("family-refused:" + name)
    ctx.violation("impl-violation",
                  f"constructing the valid cells of input family `{name}` raised {type(ex).__name__}: {ex}",
                  {"op": "build-family", "family": name, "error": f"{type(ex).__name__}: {ex}"}, found_input=True)


def report_generator_refused(ctx, ex):
    import traceback

    ctx.hist("gen:constructor-raised")
    if ctx.histogram.get("gen:constructor-raised", 0) <= 1:
        ctx.violation("correspondence", f"a cell / metadata constructor raised on generated valid input: {type(ex).__name__}: {ex}",
                      {"traceback": traceback.format_exc()[-1500:]}, found_input=False)


def replay_family(data):
    from harness import summ_hard

    for name, cells in summ_hard.triangles():
        if name == data["family"]:
            if isinstance(cells, Exception):
                print(f"family {name}: constructing its cells raises {type(cells).__name__}: {cells}")
                return 1
            print(f"family {name}: {len(cells)} cells constructed")
            return 0
    print("unknown family", data["family"])
    return 1
