"""C18 -- unit-changing utilities conserve amounts (convert_currency, disaggregate_experience,
accident_quarter_to_policy_year, program_earned_premium).

proof      coq/Props/C18.v over the exact-rational models of coq/Model/Units.v; coq/GenProps/C18_fields.v ties
           CURRENCY_FIELDS (extracted from bermuda/utils/currency.py by translate/t_units.py) to the documented list
           and instantiates the conversion theorem with the extracted list.
tie        correspondence inside coqc on generated inputs (exact for dyadic inputs, 1e-9 relative otherwise); the
           accident-quarter share table is recorded from the implementation's own helper functions and fed to the model
           (the conservation theorem holds for ANY share table with positive totals).
oracles    Python-side conservation checks with Fractions on every case; F18 probed with a directed input.
"""
from __future__ import annotations

import dataclasses
from pathlib import Path
import json
import datetime
import random
import re
import shutil
import warnings
from fractions import Fraction

import numpy as np

from harness.c16 import (cq, cqlist, chdr, prove_static_local, tri_from_json, tri_to_json, val_from_json,
                         val_to_json, respell_meta, rebuild_dates, meta_key, flatten_alike_metas, hash_colliding_metas,
                         big_cells, coord_key)
from harness.common import COQ, REPO, parse_coq_eval
from harness.coqterm import NotRepresentable, ccell, cerr, cstr, canon_meta
from harness.gen import Gen, add_m, month_end

D = datetime.date
TOL = Fraction(1, 10**9)
F18_CLASS = {"kind": "aq_to_py_uncovered_quarter"}
CAND_DROPPED = {"kind": "disaggregate_unobservable_cell_dropped"}
CAND_DICT = {"kind": "disaggregate_dict_weights_keyerror"}
ZERO_PREFIX = {"kind": "disaggregate_zero_prefix_weights"}
DOCUMENTED_CURRENCY_FIELDS = ["earned_premium", "used_earned_premium", "written_premium", "paid_loss",
                              "reported_loss", "incurred_loss"]
FIELD_POOL = DOCUMENTED_CURRENCY_FIELDS + ["reported_claims", "open_claims", "earned_exposure", "closed_claims"]

HEADER = """From Coq Require Import ZArith QArith List Bool.
From Bermuda Require Import Model.Base Model.Blend Model.Units.
Import ListNotations.
Local Open Scope Z_scope.
"""


def small_dyadic(x, maxden=1024):
    fr = Fraction(x)
    return fr.denominator <= maxden and fr.denominator & (fr.denominator - 1) == 0


def frac(v):
    if isinstance(v, (float, np.floating)):
        return Fraction(float(v))
    return Fraction(int(v))


def samples_of(v):
    if isinstance(v, np.ndarray):
        return [frac(x) for x in v.tolist()]
    return [frac(v)]


def close(want: Fraction, got: Fraction, tol=TOL):
    return abs(want - got) <= tol * abs(want)


def cuval(v) -> str:
    if isinstance(v, np.ndarray):
        if v.ndim != 1 or v.dtype.kind not in "fi" or (v.dtype.kind == "f" and not np.all(np.isfinite(v))):
            return "UOther"
        isf = "true" if v.dtype.kind == "f" else "false"
        return f"(UArr {isf} {cqlist(frac(x) for x in v.tolist())})"
    if isinstance(v, (bool, np.bool_)) or v is None:
        return "UOther"
    if isinstance(v, (int, np.integer)):
        return f"(UNum false {cq(int(v))})"
    if isinstance(v, (float, np.floating)):
        if v != v or v in (float("inf"), float("-inf")):
            return "UOther"
        return f"(UNum true {cq(float(v))})"
    return "UOther"


def cucell(c) -> str:
    return f"(mkU {chdr(c)} [" + ";".join(f"({cstr(k)},{cuval(v)})" for k, v in c.values.items()) + "])"


def cresult_ucells(res) -> str:
    if res[0] == "ok":
        return "(Ok [" + ";\n  ".join(cucell(c) for c in res[1].cells) + "])"
    return f"(Err {cerr(res[1])})"


def ccells_list(cells) -> str:
    return "[" + ";\n  ".join(ccell(c) for c in cells) + "]"


def cstrs(l) -> str:
    return "[" + ";".join(cstr(x) for x in l) + "]"


def cperiod(p) -> str:
    return f"({p[0].toordinal()},{p[1].toordinal()})"


def run_guard(thunk):
    with warnings.catch_warnings():
        warnings.simplefilter("ignore")
        try:
            return ("ok", thunk())
        except Exception as ex:  # noqa: BLE001
            return ("err", ex)


def strict_hdr(c):
    prev = getattr(c, "prev_evaluation_date", None)
    return (type(c).__name__, c.period_start, c.period_end, c.evaluation_date, prev, canon_meta(c.metadata, ordered=True))


# =================================================================================================
# convert_currency
def gen_convert_currency_only(r: random.Random):
    """slices that differ ONLY in currency, built so that many cells coincide exactly after conversion (equal amounts
    at the given rates, all-zero cells): the result must still have one cell per input cell and the same totals"""
    from bermuda import Triangle

    g = Gen(r)
    fields = r.sample(FIELD_POOL, r.randint(2, 4))
    for _ in range(30):
        cells, info = g.cells(layout=r.choice(["regular", "ragged", "single_period"]), n_slices=1,
                              values=r.choice(["float", "arr_float", "float"]), fields=fields,
                              n_periods=r.randint(1, 3), n_lags=r.randint(1, 3))
        if len(cells) <= 8:
            break
    pool = ["USD", "EUR", "GBP", "JPY"]
    r.shuffle(pool)
    base_cur, others = pool[0], pool[1:r.randint(2, 3)]
    rates = {cur: r.choice([0.5, 2.0, 0.25, 4.0, 1.0]) for cur in pool}
    target = base_cur if r.random() < 0.7 else pool[3]
    base_rate = 1.0 if target == base_cur else rates[base_cur]

    def scaled(v, k):
        return v * k if not isinstance(v, np.ndarray) else v * k

    base = []
    for c in cells:
        vals = dict(c.values)
        if r.random() < 0.3:   # an all-zero early cell
            vals = {f: (np.zeros(len(v)) if isinstance(v, np.ndarray) else 0) for f, v in vals.items()}
        base.append(c.replace(values=vals, metadata=dataclasses.replace(c.metadata, currency=base_cur)))
    new_cells = list(base)
    for oc in others:
        k = base_rate / (1.0 if oc == target else rates[oc])      # amounts in oc that convert to the base's converted amounts
        for c in base:
            if r.random() < 0.6:    # coincides with the base slice's cell after conversion
                vals = {f: (scaled(v, k) if f in DOCUMENTED_CURRENCY_FIELDS else v) for f, v in c.values.items()}
            else:
                vals = {f: (np.array([g.num("float") for _ in range(len(v))]) if isinstance(v, np.ndarray) else g.num("float"))
                        for f, v in c.values.items()}
            new_cells.append(c.replace(values=vals, metadata=dataclasses.replace(c.metadata, currency=oc)))
    with warnings.catch_warnings():
        warnings.simplefilter("ignore")
        tri = Triangle(new_cells)
    return dict(kind="convert", tri=tri, target=target, rates=rates, style="dyadic", mode="currency-only")


SPELLINGS = {"upper": lambda c: c, "lower": lambda c: c.lower(), "mixed": lambda c: c[0] + c[1:].lower(),
             "padded": lambda c: " " + c.lower() + " "}


def gen_convert(r: random.Random):
    """currency codes are opaque strings for the library: data, target and rate-table keys written in the same spelling
    (upper, lower, mixed case, padded) must convert exactly alike, and the output carries the caller's target verbatim"""
    from bermuda import Triangle

    case = gen_convert_upper(r)
    spelling = r.choice(["upper", "upper", "lower", "mixed", "padded", "lower"])
    f = SPELLINGS[spelling]
    case["spelling"] = spelling
    case["codes"] = sorted({f(c) for c in ["USD", "EUR", "GBP", "JPY", "CHF"]})
    if spelling != "upper":
        cells = [c.replace(metadata=dataclasses.replace(c.metadata, currency=f(c.metadata.currency)))
                 if c.metadata.currency is not None else c for c in case["tri"].cells]
        with warnings.catch_warnings():
            warnings.simplefilter("ignore")
            case["tri"] = Triangle(cells)
        case["target"] = f(case["target"])
        case["rates"] = {f(k): v for k, v in case["rates"].items()}
    return case


def gen_convert_upper(r: random.Random):
    from bermuda import Triangle

    if r.random() < 0.3:
        return gen_convert_currency_only(r)
    g = Gen(r)
    n_slices = r.choice([1, 2, 3, 4])
    fields = r.sample(FIELD_POOL, r.randint(2, 5))
    for _ in range(30):
        cells, info = g.cells(layout=r.choice(["regular", "ragged", "holey", "single_period"]), n_slices=n_slices,
                              values=r.choice(["int", "float", "arr_int", "arr_float", "mixed"]), fields=fields,
                              slice_diff=r.choice(["country", "details", "reinsurance_basis"]),
                              n_periods=r.randint(1, 3), n_lags=r.randint(1, 3))
        if len(cells) <= 16:
            break
    metas = []
    for c in cells:
        if c.metadata not in metas:
            metas.append(c.metadata)
    pool = ["USD", "EUR", "GBP", "JPY"]
    curs = {id(m): (r.choice(pool) if r.random() < 0.93 else None) for m in metas}
    by_meta = {i: m for i, m in enumerate(metas)}
    new_cells = []
    for c in cells:
        i = metas.index(c.metadata)
        new_cells.append(c.replace(metadata=dataclasses.replace(by_meta[i], currency=curs[id(by_meta[i])])))
    target = r.choice(["USD", "USD", "EUR", "GBP"])
    rates = {}
    style = r.choice(["dyadic", "dyadic", "float", "int"])
    for cur in pool + ["CHF"]:
        if r.random() < (0.92 if cur != "CHF" else 0.3):
            rates[cur] = {"dyadic": r.choice([0.5, 1.25, 2.0, 0.875, 1.0, 3.5]),
                          "float": r.choice([1.1, 1.31, 0.73, 0.0091, 1.4]),
                          "int": r.choice([2, 3, 1])}[style]
    with warnings.catch_warnings():
        warnings.simplefilter("ignore")
        tri = Triangle(new_cells)
    return dict(kind="convert", tri=tri, target=target, rates=rates, style=style)


def run_convert(case):
    from bermuda.utils.currency import convert_currency

    if case.get("kw"):
        return run_guard(lambda: convert_currency(exchange_rates=case["rates"], target_currency=case["target"],
                                                  triangle=case["tri"]))
    return run_guard(lambda: convert_currency(case["tri"], case["target"], case["rates"]))


def oracle_convert(case, res):
    """exactly the documented currency fields are multiplied by the slice's rate; everything else unchanged"""
    tri, target, rates = case["tri"], case["target"], case["rates"]
    from bermuda import Metadata

    for x in case.get("codes", []):
        stored = Metadata(currency=x).currency
        if stored != x:
            return [f"Metadata(currency={x!r}).currency is {stored!r}: the attribute is not preserved verbatim"]
    must_refuse = any(c.metadata.currency is None or (c.metadata.currency != target and c.metadata.currency not in rates)
                      for c in tri.cells)
    if must_refuse:
        if res[0] == "ok":
            return ["a slice with a missing currency / exchange rate was converted instead of refused"]
        return []
    if res[0] != "ok":
        return [f"valid input refused: {type(res[1]).__name__}: {res[1]}"]
    out = res[1]
    if len(out) != len(tri):
        return [f"cell count changed from {len(tri)} to {len(out)}"]
    tol = TOL if case["style"] == "float" else Fraction(0)
    want = []
    for c in tri.cells:
        cur = c.metadata.currency
        rate = None if cur == target else rates[cur]
        m2 = dataclasses.replace(c.metadata, currency=target)
        hdr = (type(c).__name__, c.period_start, c.period_end, c.evaluation_date,
               getattr(c, "prev_evaluation_date", None), canon_meta(m2, ordered=True))
        vals = {}
        for f, v in c.values.items():
            if rate is not None and f in DOCUMENTED_CURRENCY_FIELDS:
                vals[f] = ("scaled", [s * frac(rate) for s in samples_of(v)], isinstance(v, np.ndarray))
            else:
                vals[f] = ("same", samples_of(v), isinstance(v, np.ndarray))
        want.append((hdr, vals, c))
    got = list(out.cells)
    fails = []
    # totals per field in the target currency (a lost or doubled cell shows here even if every surviving cell is right)
    tot_want, tot_got = {}, {}
    for _, vals, _ in want:
        for f, (_, xs, _) in vals.items():
            tot_want[f] = tot_want.get(f, 0) + sum(xs)
    for o in got:
        for f, v in o.values.items():
            tot_got[f] = tot_got.get(f, 0) + sum(samples_of(v))
    for f, w in tot_want.items():
        if not close(w, tot_got.get(f, Fraction(0)), tol):
            fails.append(f"total of {f} over the triangle is {float(tot_got.get(f, 0))!r} after conversion, expected {float(w)!r}")
            break
    for hdr, vals, c in want:
        hit = None
        for j, o in enumerate(got):
            if strict_hdr(o) != hdr or set(o.values) != set(vals):
                continue
            ok = True
            for f, (how, xs, isarr) in vals.items():
                ov = o.values[f]
                if isinstance(ov, np.ndarray) != isarr:
                    ok = False
                    break
                ys = samples_of(ov)
                if len(ys) != len(xs) or not all(close(x, y, tol if how == "scaled" else 0) for x, y in zip(xs, ys)):
                    ok = False
                    break
            if ok:
                hit = j
                break
        if hit is None:
            # explain with the nearest candidate
            cand = [o for o in got if strict_hdr(o) == hdr]
            why = "no output cell with these dates and the metadata with currency set to the target"
            if cand:
                o = cand[0]
                for f, (how, xs, isarr) in vals.items():
                    if f not in o.values:
                        why = f"field {f} missing"
                        break
                    ys = samples_of(o.values[f])
                    if len(ys) != len(xs) or not all(close(x, y, tol if how == "scaled" else 0) for x, y in zip(xs, ys)):
                        why = (f"field {f}: got {[float(y) for y in ys][:3]}, want {[float(x) for x in xs][:3]} "
                               f"({'value * rate ' + str(rates.get(c.metadata.currency)) if how == 'scaled' else 'unchanged'})")
                        break
            fails.append(f"cell {c.period_start}/{c.evaluation_date} currency {c.metadata.currency}->{target}: {why}")
            if len(fails) >= 3:
                break
        else:
            del got[hit]
    return fails


def coq_convert(case, res, tol):
    rates = "[" + ";".join(f"({cstr(k)}, mkRate {'true' if isinstance(v, float) else 'false'} {cq(v)})"
                           for k, v in case["rates"].items()) + "]"
    return (f"(({cstr(case['target'])}, {rates}, {ccells_list(case['tri'].cells)}), {cq(tol)},\n {cresult_ucells(res)})")


CHECK_CONVERT = """From Gen Require Import GenUnits.
Definition check (c : (str * list (str * rate) * list cell) * Q * result (list ucell)) : bool :=
  let '((target, rates, cells), tol, impl) := c in
  uresult_close tol (convert_currency currency_fields target rates cells) impl.
"""


# =================================================================================================
# disaggregate_experience
def dy_weights(r, n):
    """n dyadic weights in [0,1] summing to 1 (sixteenths), first one positive"""
    cuts = sorted(r.randint(0, 16) for _ in range(n - 1))
    parts = [b - a for a, b in zip([0] + cuts, cuts + [16])]
    if parts[0] == 0:
        k = max(range(n), key=lambda i: parts[i])
        parts[0], parts[k] = parts[k], parts[0]
    return [p / 16 for p in parts]


def gen_disagg(r: random.Random, partial=True):
    from bermuda import CumulativeCell, Metadata, Triangle

    g = Gen(r)
    R = r.choice([3, 6, 12, 12])
    divisors = [d for d in (1, 2, 3, 4, 6) if R % d == 0 and d < R]
    sub = r.choice(divisors)
    how = "ok"
    fiscal = r.random() < 0.4
    clean = fiscal and r.random() < 0.7        # most fiscal-February cases are plain valid requests (must not be refused)
    x = 1.0 if clean else r.random()
    if x < 0.06:
        sub, how = R, "same"
    elif x < 0.10:
        sub, how = R * 2, "coarser"
    elif x < 0.15 and R in (6, 12):
        sub, how = (4 if R == 6 else 5), "nondivisor"
    n_periods = r.randint(1, 3)
    y0, m0 = r.randint(2000, 2025), r.choice([1, 4, 7, 10])
    cal = "calendar"
    if fiscal:
        # fiscal (non-calendar) periods with a boundary on the last day of a February: century years that are / are not
        # leap years, ordinary leap and non-leap years (1970+; earlier experience is the separate finding probed below)
        cal = "fiscal-feb"
        Y = r.choice([2000, 2100, 2100, 2024, 2023, 2096, 1972, 2001, 2200])
        k = r.randint(1, n_periods)                       # the k-th period ends at the end of February of year Y
        y0, m0 = add_m(Y, 3, -k * R)
        if y0 < 1970:                                      # stay clear of the pre-1970 finding (F10d)
            y0, m0 = add_m(2000, 3, -k * R)
    fields = r.sample(FIELD_POOL, r.randint(1, 4))
    if clean and "paid_loss" not in fields:
        fields.append("paid_loss")
    kinds = {f: r.choice(["int", "float", "arr_float", "arr_int"]) for f in fields}
    n_slices = r.choice([1, 1, 2])
    metas = r.choice([[Metadata(), Metadata(country="DE")],
                      [Metadata(details={"k": "v"}), Metadata(loss_details={"k": "v"})],
                      [Metadata(details={"currency": "USD"}), Metadata(currency="USD")],
                      [Metadata(details={"k": ""}), Metadata(details={"k": None})]])[:n_slices]
    cells = []
    step = sub if how in ("ok",) else r.choice([1, 3])
    # P: whole periods missing (annual 2018 and 2020 without 2019; only the first half-years): in every slice, or in one
    # slice next to a complete one.  The gaps are whole multiples of the period length (not the gapped class H4).
    missing = "none"
    if not clean and r.random() < 0.3:
        missing = r.choice(["all-slices", "one-slice"]) if n_slices == 2 else "all-slices"
        n_periods = max(n_periods, 2) + (1 if missing == "one-slice" else 0)
    for si, m in enumerate(metas):
        cur = (y0, m0)
        for p in range(n_periods):
            if missing == "all-slices" and p > 0:
                cur = add_m(cur[0], cur[1], R * (1 + p % 2))          # skip one or two whole periods
            if missing == "one-slice" and si == 1 and p == 1:
                cur = add_m(cur[0], cur[1], R)                          # this slice lacks the second period
                continue
            ps = D(cur[0], cur[1], 1)
            ey, em = add_m(cur[0], cur[1], R - 1)
            pe = month_end(ey, em)
            # evaluation dates: some inside the period (at sub-period ends, first sub-period always observable),
            # some at / after the period end
            offs = sorted(set(
                ([step * k for k in range(1, R // step + 1) if r.random() < 0.5] if partial else [])
                + [R] + [R + 3 * k for k in range(1, 4) if r.random() < 0.5]))
            for o in offs:
                e = month_end(*add_m(cur[0], cur[1], o - 1))
                if not clean and r.random() < 0.12:
                    # the day before / after a month end (never before the first sub-period's end: that is finding H1)
                    e = e + datetime.timedelta(days=r.choice([-1, 1]) if o > max(sub, step) else 1)
                cells.append(CumulativeCell(period_start=ps, period_end=pe, evaluation_date=e, metadata=m,
                                            values={f: g.value(kinds[f], 3) for f in fields}))
            cur = add_m(ey, em, 1)
    n = R // sub if R % sub == 0 and sub < R else 2
    wx = r.random() * (0.62 if clean else 1.0)
    wtag = "none"
    if wx < 0.30:
        weights = None
    elif wx < 0.62:
        weights, wtag = dy_weights(r, n), "dyadic"
    elif wx < 0.74:
        raw = [r.randint(1, 9) for _ in range(n)]
        weights, wtag = [v / sum(raw) for v in raw], "float"
        if abs(sum(weights) - 1) != 0:   # the code demands sum == 1 exactly in floats
            weights[-1] = 1 - sum(weights[:-1])
            if sum(weights) != 1:
                weights, wtag = dy_weights(r, n), "dyadic"
    elif wx < 0.88 and how == "ok":
        # user-supplied lists whose sum is close to but not exactly 1: the library refuses them (ValueError); if a
        # changed library accepts them, the sub-period values must still add up to the original
        kind = r.choice(["rounded", "rounded", "minus", "plus", "dyadic-plus", "dyadic-minus"])
        if kind == "rounded":
            weights = [round(1 / n, r.choice([5, 6]))] * n          # 0.33333*3, 0.166667*6, ...
            if sum(weights) == 1:
                weights[-1] = weights[-1] - 1e-6
        elif kind in ("minus", "plus"):
            weights = [1 / n] * n
            weights[r.randrange(n)] += -1e-9 if kind == "minus" else 1e-9
        else:
            weights = dy_weights(r, n)
            k = max(range(n), key=lambda i: weights[i]) if kind == "dyadic-minus" else min(range(n), key=lambda i: weights[i])
            weights[k] += -1e-6 if kind == "dyadic-minus" else 1e-6
        if sum(weights) == 1 or not all(0 <= w <= 1 for w in weights):
            weights, wtag = dy_weights(r, n), "dyadic"
        else:
            wtag = "near-one"
    elif wx < 0.92:
        weights, wtag = dy_weights(r, n) + [0.0], "bad-length"
    elif wx < 0.96:
        weights, wtag = [w * 0.5 for w in dy_weights(r, n)], "bad-sum"
    else:
        w = dy_weights(r, n)
        weights, wtag = [w[0] + 1.0] + w[1:-1] + ([w[-1] - 1.0] if n > 1 else []), "bad-range"
    fx = 0.0 if clean else r.random()
    if fx < 0.5:
        farg = None
    elif fx < 0.9:
        farg = r.sample(FIELD_POOL, r.randint(1, 5))
    else:
        farg = ["no_such_field"]
    with warnings.catch_warnings():
        warnings.simplefilter("ignore")
        tri = Triangle(cells)
        incremental = r.random() < 0.18
        if incremental:
            # incremental triangles go through to_cumulative / to_incremental around the same core: covered by the
            # direct conservation oracle only (the Coq model is stated for cumulative triangles)
            tri = tri.to_incremental()
    return dict(kind="disagg", tri=tri, res=sub, weights=weights, fields=farg, how=how, wtag=wtag, R=R,
                incremental=incremental, cal=cal, missing=missing)


def run_disagg(case):
    from bermuda.utils.disaggregate import disaggregate_experience

    if case.get("kw"):
        return run_guard(lambda: disaggregate_experience(triangle=case["tri"], fields=case["fields"],
                                                         period_weights=case["weights"], resolution_months=case["res"]))
    return run_guard(lambda: disaggregate_experience(case["tri"], case["res"], case["weights"], case["fields"]))


def sub_ends(c, sub, n):
    from bermuda.date_utils import add_months

    return [add_months(c.period_start, (k + 1) * sub) - datetime.timedelta(days=1) for k in range(n)]


def disagg_must_succeed(case):
    """a semi-regular triangle, a divisor sub-resolution, valid weights (first weight positive) and at least one field to
    disaggregate: the call has to return a triangle"""
    from bermuda.utils.disaggregate import DEFAULT_INTERPOLATION_FIELDS

    if case["how"] != "ok" or case["wtag"] not in ("none", "dyadic", "float") or case.get("probe"):
        return False
    fields = case["fields"] if case["fields"] is not None else DEFAULT_INTERPOLATION_FIELDS
    return any(f in fields for f in case["tri"].fields)


def oracle_disagg(case, res):
    """sub-period values add up to the original (for cells with >= 1 observable sub-period and fields in `fields`);
    aggregating back reproduces fully observable cells.  -> (fails, dropped_cells)"""
    from bermuda.utils.disaggregate import DEFAULT_INTERPOLATION_FIELDS

    tri, sub = case["tri"], case["res"]
    if res[0] == "err" and disagg_must_succeed(case):
        return [f"valid input refused: {type(res[1]).__name__}: {res[1]}"], []
    if res[0] != "ok" or case["how"] != "ok" or case["wtag"].startswith("bad"):
        # (weights whose sum is only close to 1 -- wtag "near-one" -- are not skipped: either refused or conserving)
        if case["wtag"] == "near-one" and res[0] == "err" and not isinstance(res[1], ValueError):
            return [f"weights summing to {sum(case['weights'])!r}: raised {type(res[1]).__name__} instead of ValueError"], []
        return [], []
    out = res[1]
    if out is tri:
        return ["a finer resolution was requested but the argument came back unchanged"], []
    fields = case["fields"] if case["fields"] is not None else DEFAULT_INTERPOLATION_FIELDS
    n = case["R"] // sub
    fails, dropped = [], []
    index = {}
    for o in out.cells:
        index.setdefault((meta_key(o.metadata), o.evaluation_date), []).append(o)
    for c in tri.cells:
        ends = [e for e in sub_ends(c, sub, n) if e <= c.evaluation_date]
        parts = [o for o in index.get((meta_key(c.metadata), c.evaluation_date), [])
                 if c.period_start <= o.period_start and o.period_end <= c.period_end]
        flds = [f for f in c.values if f in fields]
        if not ends:
            if flds and not parts:
                dropped.append(c)
            continue
        if len(parts) != len(ends):
            fails.append(f"cell {c.period_start}/{c.evaluation_date}: {len(parts)} sub-period cells, {len(ends)} observable sub-periods")
            continue
        for f in flds:
            want = samples_of(c.values[f])
            tot = [Fraction(0)] * len(want)
            bad = False
            for o in parts:
                if f not in o.values:
                    bad = True
                    break
                ys = samples_of(o.values[f])
                if len(ys) != len(want):
                    bad = True
                    break
                tot = [a + b for a, b in zip(tot, ys)]
            if bad or not all(close(w, t) for w, t in zip(want, tot)):
                fails.append(f"cell {c.period_start}..{c.period_end} at {c.evaluation_date} field {f}: sub-period values add up to "
                             f"{[float(t) for t in tot][:3]} instead of {[float(w) for w in want][:3]}")
                break
        if len(fails) >= 3:
            break
    return fails, dropped


def oracle_reaggregate(case, res):
    """aggregate(disaggregate(t)) = t at the original resolution on fully observable cells (fields in `fields`)"""
    from bermuda.utils.disaggregate import DEFAULT_INTERPOLATION_FIELDS

    tri, sub = case["tri"], case["res"]
    if res[0] != "ok" or case["how"] != "ok" or case["wtag"].startswith("bad") or res[1] is tri or case.get("incremental"):
        return []
    fields = case["fields"] if case["fields"] is not None else DEFAULT_INTERPOLATION_FIELDS
    origin = tri.cells[0].period_start - datetime.timedelta(days=1)
    back = run_guard(lambda: res[1].aggregate(period_resolution=(case["R"], "month"), period_origin=origin))
    if back[0] != "ok":
        return [f"aggregating the disaggregated triangle back raised {type(back[1]).__name__}: {back[1]}"]
    idx = {(meta_key(o.metadata), o.period_start, o.period_end, o.evaluation_date): o for o in back[1].cells}
    fails = []
    for c in tri.cells:
        if c.evaluation_date < c.period_end:
            continue
        flds = [f for f in c.values if f in fields]
        if not flds:
            continue
        o = idx.get((meta_key(c.metadata), c.period_start, c.period_end, c.evaluation_date))
        if o is None:
            fails.append(f"cell {c.period_start}..{c.period_end} at {c.evaluation_date} is missing after aggregating back")
            continue
        for f in flds:
            want = samples_of(c.values[f])
            got = samples_of(o.values[f]) if f in o.values else []
            if len(got) != len(want) or not all(close(w, t) for w, t in zip(want, got)):
                fails.append(f"cell {c.period_start} at {c.evaluation_date} field {f}: aggregate(disaggregate) gives "
                             f"{[float(t) for t in got][:3]}, original {[float(w) for w in want][:3]}")
                break
        if len(fails) >= 3:
            break
    return fails


def coq_disagg(case, res, tol):
    from bermuda.date_utils import period_resolution

    tri = case["tri"]
    if case.get("incremental"):
        raise NotRepresentable("incremental triangle: direct oracle only")
    res_tri = period_resolution(tri)
    for s in tri.slices.values():
        if period_resolution(s) != res_tri:
            raise NotRepresentable("slice resolution differs from the triangle's")
    w = "None" if case["weights"] is None else f"(Some {cqlist(case['weights'])})"
    from bermuda.utils.disaggregate import DEFAULT_INTERPOLATION_FIELDS

    fields = case["fields"] if case["fields"] is not None else DEFAULT_INTERPOLATION_FIELDS
    if res[0] == "ok" and res[1] is tri:
        impl = "DSame"
    else:
        impl = f"(DCells {cresult_ucells(res)})"
    return (f"(({res_tri}%nat, {case['res']}%nat, {w}, {cstrs(fields)}, {cstrs(tri.fields)}),\n {ccells_list(tri.cells)}, "
            f"{cq(tol)},\n {impl})")


CHECK_DISAGG = """
Definition check (c : (nat * nat * option (list Q) * list str * list str) * list cell * Q * dis_result) : bool :=
  let '((rt, rn, w, fields, tf), cells, tol, impl) := c in
  match disaggregate_experience rt rn w fields tf cells, impl with
  | DSame, DSame => true
  | DCells a, DCells b => uresult_close tol a b
  | _, _ => false
  end.
"""


# =================================================================================================
# accident_quarter_to_policy_year
def gen_aq(r: random.Random, directed=None):
    from bermuda import CumulativeCell, Metadata, Triangle

    g = Gen(r)
    nq = r.randint(2, 7)
    y0, q0 = r.randint(2015, 2023), r.choice([1, 4, 7, 10])
    era = "modern"
    if directed is None and r.random() < 0.3:
        # experience starting in 1969 and running into the 1970s (month ids change sign inside the triangle); dates are
        # built by hand.  The first policy year starts in 1969 too (origin month <= first month), where the clean
        # add_months is right (its result lies in 1970); earlier policy years are the separate finding probed below.
        era = "straddle-1970"
        y0, q0 = 1969, r.choice([1, 4, 7, 10])
        nq = r.randint(3, 8)
    if directed and directed.get("era") == "pre1969":
        era = "pre1969"
        y0, q0, nq = 1965, 1, r.randint(3, 6)
    n_extra = r.randint(0, 3)
    fields = r.sample(FIELD_POOL, r.randint(1, 3))
    kinds = {f: r.choice(["int", "float", "arr_float"]) for f in fields}
    n_slices = r.choice([1, 1, 2])
    metas = r.choice([[Metadata(risk_basis="Accident"), Metadata(risk_basis="Accident", country="DE")],
                      [Metadata(details={"k": "v"}), Metadata(loss_details={"k": "v"})],
                      [Metadata(details={"reinsurance_basis": "Net"}), Metadata(reinsurance_basis="Net")]])[:n_slices]
    cells = []
    shape = r.choice(["triangle", "triangle", "rectangle", "holey"])
    for m in metas:
        quarters = []
        cur = (y0, q0)
        for _ in range(nq):
            ey, em = add_m(cur[0], cur[1], 2)
            quarters.append((D(cur[0], cur[1], 1), month_end(ey, em), cur))
            cur = add_m(ey, em, 1)
        last = quarters[-1][2]
        evals = [month_end(*add_m(quarters[0][2][0], quarters[0][2][1], 2 + 3 * k)) for k in range(nq + n_extra)]
        final = evals[-1]
        for ps, pe, _ in quarters:
            for e in evals:
                if e < pe:
                    continue
                if shape == "holey" and e != final and r.random() < 0.3:
                    continue
                if shape == "rectangle" and e < quarters[-1][1]:
                    continue
                cells.append(CumulativeCell(period_start=ps, period_end=pe, evaluation_date=e, metadata=m,
                                            values={f: g.value(kinds[f], 3) for f in fields}))
        if n_slices == 2 and r.random() < 0.5:
            nq = max(2, nq - 1)
    if directed:
        params = {k: v for k, v in directed.items() if k != "era"}
    elif era == "straddle-1970":
        plen = r.choice([12, 12, 6, 3, 24])
        params = dict(policy_length_months=plen, policy_year_origin=D(2020, r.choice([m for m in (1, 3, 4, 7, 10) if m <= q0]), 1),
                      continuous_issuance=(r.random() < 0.7) or plen < 12)
    else:
        # inside the hypothesis of the conservation theorem (every accident quarter has a positive total share):
        # non-continuous issuance only with policies at least as long as the policy year (the rest is F18, probed apart)
        plen = r.choice([12, 12, 12, 6, 3, 24, 11])
        params = dict(policy_length_months=plen,
                      policy_year_origin=D(2020, r.choice([1, 1, 4, 7, 10, 3]), 1),
                      continuous_issuance=(r.random() < 0.7) or plen < 12)
    if not directed and r.random() < 0.18:
        # the policy-year origin falls on the month/day of an evaluation date of the triangle (quarter ends): the first
        # policy-year cell is then evaluated on the very day its period starts
        e0 = r.choice(sorted({c.evaluation_date for c in cells}))
        if (e0.month, e0.day) != (2, 29):
            params["policy_year_origin"] = D(2020, e0.month, e0.day)
            params["continuous_issuance"] = True
            era = era + "+origin-on-evaluation-date"
    flat = True
    if not directed and r.random() < 0.06 and len(cells) > 2:
        # break the flat right edge: drop the final evaluation of one quarter
        final = max(c.evaluation_date for c in cells)
        victims = [c for c in cells if c.evaluation_date == final]
        v = r.choice(victims)
        if sum(1 for c in cells if c.period == v.period and c.metadata == v.metadata) > 1:
            cells.remove(v)
            flat = False
    with warnings.catch_warnings():
        warnings.simplefilter("ignore")
        tri = Triangle(cells)
    return dict(kind="aq", tri=tri, flat=flat, era=era, **params)


def run_aq(case):
    from bermuda.utils.basis import accident_quarter_to_policy_year

    if case.get("kw"):
        return run_guard(lambda: accident_quarter_to_policy_year(
            case["tri"], case["policy_length_months"], case["policy_year_origin"], case["continuous_issuance"]))
    return run_guard(lambda: accident_quarter_to_policy_year(
        case["tri"], policy_length_months=case["policy_length_months"],
        policy_year_origin=case["policy_year_origin"], continuous_issuance=case["continuous_issuance"]))


def share_tables(case):
    """the raw earned-premium share table per slice, computed with the implementation's own helpers
    (policy_year_ep_shares of _accident_quarter_to_policy_year_slice)"""
    from bermuda.utils import basis as B

    out = []
    for _, sl in case["tri"].slices.items():
        pys = B.policy_years_covered(sl, case["policy_year_origin"])
        ep = []
        for py in pys:
            monthly = B._policy_earned_premium_share_by_month(
                risk_start_date=py[0], risk_end_date=py[1], policy_length_months=case["policy_length_months"],
                continuous_issuance=case["continuous_issuance"])
            q = B.monthly_ep_to_quarterly_ep(monthly, sl)
            ep.append((py, [(aq, float(s)) for aq, s in q.items()]))
        if len({py for py, _ in ep}) != len(ep):
            raise NotRepresentable("duplicate policy years")
        out.append((ep, sl))
    return out


def uncovered_quarters(tables):
    bad = []
    for ep, sl in tables:
        for aq in sl.periods:
            tot = sum(Fraction(s) for _, tbl in ep for a, s in tbl if a == aq)
            if tot <= 0:
                bad.append(aq)
    return bad


def oracle_aq(case, res):
    """each field's total per evaluation date (and slice) is conserved; the result is Policy-basis"""
    if res[0] != "ok":
        if case["flat"]:
            return [f"valid input refused: {type(res[1]).__name__}: {res[1]}"]
        return []
    if not case["flat"]:
        return []   # the implementation may accept a ragged edge (it only documents that it may fail)
    out = res[1]
    fails = []
    for o in out.cells:
        if o.metadata.risk_basis != "Policy" or type(o).__name__ != "CumulativeCell":
            fails.append(f"output cell {o.period_start}/{o.evaluation_date} is not a Policy-basis cumulative cell")
            return fails

    def key(c):
        m = dataclasses.replace(c.metadata, risk_basis="Policy")
        return (meta_key(m), c.evaluation_date)

    tin, tout = {}, {}
    for src, acc in ((case["tri"].cells, tin), (out.cells, tout)):
        for c in src:
            for f, v in c.values.items():
                xs = samples_of(v)
                k = key(c) + (f,)
                if k in acc:
                    a = acc[k]
                    if len(a) == 1 and len(xs) > 1:
                        a = a * len(xs)
                    if len(xs) == 1 and len(a) > 1:
                        xs = xs * len(a)
                    acc[k] = [p + q for p, q in zip(a, xs)]
                else:
                    acc[k] = xs
    if case.get("era") != "pre1969":
        fails += policy_period_failures(out)[:2]
    for k, want in tin.items():
        got = tout.get(k)
        if got is None or len(got) != len(want) or not all(close(w, g_) for w, g_ in zip(want, got)):
            fails.append(f"evaluation date {k[1]} field {k[2]}: policy-year total "
                         f"{[float(x) for x in (got or [])][:3]} != accident-quarter total {[float(x) for x in want][:3]}")
            if len(fails) >= 3:
                break
    return fails


def month_id(d):
    return 12 * (d.year - 1970) + d.month - 1


def coq_aq(case, res, tables):
    if case["policy_year_origin"].day != 1:
        raise NotRepresentable("policy-year origin not on the first of a month: direct oracles only")
    sl = []
    b = "true" if case["continuous_issuance"] else "false"
    for ep, s in tables:
        t = "[" + ";".join(f"({cperiod(py)}, [" + ";".join(f"({cperiod(aq)},{cq(x)})" for aq, x in tbl) + "])"
                           for py, tbl in ep) + "]"
        quarters = "[" + ";".join(cperiod(p) for p in s.periods) + "]"
        params = (f"({b}, {case['policy_length_months']}, {quarters}, ({month_id(s.periods[0][0])}, "
                  f"{month_id(s.periods[-1][1])}, {case['policy_year_origin'].month}))")
        sl.append(f"({params}, {t},\n {ccells_list(s.cells)})")
    return f"([{';'.join(sl)}], {cq(TOL)},\n {cresult_ucells(res)})"


# besides the redistribution itself, the share table recorded from the implementation's helpers is compared with the
# table the model computes from (issuance mode, policy length, quarters, first/last month, origin month)
CHECK_AQ = """
Definition check (c : list ((bool * Z * list period * (Z * Z * Z)) * share_table * list cell) * Q * result (list ucell)) : bool :=
  let '(slices, tol, impl) := c in
  forallb (fun s => let '((cont, L, quarters, (f, e, om)), recorded, _) := s in
                    share_table_close tol recorded
                      (code_share_table cont L quarters (py_start_ids (py_first_start f om) e))) slices
  && uresult_close tol (aq_to_py (map (fun s => (snd (fst s), snd s)) slices)) impl.
"""


# =================================================================================================
# program_earned_premium
def gen_premium(r: random.Random):
    style = r.choice(["dyadic", "int", "float"])

    def pattern(n):
        if style == "dyadic":
            # entries sixteenths with a power-of-two sum
            while True:
                p = [r.choice([0, 1, 2, 4, 8, 3, 5]) / 4 for _ in range(n)]
                s = sum(p)
                if s > 0 and small_dyadic(1 / s, 64):
                    return p
        if style == "int":
            p = [r.randint(0, 9) for _ in range(n)]
            if sum(p) == 0:
                p[0] = 1
            return p
        # "float": small dyadics with arbitrary sums (the divisions by the sums make binary64 inexact; the inputs stay
        # short so that the exact rational evaluation inside coqc stays cheap)
        p = [r.choice([0.0, r.randint(1, 40) / 8]) for _ in range(n)]
        if sum(p) == 0:
            p[0] = 1.0
        return p

    wres = r.choice([1, 1, 2, 3, 4, 6, 12]) if style != "dyadic" else r.choice([1, 2, 4])
    eres = r.choice([1, 1, 2, 3, 6, 12]) if style != "dyadic" else r.choice([1, 2, 4])
    ores = r.choice([1, 2, 3, 3, 6, 12])
    return dict(kind="premium", premium_volume={"dyadic": r.choice([1.0, 1024.0, 37.5]), "int": r.choice([1000, 1, 12345]),
                                                "float": r.randint(2, 2000000) / 2}[style],
                writing_pattern=pattern(r.randint(1, 5)), writing_resolution=wres,
                earning_pattern=pattern(r.randint(1, 5)), earning_resolution=eres, output_resolution=ores,
                output_offset=r.choice([0, 0, 1, 2, r.randint(0, ores + 2)]), continuous_writing=r.random() < 0.6, style=style)


def run_premium(case):
    from bermuda.utils.premium_pattern import program_earned_premium

    if case.get("kw"):
        return run_guard(lambda: program_earned_premium(
            continuous_writing=case["continuous_writing"], output_offset=case["output_offset"],
            output_resolution=case["output_resolution"], earning_resolution=case["earning_resolution"],
            earning_pattern=np.array(case["earning_pattern"], dtype=float), writing_resolution=case["writing_resolution"],
            writing_pattern=np.array(case["writing_pattern"], dtype=float), premium_volume=case["premium_volume"]))
    return run_guard(lambda: program_earned_premium(
        case["premium_volume"], np.array(case["writing_pattern"], dtype=float), case["writing_resolution"],
        np.array(case["earning_pattern"], dtype=float), case["earning_resolution"], case["output_resolution"],
        case["output_offset"], case["continuous_writing"]))


def oracle_premium(case, res):
    if res[0] != "ok":
        return [f"valid input refused: {type(res[1]).__name__}: {res[1]}"]
    w, e = res[1]
    pv = frac(case["premium_volume"])
    fw, fe = [frac(x) for x in w.tolist()], [frac(x) for x in e.tolist()]
    fails = []
    if len(fw) != len(fe):
        fails.append(f"patterns have different lengths {len(fw)} / {len(fe)}")
    if not close(pv, sum(fw)):
        fails.append(f"writing pattern sums to {float(sum(fw))!r}, premium volume {float(pv)!r}")
    if not close(pv, sum(fe)):
        fails.append(f"earning pattern sums to {float(sum(fe))!r}, premium volume {float(pv)!r}")
    if any(x < 0 for x in fw + fe):
        fails.append("negative entry for non-negative inputs")
    cw = ce = Fraction(0)
    for i, (a, b) in enumerate(zip(fw, fe)):
        cw += a
        ce += b
        if ce > cw + TOL * pv:
            fails.append(f"step {i}: cumulative earned {float(ce)!r} exceeds cumulative written {float(cw)!r}")
            break
    return fails


def coq_premium(case, res, tol):
    if res[0] == "ok":
        w, e = res[1]
        if not (np.all(np.isfinite(w)) and np.all(np.isfinite(e))):
            raise NotRepresentable("non-finite pattern")
        impl = f"(Ok ({cqlist(frac(x) for x in w.tolist())}, {cqlist(frac(x) for x in e.tolist())}))"
    else:
        impl = f"(Err {cerr(res[1])})"
    b = "true" if case["continuous_writing"] else "false"
    return (f"(({cq(case['premium_volume'])}, {cqlist(case['writing_pattern'])}, {case['writing_resolution']}%nat, "
            f"{cqlist(case['earning_pattern'])}, ({case['earning_resolution']}%nat, {case['output_resolution']}%nat, "
            f"{case['output_offset']}%nat, {b})), {cq(tol)}, {impl})")


CHECK_PREMIUM = """
Definition check (c : (Q * list Q * nat * list Q * (nat * nat * nat * bool)) * Q * result (list Q * list Q)) : bool :=
  let '((pv, wp, wres, ep, (eres, ores, off, cont)), tol, impl) := c in
  qlists_result_close tol (program_earned_premium pv wp wres ep eres ores off cont) impl.
"""


def premium_tol(case):
    if case["style"] != "dyadic":
        return TOL
    return Fraction(0)


# =================================================================================================
def case_json(case):
    j = {k: v for k, v in case.items() if k not in ("tri",)}
    if "tri" in case:
        j["tri"] = tri_to_json(case["tri"])
    if "policy_year_origin" in j:
        j["policy_year_origin"] = j["policy_year_origin"].isoformat()
    return j


def case_from_json(j):
    c = dict(j)
    if "tri" in c:
        c["tri"] = tri_from_json(c["tri"], c.get("date_kind", "date"))
    if "policy_year_origin" in c:
        c["policy_year_origin"] = D.fromisoformat(c["policy_year_origin"])
    return c


def harden_case(r, case):
    """families A / D / I of notes/HARDENING.md applied to a generated case (convert, disagg, aq)"""
    from bermuda import Triangle

    if "tri" not in case or len(case["tri"]) == 0:
        return case
    x = r.random()
    cells = list(case["tri"].cells)
    if x < 0.15:
        # A: EQUAL metadata spelled differently inside ONE slice (detail order, 7 vs 7.0, True vs 1, limit int/float)
        case["harden"] = "meta-spelling"
        cells = [respell_meta(c, 0, i, True) for i, c in enumerate(cells)]
    elif x < 0.30:
        # D: coordinates handed to the constructor as pandas.Timestamp / datetime.datetime (non-midnight)
        case["harden"] = "date-kinds"
        case["date_kind"] = r.choice(["timestamp", "datetime"])
        cells = [rebuild_dates(c, case["date_kind"]) for c in cells]
    elif 0.38 <= x < 0.50 and case["kind"] in ("convert", "disagg", "aq") and len(cells) <= 10 and not case.get("incremental"):
        # M: a sibling slice that differs ONLY by a hash-colliding value (-1 / -2) in a detail, loss detail or limit
        case["harden"] = "hash-collide"
        pair = r.choice(hash_colliding_metas())
        if r.random() < 0.5:
            pair = pair[::-1]

        def with_pair(m, pm):
            return dataclasses.replace(m, details={**m.details, **pm.details}, loss_details={**m.loss_details, **pm.loss_details},
                                       per_occurrence_limit=pm.per_occurrence_limit if pm.per_occurrence_limit is not None
                                       else m.per_occurrence_limit)

        cells = [c.replace(metadata=with_pair(c.metadata, pair[0])) for c in cells] + \
                [c.replace(metadata=with_pair(c.metadata, pair[1]), values={k: v + 1 for k, v in c.values.items()}) for c in cells]
    elif 0.50 <= x < 0.62 and case["kind"] == "convert":
        # boundary of the date validation: a cell evaluated on the FIRST day of its period (valid: evaluation >= period start)
        case["harden"] = "evaluated-on-first-day"
        picks = r.sample(cells, min(3, len(cells)))
        extra = []
        for c0 in picks:
            kw = dict(period_start=c0.period_start, period_end=c0.period_end, evaluation_date=c0.period_start,
                      metadata=c0.metadata, values=c0.values)
            if type(c0).__name__ == "IncrementalCell":
                kw["prev_evaluation_date"] = c0.period_start - datetime.timedelta(days=1)
            try:
                extra.append(type(c0)(**kw))
            except Exception:       # noqa: BLE001  (a constructor refusing this valid cell is reported by hardening())
                pass
        cells = cells + extra
    elif x < 0.38 and case["kind"] in ("convert", "aq"):
        # I: restated cells -- the same coordinates a second time with other values (accepted with a warning)
        case["harden"] = "restated"
        c0 = cells[r.randrange(len(cells))]
        cells = cells + [c0.replace(values={k: v + 1 for k, v in c0.values.items()})]
    else:
        return case
    with warnings.catch_warnings():
        warnings.simplefilter("ignore")
        case["tri"] = Triangle(cells)
    return case


def stored_date_failures(case):
    t = case.get("tri")
    if t is None:
        return []
    for c in t.cells:
        for nm in ("period_start", "period_end", "evaluation_date"):
            if type(getattr(c, nm)) is not datetime.date:
                return [f"Cell stored {nm} as {type(getattr(c, nm)).__name__}, not datetime.date "
                        f"(constructed from {case.get('date_kind', 'date')} inputs)"]
    return []


RUNNERS = {"convert": run_convert, "disagg": run_disagg, "aq": run_aq, "premium": run_premium}


def canon_result(res):
    from harness.coqterm import canon_tri

    if res[0] == "err":
        return ("err", type(res[1]).__name__)
    if isinstance(res[1], tuple):
        return ("ok", tuple(np.asarray(a).tobytes().hex() for a in res[1]))
    return ("ok", canon_tri(res[1], ordered=True))


def evaluate(case, res):
    """all direct oracles of a case -> (fails, finding_class)"""
    pre = stored_date_failures(case)
    if pre:
        return pre, None
    fails, fc = evaluate_core(case, res)
    if not fails and case.get("twice"):
        # H: the same call a second time gives the same answer
        if canon_result(RUNNERS[case["kind"]](case)) != canon_result(res):
            fails = ["the same call twice gives different results"]
    return fails, fc


def evaluate_core(case, res):
    k = case["kind"]
    if k == "convert":
        return oracle_convert(case, res), None
    if k == "disagg":
        fails, dropped = oracle_disagg(case, res)
        fails += oracle_reaggregate(case, res)
        if dropped and not fails:
            c = dropped[0]
            return [f"cell {c.period_start}..{c.period_end} at {c.evaluation_date} has no observable sub-period and is "
                    "dropped: its amounts vanish"], CAND_DROPPED
        return fails, None
    if k == "aq":
        fails = oracle_aq(case, res)
        fc = None
        if fails and res[0] == "ok":
            try:
                # F18 = non-continuous issuance with policies shorter than 11 months (for continuous issuance and for
                # longer policies coverage is a theorem: an uncovered quarter there is a real violation)
                if (not case["continuous_issuance"] and case["policy_length_months"] < 11
                        and uncovered_quarters(share_tables(case))):
                    fc = F18_CLASS
            except Exception:  # noqa: BLE001
                pass
        return fails, fc
    return oracle_premium(case, res), None


def write_and_compare(ctx, name, check_def, records, per):
    """records: (case, coq_text).  -> list of mismatching cases, list of broken files"""
    files = []
    for k in range(0, len(records), per):
        chunk = records[k:k + per]
        f = ctx.build / f"cases_{name}_{k // per}.v"
        f.write_text(HEADER + check_def + "Definition cases := [\n" + ";\n".join(t for _, t in chunk) + "].\n"
                     "Eval vm_compute in failing (map check cases).\n")
        files.append((f, chunk))
    out = ctx.coqc_many([f for f, _ in files], jobs=16, timeout=900)
    mism, broken = [], []
    for f, chunk in files:
        rc, txt = out[f]
        vals = parse_coq_eval(txt) if rc == 0 else []
        if rc != 0 or not vals:
            broken.append((f.name, txt[-600:]))
            continue
        for i in [int(x) for x in re.findall(r"\d+", vals[-1])]:
            mism.append(chunk[i][0])
    return mism, broken


def run(ctx):
    from translate import t_units

    ctx.rule = (
        "convert: 1-4 slices (differing in country/details/reinsurance basis) with currencies from {USD,EUR,GBP,JPY,None}, "
        "all six documented currency fields and four non-currency fields, int/float/int64/float64-sample values, rate "
        "tables dyadic / non-dyadic float / int with missing and unused entries, three targets. disaggregate: cumulative "
        "semi-regular triangles with period resolution 3/6/12, 1-3 periods, 1-2 slices, evaluation dates inside the period "
        "(partially observable, first sub-period always observable) and after it, divisor sub-resolutions plus same / coarser "
        "/ non-divisor, weights None / dyadic / float / invalid (length, sum, range) / sum close to but not exactly 1 "
        "(0.33333*3, 0.166667*6, 1-1e-9, 1+1e-9, dyadic +-1e-6: refused, or else conserving to 1e-9), fields None / subsets / "
        "unknown. "
        "accident quarters: 2-7 quarters x triangle / rectangle / holey shapes with a flat right edge (6% ragged for the "
        "refusal), 1-2 slices, policy-year origins Jan/Apr/Jul/Oct/Mar, policy lengths 3/6/12/24, continuous and "
        "non-continuous issuance. premium: writing/earning patterns of length 1-5 (dyadic / int / float, zeros allowed), "
        "resolutions 1-12, output resolution 1-12, offsets 0..res+2, both writing modes. non-trivial = distinct case with "
        ">= 2 cells (premium: distinct parameter tuple).")
    ctx.assumptions += [
        "float rounding of the implementation is outside the model: exact comparison where the arithmetic is exact in "
        "binary64 (dyadic rates / weights / patterns), 1e-9 relative to the model's exact rational otherwise",
        "accident_quarter_to_policy_year: the earned-premium share table (policy_years_covered, "
        "_policy_earned_premium_share_by_month, monthly_ep_to_quarterly_ep) is recorded from the implementation, fed to "
        "the redistribution model AND compared (1e-9) with the modelled share computation code_share_table (month-id "
        "level, policy-year origin on the first of a month, no custom earning pattern); conservation is proved for any "
        "table with non-zero totals and, for continuous issuance, unconditionally for the modelled table",
        "disaggregate_experience: cumulative triangles and list weights are modelled; period_resolution / is_semi_regular "
        "are inputs (C13); incremental triangles are covered by the direct oracle only; aggregate o disaggregate = id is "
        "proved for one fully observable month-aligned cell with exactly representable sub-period values against C08's "
        "loop-free specification ref_slice; whole triangles and non-representable quotients are checked on the "
        "implementation on every case (direct oracle)",
        "Triangle(...) re-sorting of results is not modelled: results are compared as multisets of cells",
    ]
    ctx.audit_tree(["Model/Units.v", "Proofs/UnitsP.v", "Proofs/UnitsQ.v", "Proofs/UnitsAgg.v", "Proofs/UnitsShare.v", "Props/C18.v", "GenProps/C18_fields.v"])
    prove_static_local(ctx, "Props/C18.v")

    # ---------------------------------------------------------------- translator + generated obligations
    gen_ok = False
    try:
        gen = t_units.translate(REPO)
        ctx.obligation("T-units translation of bermuda/utils/currency.py", True)
        gen_ok = True
    except Exception as ex:  # noqa: BLE001
        ctx.obligation("T-units translation of bermuda/utils/currency.py", False, repr(ex))
        ctx.log(f"translator failed closed: {ex!r}")
        import importlib

        cur = importlib.import_module("bermuda.utils.currency")
        gen = ("From Coq Require Import ZArith List.\nFrom Bermuda Require Import Model.Base.\nImport ListNotations.\n"
               "Local Open Scope Z_scope.\n(* fallback: run-time value, translator failed *)\n"
               "Definition currency_fields : list str := ["
               + ";".join("[" + ";".join(str(b) for b in f.encode()) + "]" for f in list(cur.CURRENCY_FIELDS)) + "].\n")
    for f in list(ctx.build.glob("*.vo")) + list(ctx.build.glob("cases_*.v")):
        f.unlink()
    (ctx.build / "GenUnits.v").write_text(gen)
    rc, out = ctx.coqc(ctx.build / "GenUnits.v", timeout=120)
    ctx.obligation("GenUnits.v compiles", rc == 0, out)
    if rc == 0 and gen_ok:
        shutil.copy(COQ / "GenProps" / "C18_fields.v", ctx.build / "C18_fields.v")
        ctx.prove(ctx.build / "C18_fields.v", timeout=300)

    # ---------------------------------------------------------------- cases
    EARLY_SMALL.clear()
    for kind_, case_ in early_small_cases().items():
        EARLY_SMALL[kind_] = (case_, RUNNERS[kind_](case_))
    N = {"convert": 90, "disagg": 110, "aq": 90, "premium": 300} if ctx.quick else \
        {"convert": 1200, "disagg": 1200, "aq": 1000, "premium": 5000}
    gens = {"convert": gen_convert, "disagg": gen_disagg, "aq": gen_aq, "premium": gen_premium}
    checks = {"convert": (CHECK_CONVERT, 12), "disagg": (CHECK_DISAGG, 12), "aq": (CHECK_AQ, 10), "premium": (CHECK_PREMIUM, 60)}
    all_fail = []
    total_mism = {}
    for kind in ("convert", "disagg", "aq", "premium"):
        r = random.Random(ctx.seed * 100003 + sum(map(ord, kind)))
        records, n_done = [], 0
        dropped_seen = 0
        while n_done < N[kind]:
            try:
                case = gens[kind](r)
            except Exception:  # noqa: BLE001  (generator produced something bermuda refuses to build)
                continue
            case = harden_case(r, case)
            case["twice"] = n_done % 5 == 0
            case["kw"] = n_done % 2 == 1          # K: keyword vs positional spelling of the call
            n_done += 1
            res = RUNNERS[kind](case)
            ctx.hist(f"{kind}:harden-{case.get('harden', 'none')}")
            ctx.hist(f"{kind}:" + ("ok" if res[0] == "ok" else type(res[1]).__name__))
            fails, fc = evaluate(case, res)
            if fails:
                all_fail.append((case, fails, fc))
            try:
                if kind == "convert":
                    ctx.hist(f"convert:rates-{case['style']}")
                    ctx.hist(f"convert:mode-{case.get('mode', 'general')}")
                    ctx.hist(f"convert:spelling-{case.get('spelling', 'upper')}")
                    tol = TOL if case["style"] == "float" else Fraction(0)
                    txt = coq_convert(case, res, tol)
                elif kind == "disagg":
                    ctx.hist(f"disagg:{case['how']}/{case['wtag']}/R{case['R']}->{case['res']}")
                    ctx.hist(f"disagg:periods-{case.get('cal', 'calendar')}")
                    ctx.hist(f"disagg:missing-periods-{case.get('missing', 'none')}")
                    full = all(c.evaluation_date >= c.period_end for c in case["tri"].cells)
                    exact = full and (case["weights"] is None and case["R"] // max(case["res"], 1) in (1, 2, 4)
                                      or case["wtag"] == "dyadic")
                    if not full:
                        ctx.hist("disagg:partially-observable")
                    if case.get("incremental"):
                        ctx.hist("disagg:incremental(direct-oracle-only)")
                    txt = coq_disagg(case, res, Fraction(0) if exact else TOL)
                elif kind == "aq":
                    ctx.hist(f"aq:len{case['policy_length_months']}/cont={case['continuous_issuance']}/flat={case['flat']}")
                    ctx.hist(f"aq:era-{case.get('era', 'modern')}")
                    txt = coq_aq(case, res, share_tables(case))
                else:
                    ctx.hist(f"premium:{case['style']}")
                    txt = coq_premium(case, res, premium_tol(case))
            except NotRepresentable:
                ctx.hist(f"{kind}:skipped-not-representable")
                continue
            records.append((case, txt))
            if kind == "premium" or len(case["tri"]) >= 2 or res[0] == "err":
                ctx.nontriv(txt)
        ctx.count(evaluations=n_done, traces=len(records))
        if records:
            c0 = records[min(3, len(records) - 1)][0]
            ctx.sample({k: (v if not isinstance(v, (D,)) else v.isoformat()) for k, v in c0.items() if k != "tri"}
                       | ({"cells": len(c0["tri"])} if "tri" in c0 else {}))
        mism, broken = write_and_compare(ctx, kind, *checks[kind][:1], records, checks[kind][1])
        total_mism[kind] = (mism, broken)
        ctx.obligation(f"correspondence {kind}: model = implementation", not mism and not broken,
                       repr([{k: v for k, v in m.items() if k != 'tri'} for m in mism[:3]]) + repr(broken[:1]))
        ctx.log(f"{kind}: cases {n_done}, compared in Coq {len(records)}, mismatches {len(mism)}, broken files {len(broken)}")

    # ---------------------------------------------------------------- directed probes
    probe_f18(ctx)
    probe_pre1970(ctx)
    probe_pre1970_disagg(ctx)
    hardening(ctx)
    large_stream(ctx)
    probe_candidates(ctx)

    # ---------------------------------------------------------------- verdicts
    for case, fails, fc in all_fail[:6]:
        ctx.violation("impl-violation", f"{case['kind']}: {fails[0]}", {"case": case_json(case), "failures": fails[:5]},
                      found_input=True, finding_class=fc)
    real_fail = [a for a in all_fail if a[2] is None]
    for kind, (mism, broken) in total_mism.items():
        if (mism or broken) and not any(a[0]["kind"] == kind for a in real_fail):
            ctx.violation("correspondence", f"model and implementation of {kind} disagree ({len(mism)} cases)",
                          {"case": case_json(mism[0]) if mism else None, "broken_files": broken[:2]}, found_input=False)


def probe_f18(ctx):
    """known finding F18: non-continuous issuance with policies shorter than the policy year leaves accident quarters
    without any share; their amounts silently disappear"""
    r = random.Random(ctx.seed + 1818)
    hits = 0
    for _ in range(6):
        case = gen_aq(r, directed=dict(policy_length_months=6, policy_year_origin=D(2020, 1, 1), continuous_issuance=False))
        if not case["flat"]:
            continue
        res = run_aq(case)
        fails = oracle_aq(case, res)
        ctx.count(evaluations=1)
        if fails:
            bad = uncovered_quarters(share_tables(case))
            if bad:
                hits += 1
                ctx.violation("impl-violation", "accident_quarter_to_policy_year(continuous_issuance=False, policy_length_months=6): "
                              + fails[0], {"case": case_json(case), "failures": fails[:5],
                                           "uncovered_quarters": [[a.isoformat(), b.isoformat()] for a, b in bad]},
                              found_input=True, finding_class=F18_CLASS)
            else:
                ctx.violation("impl-violation", "accident_quarter_to_policy_year loses amounts although every quarter has a share: "
                              + fails[0], {"case": case_json(case), "failures": fails[:5]}, found_input=True)
    ctx.hist("aq:F18-directed-probes-failing", hits)


PRE1970_CLASS = {"kind": "aq_to_py_pre1970_policy_year_length"}
PRE1970_DISAGG = {"kind": "disaggregate_pre1970_subperiods_shifted"}


def probe_pre1970_disagg(ctx):
    """the fiscal quarter Dec 1899 - Feb 1900 split into months: the sub-period starts come from add_months, which is off
    by one month before 1970 (F10), so the sub-periods are 1900-01..1900-03 instead of 1899-12..1900-02"""
    from bermuda import CumulativeCell, Triangle

    def cc(ps, pe, e, v):
        return CumulativeCell(period_start=ps, period_end=pe, evaluation_date=e, values=v)

    t = Triangle([cc(D(1899, 12, 1), D(1900, 2, 28), D(1900, 5, 31), {"paid_loss": 96.0}),
                  cc(D(1900, 3, 1), D(1900, 5, 31), D(1900, 5, 31), {"paid_loss": 48.0})])
    case = dict(kind="disagg", tri=t, res=1, weights=None, fields=None, how="ok", wtag="none", R=3, probe="pre1970")
    res = run_disagg(case)
    ctx.count(evaluations=1)
    if res[0] != "ok":
        ctx.violation("impl-violation", f"disaggregate_experience on 1899/1900 fiscal quarters raised {type(res[1]).__name__}: {res[1]}",
                      {"case": case_json(case)}, found_input=True, finding_class=PRE1970_DISAGG)
        return
    fails, dropped = oracle_disagg(case, res)
    if fails or dropped:
        what = fails[0] if fails else "a cell was dropped"
        ctx.violation("impl-violation", "disaggregate_experience on the fiscal quarter 1899-12-01..1900-02-28: " + what
                      + " (sub-periods: " + ", ".join(f"{c.period_start}..{c.period_end}" for c in res[1].cells[:3]) + ")",
                      {"case": case_json(case), "failures": fails[:5]}, found_input=True, finding_class=PRE1970_DISAGG)


def probe_pre1970(ctx):
    """accident quarters of 1965-66: policy_years_covered steps with add_months(., 12), which is off by one month before
    1970 (F10), so the Policy-basis periods are 13 months long (totals are still conserved)"""
    r = random.Random(ctx.seed + 1965)
    case = gen_aq(r, directed=dict(era="pre1969", policy_length_months=12, policy_year_origin=D(2020, 1, 1),
                                   continuous_issuance=True))
    res = run_aq(case)
    ctx.count(evaluations=1)
    if res[0] != "ok":
        ctx.violation("impl-violation", f"accident_quarter_to_policy_year on 1965 quarters raised {type(res[1]).__name__}",
                      {"case": case_json(case)}, found_input=True)
        return
    fails = oracle_aq(case, res)
    if fails:
        ctx.violation("impl-violation", "aq (1965 quarters): " + fails[0], {"case": case_json(case), "failures": fails[:5]},
                      found_input=True)
        return
    bad = policy_period_failures(res[1])
    if bad:
        ctx.violation("impl-violation", "accident_quarter_to_policy_year on 1965 quarters: " + bad[0],
                      {"case": case_json(case), "failures": bad[:5], "check": "policy_periods"}, found_input=True,
                      finding_class=PRE1970_CLASS)


def policy_period_failures(out):
    """every Policy-basis period must be exactly twelve calendar months"""
    bad = []
    for c in out.cells:
        ps = c.period_start
        try:
            want_end = D(ps.year + 1, ps.month, ps.day) - datetime.timedelta(days=1)
        except ValueError:          # 29 February
            continue
        if c.period_end != want_end:
            bad.append(f"policy period {c.period_start}..{c.period_end} is not a twelve-month year")
    return sorted(set(bad))


# ------------------------------------------------------------------------------------------------
# LARGE stream (family Q of notes/HARDENING.md): big inputs, Python-side oracles only (no Coq literals: the theorems are
# size-independent, the correspondence samples small cases).  Cases are rebuilt from their names in a replay.
def large_case(name, quick=True):
    from bermuda import CumulativeCell, Metadata, Triangle

    k2 = 1 if quick else 2
    with warnings.catch_warnings():
        warnings.simplefilter("ignore")
        if name == "convert-2140-cells-small-trailing-slices":
            # slices of 1024 / 1056 cells followed (in sorted order) by slices of 40 and 20 cells, each in its own currency
            cells = big_cells(n_slices=4, n_periods=33 * k2, n_evals=32, slice_sizes=[1024 * k2, 1056 * k2, 40, 20],
                              fields=("paid_loss", "reported_claims"), vseed=1)
            cur = {"S000": "EUR", "S001": "GBP", "S002": "JPY", "S003": "CHF"}
            cells = [c.replace(metadata=dataclasses.replace(c.metadata, currency=cur[c.metadata.country])) for c in cells]
            return dict(kind="convert", tri=Triangle(cells), target="USD",
                        rates={"EUR": 1.25, "GBP": 1.5, "JPY": 0.0078125, "CHF": 2.0})
        if name == "convert-2300-single-cell-slices":
            # more than 2100 distinct Metadata in one process, currencies cycling, values beyond 2**53 for a count field
            n = 2300 * k2
            cells = big_cells(n_slices=n, n_periods=1, n_evals=1, fields=("incurred_loss",), vseed=2)
            curs = ["EUR", "USD", "GBP"]
            cells = [c.replace(metadata=dataclasses.replace(c.metadata, currency=curs[i % 3], details={"id": 2**53 + 1 + i}),
                               values={**c.values, "reported_claims": 2**53 + 1 + 2 * i}) for i, c in enumerate(cells)]
            return dict(kind="convert", tri=Triangle(cells), target="USD", rates={"EUR": 1.25, "GBP": 0.5})
        if name == "aq-70-evaluation-dates":
            # monthly evaluation dates: more than 64 distinct diagonals, rows of 70 cells
            rng = np.random.RandomState(3)
            cells = []
            evs = [month_end(*add_m(2001, 1, 2 + k)) for k in range(70 * k2)]          # monthly, from the first quarter's end
            for m in (Metadata(risk_basis="Accident", country="S000"), Metadata(risk_basis="Accident", country="S001")):
                for qi in range(8):
                    y, mo = add_m(2001, 1, 3 * qi)
                    ps, pe = D(y, mo, 1), month_end(*add_m(y, mo, 2))
                    for e in evs:
                        if e >= pe:
                            cells.append(CumulativeCell(period_start=ps, period_end=pe, evaluation_date=e, metadata=m,
                                                        values={"paid_loss": float(rng.randint(0, 40000)) / 8.0,
                                                                "earned_premium": float(rng.randint(0, 40000)) / 8.0}))
            return dict(kind="aq", tri=Triangle(cells), flat=True, era="modern", policy_length_months=12,
                        policy_year_origin=D(2020, 1, 1), continuous_issuance=True)
        if name == "disagg-90-annual-periods-monthly":
            # 90 annual periods split into months: more than 1024 distinct months in one call
            cells = big_cells(n_slices=1, n_periods=90 * k2, n_evals=2, res=12, ev_step=12, start_year=1975,
                              fields=("paid_loss", "earned_premium"), vseed=4)
            return dict(kind="disagg", tri=Triangle(cells), res=1, weights=None, fields=None, how="ok", wtag="none", R=12)
        if name == "premium-2400-months":
            rng = np.random.RandomState(5)
            return dict(kind="premium", premium_volume=2.0**20, writing_pattern=(rng.randint(0, 64, size=200 * k2) / 8.0 + 0.125).tolist(),
                        writing_resolution=12, earning_pattern=(rng.randint(0, 64, size=30) / 8.0 + 0.125).tolist(),
                        earning_resolution=3, output_resolution=12, output_offset=5, continuous_writing=True, style="float")
    raise KeyError(name)


LARGE_QUICK = ["convert-2140-cells-small-trailing-slices", "convert-2300-single-cell-slices", "aq-70-evaluation-dates",
               "disagg-90-annual-periods-monthly", "premium-2400-months"]


def large_convert_oracle(case, res):
    if res[0] != "ok":
        return [f"valid large input refused: {type(res[1]).__name__}: {res[1]}"]
    tri, out = case["tri"], res[1]
    if len(out) != len(tri):
        return [f"cell count changed from {len(tri)} to {len(out)}"]
    got = {}
    for o in out.cells:
        if o.metadata.currency != case["target"]:
            return [f"output cell {coord_key(o)} carries currency {o.metadata.currency!r}"]
        got.setdefault(coord_key(o), []).append(o)
    for c in tri.cells:
        rate = 1 if c.metadata.currency == case["target"] else case["rates"][c.metadata.currency]
        os_ = got.get(coord_key(c), [])
        if len(os_) != 1:
            return [f"{len(os_)} output cells for input cell {coord_key(c)}"]
        o = os_[0]
        if set(o.values) != set(c.values) or dataclasses.replace(o.metadata, currency=c.metadata.currency) != c.metadata \
                or o.metadata.details != c.metadata.details:
            return [f"fields / metadata of cell {coord_key(c)} changed"]
        for f, v in c.values.items():
            want = v * rate if f in DOCUMENTED_CURRENCY_FIELDS else v
            if not (o.values[f] == want and type(o.values[f]) is type(want)):
                return [f"cell {coord_key(c)} ({c.metadata.currency} -> {case['target']}, rate {rate}) field {f}: "
                        f"got {o.values[f]!r}, want {want!r}"]
    return []


def large_fails(case, res):
    k = case["kind"]
    if k == "convert":
        return large_convert_oracle(case, res)
    if k == "aq":
        fails = oracle_aq(case, res)
        if not fails and res[0] == "ok":
            evs_in = {c.evaluation_date for c in case["tri"].cells}
            evs_out = {c.evaluation_date for c in res[1].cells}
            if evs_in != evs_out:
                fails = [f"{len(evs_in)} evaluation dates in, {len(evs_out)} out"]
        return fails
    if k == "disagg":
        fails, dropped = oracle_disagg(case, res)
        if not fails and dropped:
            fails = ["a cell was dropped"]
        return fails or oracle_reaggregate(case, res)
    return oracle_premium(case, res)


EARLY_SMALL = {}


def early_small_cases():
    """fixed small inputs run before everything else and again after the large work"""
    r = random.Random(4242)
    return {"convert": gen_convert_currency_only(r), "disagg": gen_disagg(random.Random(7)), "aq": gen_aq(random.Random(8)),
            "premium": gen_premium(random.Random(9))}


def large_stream(ctx):
    for name in LARGE_QUICK:
        case = large_case(name, ctx.quick)
        res = RUNNERS[case["kind"]](case)
        fails = large_fails(case, res)
        if not fails and canon_result(RUNNERS[case["kind"]](case)) != canon_result(res):
            fails = ["the same call twice gives different results"]
        ctx.count(evaluations=1)
        ctx.hist(f"large:{name}", len(case["tri"]) if "tri" in case else len(case["writing_pattern"]))
        ctx.nontriv(("large", name))
        if fails:
            ctx.violation("impl-violation", f"{case['kind']} (large case {name}): " + fails[0],
                          {"large": name, "quick": ctx.quick, "case": None, "failures": fails[:5]}, found_input=True)
    for kind, (case, res0) in EARLY_SMALL.items():
        if canon_result(RUNNERS[kind](case)) != canon_result(res0):
            ctx.violation("impl-violation", f"{kind}: an early small case gives a different result when repeated after the large work "
                          "(state kept between calls)", {"case": case_json(case), "recheck": True, "quick": ctx.quick},
                          found_input=True)
    ctx.notes.append("large stream: %d big cases judged by Python-side oracles only (no Coq literals; the theorems are "
                     "size-independent, the correspondence samples small cases)" % len(LARGE_QUICK))


GAPPED = {"kind": "disaggregate_gapped_periods_resolution"}


def hardening(ctx):
    """small directed streams (families E, F, G, J of notes/HARDENING.md) that run on every quick run"""
    from bermuda import CumulativeCell, Metadata, Triangle
    from bermuda.date_utils import period_resolution
    from bermuda.utils.basis import accident_quarter_to_policy_year
    from bermuda.utils.currency import convert_currency
    from bermuda.utils.disaggregate import disaggregate_experience

    y = dict(period_start=D(2020, 1, 1), period_end=D(2020, 12, 31), evaluation_date=D(2020, 12, 31))
    q = dict(period_start=D(2020, 1, 1), period_end=D(2020, 3, 31), evaluation_date=D(2020, 3, 31))

    def cc(kw, v, m=None):
        return CumulativeCell(**kw, values=v, metadata=m or Metadata())

    def report(what, name, fc=None):
        ctx.violation("impl-violation", what, {"probe": "hardening", "name": name, "case": None}, found_input=True, finding_class=fc)

    def vals(t):
        return [{k: (np.asarray(v).tolist(), type(v).__name__) for k, v in c.values.items()} for c in t.cells]

    n = 0
    # G: NumPy scalar / narrow-dtype values keep their kind and add up (np.int64 scalar: F31, repaired)
    t = Triangle([cc(y, {"paid_loss": np.int64(120), "reported_loss": np.float64(60.0),
                         "incurred_loss": np.array([12, 24], dtype=np.float32), "earned_premium": np.array([8], dtype=np.int32)})])
    r = run_guard(lambda: disaggregate_experience(t, 3))
    n += 1
    if r[0] != "ok" or len(r[1]) != 4:
        report(f"disaggregate_experience on NumPy-typed values: {r[1]!r}"[:200], "numpy-disagg")
    else:
        for f, want, scalar in (("paid_loss", [30.0], True), ("reported_loss", [15.0], True), ("incurred_loss", [3.0, 6.0], False),
                                ("earned_premium", [2.0], False)):
            for c in r[1].cells:
                v = c.values[f]
                if np.asarray(v, dtype=float).reshape(-1).tolist() != want or (np.ndim(v) == 0) != scalar:
                    report(f"disaggregate_experience on NumPy-typed values: field {f} of a sub-period is {v!r} "
                           f"(expected {'scalar' if scalar else 'array'} {want})", "numpy-disagg")
                    break
        back = run_guard(lambda: r[1].aggregate(period_resolution=(12, "month")))
        if back[0] != "ok" or len(back[1]) != 1 or any(
                np.ndim(back[1].cells[0][f]) != np.ndim(t.cells[0][f]) or
                np.asarray(back[1].cells[0][f], dtype=float).tolist() != np.asarray(t.cells[0][f], dtype=float).tolist()
                for f in t.cells[0].values):
            report("aggregate(disaggregate(t)) does not reproduce NumPy-typed values (kind or amount): "
                   + (repr(back[1])[:120] if back[0] == "err" else repr(vals(back[1]))[:160]), "numpy-roundtrip")
    t = Triangle([cc(q, {"paid_loss": np.int64(2**53 + 2), "reported_claims": np.int64(2**53 + 3),
                         "incurred_loss": np.array([1.5, 2.5], dtype=np.float32)}, Metadata(currency="EUR"))])
    r = run_guard(lambda: convert_currency(t, "USD", {"EUR": 2}))
    n += 1
    if r[0] != "ok" or int(r[1].cells[0]["paid_loss"]) != 2 * (2**53 + 2) or int(r[1].cells[0]["reported_claims"]) != 2**53 + 3 \
            or np.asarray(r[1].cells[0]["incurred_loss"]).tolist() != [3.0, 5.0]:
        report("convert_currency with an integer rate on np.int64 beyond 2**53 / float32 values: "
               + (repr(r[1])[:120] if r[0] == "err" else repr(vals(r[1]))[:200]), "numpy-convert")
    # E: falsy but valid arguments
    t0 = Triangle([cc(q, {"paid_loss": 4.0, "reported_claims": 0}, Metadata(currency=""))])
    for name, call, want in (
            ("currency '' == target ''", lambda: convert_currency(t0, "", {}), 4.0),
            ("rate table keyed by ''", lambda: convert_currency(t0, "USD", {"": 2.0}), 8.0),
            ("rate 0.0", lambda: convert_currency(t0, "USD", {"": 0.0}), 0.0),
            ("integer rate 0", lambda: convert_currency(t0, "USD", {"": 0}), 0)):
        r = run_guard(call)
        n += 1
        if r[0] != "ok" or len(r[1]) != 1 or r[1].cells[0]["paid_loss"] != want or r[1].cells[0]["reported_claims"] != 0:
            report(f"convert_currency ({name}): " + (repr(r[1])[:120] if r[0] == "err" else repr(vals(r[1]))), "falsy-convert")
    ty = Triangle([cc(y, {"paid_loss": 0, "earned_premium": 0.0, "reported_loss": np.zeros(2)})])
    r = run_guard(lambda: disaggregate_experience(ty, 6, [0.5, 0.5], []))
    n += 1
    if not (r[0] == "err" and isinstance(r[1], ValueError)):
        report("disaggregate_experience(fields=[]) must be refused with ValueError (no field to disaggregate), got "
               + (repr(r[1])[:100]), "falsy-fields")
    r = run_guard(lambda: disaggregate_experience(ty, 6))
    n += 1
    if r[0] != "ok" or len(r[1]) != 2 or any(np.asarray(v, dtype=float).any() for c in r[1].cells for v in c.values.values()):
        report("disaggregate_experience on all-zero values: " + (repr(r[1])[:120] if r[0] == "err" else repr(vals(r[1]))), "zeros-disagg")
    from bermuda.utils.premium_pattern import program_earned_premium

    r = run_guard(lambda: program_earned_premium(0, np.array([1.0, 3.0]), 3, np.array([1.0]), 6, 3))
    n += 1
    if r[0] != "ok" or np.asarray(r[1][0]).any() or np.asarray(r[1][1]).any():
        report("program_earned_premium(premium_volume=0) is not identically zero", "falsy-premium")
    # boundary of the Cell date validation: evaluation on the FIRST day of the period is valid; convert_currency keeps it
    r = run_guard(lambda: convert_currency(Triangle([cc(dict(q, evaluation_date=q["period_start"]), {"paid_loss": 4.0},
                                                        Metadata(currency="EUR"))]), "USD", {"EUR": 1.25}))
    n += 1
    if r[0] != "ok" or len(r[1]) != 1 or r[1].cells[0]["paid_loss"] != 5.0 or r[1].cells[0].evaluation_date != q["period_start"]:
        report("a cell evaluated on the first day of its period (valid) is not converted: " + repr(r[1])[:140], "first-day-convert")
    # policy-year origin on the month/day of an evaluation date: the first policy-year cell is evaluated on the day its
    # period starts; the flat-right-edge quarterly triangle must be converted with its totals conserved
    qcells = []
    for qi, (yy, mm) in enumerate([(2020, 1), (2020, 4), (2020, 7), (2020, 10)]):
        pe_ = month_end(*add_m(yy, mm, 2))
        for e_ in (D(2020, 3, 31), D(2020, 6, 30), D(2020, 9, 30), D(2020, 12, 31)):
            if e_ >= pe_:
                qcells.append(cc(dict(period_start=D(yy, mm, 1), period_end=pe_, evaluation_date=e_), {"paid_loss": float(8 * (qi + 1))}))
    tq = Triangle(qcells)
    for origin in (D(2020, 6, 30), D(2019, 12, 31), D(2020, 3, 31)):
        case_o = dict(kind="aq", tri=tq, flat=True, era="modern", policy_length_months=12, policy_year_origin=origin,
                      continuous_issuance=True)
        fails_o = oracle_aq(case_o, run_aq(case_o))
        n += 1
        if fails_o:
            report(f"accident_quarter_to_policy_year(policy_year_origin={origin}) on quarter-end evaluations: " + fails_o[0],
                   "origin-on-evaluation-date")
    # F: empty triangles (convert / policy year return the empty triangle; disaggregate_experience(Triangle([])) raises
    # ValueError -- outside the quantifier 'semi-regular triangles of resolution 3/6/12' (lead's decision): a note only)
    for name, call in (("convert_currency", lambda: convert_currency(Triangle([]), "USD", {})),
                       ("accident_quarter_to_policy_year", lambda: accident_quarter_to_policy_year(Triangle([])))):
        r = run_guard(call)
        n += 1
        if r[0] != "ok" or len(r[1]) != 0:
            report(f"{name} of the empty triangle is not the empty triangle: {r[1]!r}"[:160], "empty")
    r = run_guard(lambda: disaggregate_experience(Triangle([]), 3))
    ctx.notes.append("disaggregate_experience(Triangle([]), 3) -> " + ("ok" if r[0] == "ok" else type(r[1]).__name__)
                     + " (outside the quantifier; not flagged)")
    # F: a field present only at later evaluations / missing in the first cell
    t = Triangle([cc(dict(y, evaluation_date=D(2020, 12, 31)), {"paid_loss": 40.0}),
                  cc(dict(y, evaluation_date=D(2021, 3, 31)), {"paid_loss": 60.0, "reported_loss": 80.0})])
    r = run_guard(lambda: disaggregate_experience(t, 3))
    n += 1
    ok = r[0] == "ok" and len(r[1]) == 8
    if ok:
        late = [c for c in r[1].cells if c.evaluation_date == D(2021, 3, 31)]
        ok = all(set(c.values) == {"paid_loss", "reported_loss"} and c["reported_loss"] == 20.0 for c in late) and \
            all(set(c.values) == {"paid_loss"} for c in r[1].cells if c.evaluation_date == D(2020, 12, 31))
    if not ok:
        report("disaggregate_experience with a field present only at the later evaluation: "
               + (repr(r[1])[:120] if r[0] == "err" else repr(vals(r[1]))[:200]), "late-field")
    # J: gapped semi-regular periods: period_resolution is the gcd of the start differences (3), not the period length (12)
    t = Triangle([cc(dict(period_start=D(2020, 1, 1), period_end=D(2020, 12, 31), evaluation_date=D(2022, 3, 31)), {"paid_loss": 120.0}),
                  cc(dict(period_start=D(2021, 4, 1), period_end=D(2022, 3, 31), evaluation_date=D(2022, 3, 31)), {"paid_loss": 60.0})])
    r = run_guard(lambda: disaggregate_experience(t, 1))
    n += 1
    if r[0] == "ok":
        res0 = period_resolution(t)
        back = run_guard(lambda: r[1].aggregate(period_resolution=(res0, "month"), period_origin=D(2019, 12, 31)))
        same = back[0] == "ok" and [(c.period_start, c.period_end, c["paid_loss"]) for c in back[1].cells] == \
            [(c.period_start, c.period_end, c["paid_loss"]) for c in t.cells]
        if not same:
            report("disaggregate_experience on 12-month periods with a gap (period_resolution = gcd = 3): aggregating back at the "
                   "original resolution gives " + (repr(back[1])[:80] if back[0] == "err" else
                   repr([(str(c.period_start), str(c.period_end), c["paid_loss"]) for c in back[1].cells]))
                   + " instead of the two 12-month input periods", "gapped", GAPPED)
    ctx.count(evaluations=n)
    ctx.hist("hardening:directed", n)


def probe_candidates(ctx):
    """known findings H1 / H2 (disaggregate_experience), probed with directed inputs on every run"""
    from bermuda import CumulativeCell, Triangle
    from bermuda.utils.disaggregate import disaggregate_experience

    def cc(ps, pe, e, v):
        return CumulativeCell(period_start=ps, period_end=pe, evaluation_date=e, values=v)

    t = Triangle([cc(D(2020, 1, 1), D(2020, 12, 31), D(2020, 2, 29), {"paid_loss": 100.0}),
                  cc(D(2020, 1, 1), D(2020, 12, 31), D(2020, 12, 31), {"paid_loss": 200.0}),
                  cc(D(2021, 1, 1), D(2021, 12, 31), D(2021, 12, 31), {"paid_loss": 50.0})])
    case = dict(kind="disagg", tri=t, res=3, weights=None, fields=None, how="ok", wtag="none", R=12, probe="H1")
    res = run_disagg(case)
    ctx.count(evaluations=2)
    if res[0] == "ok":
        _, dropped = oracle_disagg(case, res)
        if dropped:
            what = ("disaggregate_experience drops a cell whose evaluation date lies before the end of its first sub-period "
                    f"({dropped[0].period_start}..{dropped[0].period_end} at {dropped[0].evaluation_date}): its amounts vanish")
            ctx.violation("impl-violation", what, {"case": case_json(case)}, found_input=True, finding_class=CAND_DROPPED)
    # H3: a weight vector the code's own validation accepts, whose observable prefix sums to zero
    t3 = Triangle([cc(D(2020, 1, 1), D(2020, 12, 31), D(2020, 6, 30), {"paid_loss": 100.0}),
                   cc(D(2020, 1, 1), D(2020, 12, 31), D(2020, 12, 31), {"paid_loss": 200.0})])
    case3 = dict(kind="disagg", tri=t3, res=3, weights=[0.0, 0.0, 0.5, 0.5], fields=None, how="ok", wtag="dyadic",
                 R=12, probe="H3")
    res3 = run_disagg(case3)
    ctx.count(evaluations=1)
    if res3[0] == "err" and isinstance(res3[1], ZeroDivisionError):
        ctx.violation("impl-violation", "disaggregate_experience(period_weights=[0, 0, 0.5, 0.5]) on a cell evaluated after two "
                      f"of its four quarters raises {type(res3[1]).__name__} instead of splitting or refusing the cell",
                      {"case": case_json(case3)}, found_input=True, finding_class=ZERO_PREFIX)
    elif res3[0] == "ok":
        f3, _ = oracle_disagg(case3, res3)
        if f3:
            ctx.violation("impl-violation", "disagg: " + f3[0], {"case": case_json(case3), "failures": f3}, found_input=True)
    t2 = Triangle([cc(D(2020, 1, 1), D(2020, 12, 31), D(2020, 12, 31), {"paid_loss": 200.0})])
    res2 = run_guard(lambda: disaggregate_experience(t2, 3, {D(2020, 1, 1): [0.25, 0.25, 0.25, 0.25]}, None))
    if res2[0] == "err":
        what = f"disaggregate_experience with the documented dict form of period_weights raises {type(res2[1]).__name__}: {res2[1]}"
        ctx.violation("impl-violation", what, {"probe": "H2", "case": None}, found_input=True, finding_class=CAND_DICT)


def replay(ctx, data):
    if data.get("recheck"):
        case = case_from_json(data["case"])
        r0 = canon_result(RUNNERS[case["kind"]](case))
        for name in LARGE_QUICK:
            lc = large_case(name, data.get("quick", True))
            RUNNERS[lc["kind"]](lc)
        same = canon_result(RUNNERS[case["kind"]](case)) == r0
        print("small case before / after the large work:", "identical" if same else "DIFFERENT")
        return 0 if same else 1
    if data.get("large"):
        lc = large_case(data["large"], data.get("quick", True))
        fails = large_fails(lc, RUNNERS[lc["kind"]](lc))
        print("large case", data["large"])
        for f in fails[:5]:
            print("  FAIL:", f)
        return 1 if fails else 0
    if data.get("probe") == "hardening":
        from harness.common import Ctx

        c2 = Ctx("C18", "quick", 1)
        got = []
        c2.violation = lambda kind, what, d, found_input, finding_class=None: got.append((what, d))   # nothing is written
        hardening(c2)
        hit = [w for w, d in got if d.get("name") == data.get("name")]
        for w in hit:
            print("  FAIL:", w)
        return 1 if hit else 0
    if data.get("probe") == "H2":
        from bermuda import CumulativeCell, Triangle
        from bermuda.utils.disaggregate import disaggregate_experience

        t2 = Triangle([CumulativeCell(period_start=D(2020, 1, 1), period_end=D(2020, 12, 31),
                                      evaluation_date=D(2020, 12, 31), values={"paid_loss": 200.0})])
        r2 = run_guard(lambda: disaggregate_experience(t2, 3, {D(2020, 1, 1): [0.25, 0.25, 0.25, 0.25]}, None))
        print("disaggregate_experience(t, 3, period_weights={2020-01-01: [0.25]*4}) ->", "ok" if r2[0] == "ok" else repr(r2[1]))
        return 0 if r2[0] == "ok" else 1
    if "case" not in data or data["case"] is None:
        print("replay data:", {k: v for k, v in data.items() if k != "case"})
        return 1
    case = case_from_json(data["case"])
    res = RUNNERS[case["kind"]](case)
    print(case["kind"], {k: v for k, v in case.items() if k != "tri"}, "->",
          "ok" if res[0] == "ok" else repr(res[1]))
    fails, fc = evaluate(case, res)
    if data.get("check") == "policy_periods" and res[0] == "ok":
        fails = fails + policy_period_failures(res[1])
    if case.get("probe") == "H3" and res[0] == "err":
        fails = fails + [f"raised {type(res[1]).__name__}: {res[1]}"]
    for f in fails[:10]:
        print("  FAIL:", f)
    if fc:
        print("  class:", fc)
    return 1 if fails else 0
