"""C06 -- the .trib byte layout is the documented v1 format and stays readable.

proof      coq/Props/C06.v (Layout t (ser t); Layout files are read back; determinism; wrong magic /
           version rejected) + GenProps/C06_bin.v (v1_constants, layout_matches_model on the constants
           and stream-event description regenerated from /repo by T-bin)
tie        independent pure-Python v1 codec (harness/bin_common.ref_encode / ref_decode, written from
           the layout description) in both directions on generated triangles; pinned corpus in
           /verif/golden and the five shipped .trib files must decode -- by the implementation, by
           the independent decoder and by the model's parse inside coqc -- to their recorded contents
           and re-encode to the same bytes; same bytes for any permutation of the supplied cells;
           files with a wrong magic number or version are rejected.
"""
from __future__ import annotations

import json
import random
import time
import warnings
from pathlib import Path

from harness import bin_common as B
from harness.common import REPO, ROOT

F9_CLASS = {"kind": "pool_index_low_byte_0x88"}
GOLDEN = ROOT / "golden"
SHIPPED = ["bermuda/meyers.trib", "test/test_data/holey_init_tri.trib", "test/test_data/missing_cells.trib",
           "test/test_data/missing_eval.trib", "test/test_data/ragged_aq_triangle.trib"]


# ---------------------------------------------------------------------------- oracles
def layout_oracle(wt, scratch, rng):
    """All direct C06 checks for one triangle on the real implementation: None or (what, detail)."""
    tri = B.mk_triangle(wt)
    if not B.wt_equal(B.canon_triangle(tri), wt, ordered=True):
        return None
    w = B.safe_write(tri, scratch)
    if w[0] != "ok":
        return (f"to_binary raised {w[1]} on a valid triangle", {"check": "encode"})
    b = w[1]
    ref = B.ref_encode(wt)
    if ref != b:
        k = next((i for i, (x, y) in enumerate(zip(ref, b)) if x != y), min(len(ref), len(b)))
        return (f"bytes written differ from the documented v1 layout (independent encoder) at offset {k}: "
                f"file {b[k:k+8].hex()} vs layout {ref[k:k+8].hex()} (lengths {len(b)}/{len(ref)})",
                {"check": "encode", "offset": k})
    try:
        dec = B.ref_decode(b)
    except Exception as ex:  # noqa: BLE001
        return (f"an independent v1 decoder cannot read the file: {type(ex).__name__}: {ex}", {"check": "decode"})
    if not B.wt_equal(dec, wt):
        return ("an independent v1 decoder recovers a different triangle: " + B.first_diff(dec, wt), {"check": "decode"})
    r = B.impl_read(ref, scratch)
    if r[0] != "ok":
        return (f"a file produced by an independent v1 encoder is rejected: {r[1]}", {"check": "read_ref"})
    if not B.wt_equal(r[1], wt):
        return ("a file produced by an independent v1 encoder is read back differently: " + B.first_diff(r[1], wt),
                {"check": "read_ref"})
    # same bytes whatever the order in which the cells were supplied
    if len(wt) >= 2 and not B.has_restated(wt):   # restated cells keep their supply order (C01: cells_separated)
        from bermuda import Triangle

        cells = B.mk_cells(wt)
        for _ in range(2):
            perm = cells[:]
            rng.shuffle(perm)
            with warnings.catch_warnings():
                warnings.simplefilter("ignore")
                b2 = B.impl_write(Triangle(perm), scratch)
            if b2 != b:
                return ("different bytes for a permutation of the same cells", {"check": "permutation"})
    return None


def header_oracle(b, scratch, rng):
    """Files with a wrong magic number / version must be rejected."""
    muts = []
    for i in range(5):
        for delta in (1, 0x80, rng.randrange(1, 256)):
            m = bytearray(b)
            m[i] = (m[i] + delta) % 256
            if bytes(m) != b:
                muts.append((f"byte {i} of the header changed", bytes(m)))
    muts.append(("file without the magic number", b[4:]))
    muts.append(("magic number only", b[:4]))
    muts.append(("text file", b"period_start,period_end,evaluation_date,paid_loss\n2020-01-01,2020-12-31,2020-12-31,1\n"))
    muts.append(("empty file", b""))
    muts.append(("version 2", b[:4] + b"\x02" + b[5:]))
    muts.append(("version 0", b[:4] + b"\x00" + b[5:]))
    muts.append(("big-endian magic", b[:4][::-1] + b[4:]))
    for what, m in muts:
        r = B.impl_read(m, scratch)
        if r[0] == "ok":
            return (f"{what}: the file was accepted ({len(r[1])} cells)", {"check": "header", "file_hex": m.hex()[:4000]})
    return None


# ---------------------------------------------------------------------------- golden corpus
def golden_entries():
    out = []
    for p in sorted(GOLDEN.glob("pinned_*.trib")):
        out.append((p.name, p, GOLDEN / (p.stem + ".json")))
    for rel in SHIPPED:
        name = rel.replace("/", "__")
        out.append((rel, REPO / rel, GOLDEN / "shipped" / (name + ".json")))
    return out


def make_golden(seed=20260930):
    """Run ONCE against the verified tree:  python -m harness.c06 --make-golden"""
    GOLDEN.mkdir(exist_ok=True)
    (GOLDEN / "shipped").mkdir(exist_ok=True)
    rng = random.Random(seed)
    scratch = B.Scratch(ROOT / "build")
    specs = [dict(n_slices=1, kind="Cell"), dict(n_slices=2, kind="CumulativeCell"),
             dict(n_slices=3, kind="IncrementalCell"), dict(n_slices=4, kind="Cell"),
             dict(n_slices=2, kind="IncrementalCell", size="big", max_keys=60), dict(n_slices=0)]
    for i, kw in enumerate(specs):
        while True:
            wt = B.gen_triangle(rng, **kw)
            if kw.get("n_slices") == 0 or (len(wt) >= 2 and len(B.all_keys_sorted(wt)) >= 2):
                break
        b = B.impl_write(B.mk_triangle(wt), scratch)
        assert B.ref_encode(wt) == b and B.wt_equal(B.ref_decode(b), wt, ordered=True)
        (GOLDEN / f"pinned_{i}.trib").write_bytes(b)
        (GOLDEN / f"pinned_{i}.json").write_text(json.dumps(wt, indent=0))
    from bermuda import Triangle

    for rel in SHIPPED:
        with warnings.catch_warnings():
            warnings.simplefilter("ignore")
            t = Triangle.from_binary(str(REPO / rel))
        wt = B.canon_triangle(t)
        assert B.wt_equal(B.ref_decode((REPO / rel).read_bytes()), wt, ordered=True)
        (GOLDEN / "shipped" / (rel.replace("/", "__") + ".json")).write_text(json.dumps(wt, indent=0))
    scratch.cleanup()
    print("golden corpus written to", GOLDEN)


def history_oracle(name, path, rec_path, scratch):
    try:
        data = Path(path).read_bytes()
    except OSError as ex:
        return (f"shipped/pinned file {name} is missing: {ex}", {"check": "history"}), None, None
    recorded = json.loads(Path(rec_path).read_text())
    r = B.impl_read(data, scratch)
    if r[0] != "ok":
        return (f"{name} no longer decodes: {r[1]}", {"check": "history", "file": name}), data, recorded
    if not B.wt_equal(r[1], recorded):
        return (f"{name} decodes to different contents: " + B.first_diff(r[1], recorded),
                {"check": "history", "file": name}), data, recorded
    try:
        if not B.wt_equal(B.ref_decode(data), recorded, ordered=True):
            return (f"{name}: the independent decoder disagrees with the recorded contents",
                    {"check": "history", "file": name}), data, recorded
    except Exception as ex:  # noqa: BLE001
        return (f"{name}: the independent decoder fails: {ex}", {"check": "history", "file": name}), data, recorded
    b2 = B.impl_write(B.mk_triangle(recorded), scratch)
    if b2 != data:
        return (f"{name}: re-encoding the recorded contents no longer gives the file's bytes",
                {"check": "history", "file": name}), data, recorded
    return None, data, recorded


# ---------------------------------------------------------------------------- the check
def run(ctx):
    B.raise_stack_limit()
    t0 = time.time()
    ctx.rule = ("generated triangles as in C05 (<=136 keys) cross-checked against the independent Python v1 codec "
                "in both directions, 2 random permutations of the cells each, 22 corrupted headers each for every "
                "8th; write sequences (2-3 triangles sharing Metadata with shifted pool indices, both orders, both "
                "flavours, vs a fresh interpreter); history = 6 pinned files in /verif/golden + the 5 shipped .trib files, decoded by the "
                "implementation, the independent decoder and the model's parse; non-trivial = >= 2 cells")
    ctx.audit_tree([f for f in B.MY_COQ_FILES if (B.Path("/verif/coq") / f).exists()])
    B.prove_static_local(ctx, "Props/C06.v")
    ok_tbin, tbin_diff = B.tbin_obligations(ctx)
    scratch = B.Scratch(ctx.build)
    try:
        rng = random.Random(ctx.seed * 31 + 6)
        n = 120 if ctx.quick else 1200
        n_bad = 0
        for i in range(n):
            kw = {}
            if i < len(B.SIBLING_VARIANTS):
                kw = dict(n_slices=2, sibling=B.SIBLING_VARIANTS[i])
            elif i < len(B.SIBLING_VARIANTS) + 4:
                kw = dict(n_slices=3, force=[("nested",), ("semi", "late"), ("farspan",), ("nfc",)][i - len(B.SIBLING_VARIANTS)])
            if i % 25 == 3:
                kw = dict(size="big", n_slices=rng.choice([1, 2]))
            wt = B.gen_triangle(rng, **kw) if i % 40 != 7 else B.gen_calendar_triangle(rng)
            s = B.wt_summary(wt)
            ctx.hist(f"slices={s['slices']}")
            ctx.hist(f"kind={'/'.join(s['kinds']) or 'empty'}")
            ctx.hist("keys=" + ("0" if s["keys"] == 0 else "1-8" if s["keys"] <= 8 else "9-60" if s["keys"] <= 60 else "61-136"))
            if len(wt) >= 2:
                ctx.nontriv(repr(wt))
            bad = layout_oracle(wt, scratch, rng)
            ctx.count(evaluations=5, traces=3)
            if bad is None and i % 8 == 0:
                bad = header_oracle(B.ref_encode(wt), scratch, rng)
                ctx.count(evaluations=22)
                ctx.hist("header_mutations", 22)
            if bad is not None:
                n_bad += 1
                if n_bad <= 3:
                    small = wt
                    if bad[1].get("check") != "header" and not B.uses_0x88_index(wt):
                        chk = bad[1].get("check")
                        r2 = random.Random(1)
                        small = B.shrink_wt(wt, lambda w: (lambda x: x is not None and x[1].get("check") == chk)(
                            layout_oracle(w, scratch, r2)), budget=50)
                    ctx.violation("impl-violation", bad[0], {"wt": small, **bad[1]}, found_input=True,
                                  finding_class=F9_CLASS if B.uses_0x88_index(small) else None)
            if i < 2 and wt:
                ctx.sample({"summary": s, "first_cell": wt[0]})

        # write sequences: each file written in one process must be the layout of ITS triangle and equal the
        # bytes a fresh interpreter writes (no writer state leaks from one file into the next)
        n_seq = 6 if ctx.quick else 40
        rs = random.Random(ctx.seed * 131 + 7)
        seqs = [B.gen_write_sequence(rs) for _ in range(n_seq)]
        fresh_all = B.fresh_bytes([wt for sq in seqs for wt in sq])
        pos = 0
        n_seq_bad = 0
        for sq in seqs:
            fresh = fresh_all[pos:pos + len(sq)]
            pos += len(sq)
            bad = B.sequence_oracle(sq, scratch, fresh=fresh)
            ctx.hist("write_sequence")
            ctx.count(evaluations=8 * len(sq), traces=len(sq))
            ctx.nontriv(("seq", repr(sq)))
            if bad is not None:
                n_seq_bad += 1
                if n_seq_bad <= 2:
                    ctx.violation("impl-violation", bad[0], {"sequence": sq, "check": "sequence", **bad[1]},
                                  found_input=True)

        # LARGE stream (family Q), Python-side oracles only
        B.run_large_stream(ctx, scratch, "c06")

        # F9 probe: the layout itself is ambiguous for pool indices with low byte 0x88
        f9 = B.canon_triangle(B.mk_triangle(B.gen_f9_triangle(137)))
        bad = layout_oracle(f9, scratch, rng)
        ctx.hist("f9_probe")
        if bad is not None:
            ctx.violation("impl-violation", "137 distinct keys: " + bad[0], {"wt": f9, **bad[1]},
                          found_input=True, finding_class=F9_CLASS)
        else:
            ctx.notes.append("F9 probe (137 keys) passes all layout checks: the known finding no longer reproduces")

        # history: pinned corpus + shipped files
        lines = [B.COQ_HEADER]
        chk = []
        entries = golden_entries()
        if len(entries) < 8:
            ctx.obligation("golden corpus present", False, f"only {len(entries)} entries under {GOLDEN}")
        for k, (name, path, rec) in enumerate(entries):
            bad, data, recorded = history_oracle(name, path, rec, scratch)
            ctx.count(evaluations=4, traces=1)
            ctx.hist("history_file")
            if recorded is not None and len(recorded) >= 2:
                ctx.nontriv(name)
            if bad is not None:
                n_bad += 1
                if n_bad <= 4:
                    ctx.violation("impl-violation", bad[0], {"golden": name, **bad[1]}, found_input=True)
            if data is not None and recorded is not None and B.wt_in_model_domain(recorded):
                lines.append(B.coq_triangle_defs(f"g{k}", recorded))
                lines.append(f"Definition f{k} : bytes := {B.coq_zlist(data)}.")
                chk.append((name, f"result_eqb (parse f{k}) (ROk g{k}) && zlist_eqb (ser_py g{k}) f{k} && zlist_eqb (ser g{k}) f{k} && wfb g{k} && no_0x88_keyb g{k} && coherentb g{k}"))
        lines.append("Definition chk : list bool := [" + ";\n ".join(c for _, c in chk) + "].")
        lines.append("Eval vm_compute in failing 0 chk.")
        p = ctx.build / "golden_cases.v"
        p.write_text("\n".join(lines) + "\n")
        t1 = time.time()
        rc, out = ctx.coqc(p, timeout=1500)
        ctx.log(f"coqc golden_cases.v: {time.time()-t1:.1f}s")
        from harness.c05 import B_parse

        vals = B_parse(out) if rc == 0 else []
        ctx.obligation("model parse/ser of the golden corpus and shipped files evaluates", rc == 0 and len(vals) == 1,
                       out[-800:] if rc else "")
        if vals:
            ctx.count(evaluations=len(chk), traces=len(chk))
            for k in vals[0]:
                ctx.violation("correspondence", f"model parse/ser disagrees with the recorded contents of {chk[k][0]}",
                              {"golden": chk[k][0]}, found_input=False)
        if not ok_tbin and not ctx.violations:
            ctx.violation("obligation", "T-bin obligations (v1_constants / layout_matches_model) no longer hold; the "
                          "independent codec, the golden corpus and the header mutations found no failing input",
                          {"tbin_diff": tbin_diff}, found_input=False)
        ctx.extra["tbin_diff"] = tbin_diff
        if not ctx.quick:
            ctx.coqchk("Bermuda.Props.C06")
        ctx.assumptions += [
            "the independent Python codec (harness/bin_common.py) is a faithful reading of the documented layout",
            "recorded contents of the shipped files were taken from the verified tree on 2026-09-30",
            "permutation invariance relies on Triangle(...) sorting (C01); generated slices differ in an attribute that "
            "Metadata.__lt__ really compares (not only in loss_details: F1)",
        ]
    finally:
        scratch.cleanup()


def replay(ctx, data):
    scratch = B.Scratch(ctx.build)
    try:
        if "golden" in data and "wt" not in data:
            for name, path, rec in golden_entries():
                if name == data["golden"]:
                    bad, _, _ = history_oracle(name, path, rec, scratch)
                    print(f"replaying history file {name} on {REPO}:", "PROPERTY FAILS: " + bad[0] if bad else "decodes to its recorded contents")
                    return 1 if bad else 0
            print("unknown golden entry", data["golden"])
            return 1
        if "large_params" in data:
            return B.replay_large(data, scratch)
        if "sequence" in data:
            sq = data["sequence"]
            print(f"replaying a write sequence of {len(sq)} triangles on {REPO} (order {data.get('order')}, "
                  f"shared objects {data.get('share')}, compressed {data.get('compress')})")
            bad = B.sequence_oracle(sq, scratch, orders=[data["order"]] if "order" in data else None)
            if bad is None:
                print("every file of the sequence round-trips, is the layout of its triangle and equals a fresh write")
                return 0
            print("PROPERTY FAILS:", bad[0], bad[1])
            return 1
        wt = data.get("wt")
        if wt is None:
            print("replay: no input recorded:", data.get("what"))
            print(data.get("tbin_diff", ""))
            return 1
        print(f"replaying on {REPO}: {B.wt_summary(wt)}")
        rng = random.Random(1)
        bad = layout_oracle(wt, scratch, rng)
        if bad is None and data.get("check") == "header":
            if "file_hex" in data and len(data["file_hex"]) < 4000:
                r = B.impl_read(bytes.fromhex(data["file_hex"]), scratch)
                if r[0] == "ok":
                    bad = ("the corrupted header is accepted", {})
            else:
                bad = header_oracle(B.ref_encode(wt), scratch, rng)
        if bad is None:
            print("all layout checks pass on this input: property holds")
            return 0
        print("PROPERTY FAILS:", bad[0])
        return 1
    finally:
        scratch.cleanup()


if __name__ == "__main__":
    import sys

    if "--make-golden" in sys.argv:
        make_golden()
