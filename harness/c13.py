"""C13 -- descriptive accessors and the triangle taxonomy agree with the cells.

Theorems: coq/Props/C13.v about coq/Model/Accessors.v (any triangle size).
Tie: every run generates triangles over the layout taxonomy, runs the REAL accessors, and
  (a) lets Coq compare them with the model and evaluate the executable specifications on the
      implementation's outputs (coq/GenProps/C13_Tie.v, cases_k.v; only failing indices are printed);
  (b) runs independent Python oracles on every case (all-pairs overlap, brute-force gcd, loops);
  (c) re-checks the decision-carrying tokens of is_disjoint / _multi_gcd through a small fail-closed
      ast translator (translate/t_acc.py -> GenAcc.v, spec_ok obligations in GenProps/C13_Gen.v).
"""
from __future__ import annotations

import datetime
import math
import random
import shutil
import warnings

import numpy as np

from harness import coqterm as ct
from harness.acc_common import cell_from_json  # noqa: E402,F401
from harness.acc_common import mend  # noqa: E402
from harness.acc_common import mstart as mstart_  # noqa: E402
from harness.acc_common import (ACC_LAYOUTS, AccGen, CellPrinter, cbool, clist, copt, cres, cz, czlist,
                                meta_key, mid, month_aligned, parse_nat_list, same_meta, tri_from_json, tri_to_json)
from harness.common import COQ, REPO, parse_coq_eval

D = datetime.date
ONE = datetime.timedelta(days=1)

CHECK_NAMES = [
    "metadata", "periods", "evaluation_dates", "evaluation_date", "dev_lags(day)", "dev_lags(month)", "fields",
    "field_cell_counts", "field_slice_counts", "num_samples", "experience_gaps", "common_metadata",
    "metadata_differences", "is_disjoint", "is_slicewise_disjoint", "is_semi_regular(day)",
    "is_semi_regular(month)", "is_regular(day)", "is_regular(month)", "period_resolution",
    "eval_date_resolution", "spec:periods", "spec:evaluation_dates", "spec:dev_lags(day)",
    "spec:dev_lags(month)", "spec:fields", "spec:recombine", "spec:is_disjoint", "spec:semi(day)",
    "spec:semi(month)", "spec:regular(day)", "spec:regular(month)", "spec:period_resolution",
    "spec:eval_date_resolution"]
NCHECK = len(CHECK_NAMES)


def fresh(t):
    """accessors are cached properties: always observe on a fresh Triangle"""
    from bermuda import Triangle

    with warnings.catch_warnings():
        warnings.simplefilter("ignore")
        return Triangle(list(t.cells))


def attempt(f):
    try:
        return ("ok", f())
    except Exception as ex:  # noqa: BLE001
        return ("err", ex)


def observe(t):
    """Run every accessor of the property on the real implementation.  A plain Triangle is observed on
    fresh copies (cached properties); a Derived case is observed LIVE on the object the library's own
    operation returned, so that anything the operation carried over from its parent is seen."""
    live = isinstance(t, Derived)
    get = (lambda: t.child) if live else (lambda: fresh(t))
    if not live and len(t.cells) > 1200:   # large: one fresh copy for all accessors (sorting dominates)
        one = fresh(t)
        get = lambda: one  # noqa: E731
    o = {}
    o["cells"] = list(t.cells)
    o["live"] = t.child if live else None
    o["aligned"] = month_aligned(t.cells)
    for name in ACCESSOR_NAMES:
        o[name] = attempt(lambda: getattr(get(), name))
    o["lags_day"] = attempt(lambda: get().dev_lags("day"))
    o["lags_month"] = attempt(lambda: get().dev_lags("month"))
    o["semi_day"] = attempt(lambda: get().is_semi_regular("day"))
    o["semi_month"] = attempt(lambda: get().is_semi_regular("month"))
    o["reg_day"] = attempt(lambda: get().is_regular("day"))
    o["reg_month"] = attempt(lambda: get().is_regular("month"))
    return o


ACCESSOR_NAMES = ["metadata", "periods", "evaluation_dates", "evaluation_date", "fields", "field_cell_counts",
                  "field_slice_counts", "num_samples", "experience_gaps", "common_metadata",
                  "metadata_differences", "is_disjoint", "is_slicewise_disjoint", "period_resolution",
                  "eval_date_resolution"]
OBS_KEYS = ACCESSOR_NAMES + ["lags_day", "lags_month", "semi_day", "semi_month", "reg_day", "reg_month"]


# ------------------------------------------------------------------ derived triangles
class Derived:
    """A triangle obtained from a parent through one of the library's own operations, AFTER every
    accessor / taxonomy predicate of the parent (and of any second operand) has been read."""

    def __init__(self, parent_cells_json, derivation, child):
        self.parent_json = parent_cells_json
        self.derivation = derivation
        self.child = child
        self.cells = list(child.cells)
        if derivation.get("op") in ("retime", "reclass"):
            # judged against the SAME triangle built from plain dates: model, oracles and the fresh
            # reference use the parent's cells, the live object is the one built from datetimes
            self.cells = [cell_from_json(j) for j in parent_cells_json]
            self.cells = list(__import__("bermuda").Triangle(self.cells).cells)

    def __len__(self):
        return len(self.cells)


def warm(t):
    """populate every cached_property of t (and call the taxonomy methods)"""
    for name in ACCESSOR_NAMES + ["slices", "is_empty", "is_incremental", "is_multi_slice"]:
        attempt(lambda: getattr(t, name))
    for u in ("day", "month"):
        attempt(lambda: t.dev_lags(u))
        attempt(lambda: t.is_semi_regular(u))
        attempt(lambda: t.is_regular(u))
    attempt(lambda: t.right_edge)


class MyDateTime(datetime.datetime):
    """a user-defined datetime subclass (like pandas.Timestamp, it is a datetime.date)"""


def retime(parent, d):
    """The same triangle built from datetime.datetime / pandas.Timestamp / a datetime subclass carrying a
    time of day (one per slice, cyclically from d['times']).  Cell must store plain calendar dates."""
    from bermuda import Triangle

    if d["kind"] == "timestamp":
        import pandas as pd

        mk = lambda x, h, m: pd.Timestamp(year=x.year, month=x.month, day=x.day, hour=h, minute=m)  # noqa: E731
    elif d["kind"] == "subclass":
        mk = lambda x, h, m: MyDateTime(x.year, x.month, x.day, h, m)  # noqa: E731
    else:
        mk = lambda x, h, m: datetime.datetime(x.year, x.month, x.day, h, m)  # noqa: E731
    metas = []
    for c in parent.cells:
        if not any(same_meta(c.metadata, m) for m in metas):
            metas.append(c.metadata)
    cells = []
    for c in parent.cells:
        i = next(k for k, m in enumerate(metas) if same_meta(m, c.metadata))
        h, mi = d["times"][i % len(d["times"])]
        kw = {}
        if type(c).__name__ == "IncrementalCell":  # F28: prev_evaluation_date is normalised like the others
            kw["prev_evaluation_date"] = mk(c.prev_evaluation_date, h, mi)
        cells.append(type(c)(period_start=mk(c.period_start, h, mi), period_end=mk(c.period_end, h, mi),
                             evaluation_date=mk(c.evaluation_date, h, mi), values=c.values, metadata=c.metadata, **kw))
    return Triangle(cells)


def derive(parent, d):
    """Apply derivation d (JSON-able dict) to an already warmed parent."""
    from bermuda import Triangle

    op = d["op"]
    if op == "big":
        return big_triangle(d["params"])
    if op == "retime":
        return retime(parent, d)
    if op == "reclass":  # H: equal-but-differently-typed receiver: Cell <-> CumulativeCell
        from bermuda import Cell, CumulativeCell

        swap = {"Cell": CumulativeCell, "CumulativeCell": Cell}
        return Triangle([swap[type(c).__name__](period_start=c.period_start, period_end=c.period_end,
                                                evaluation_date=c.evaluation_date, values=c.values, metadata=c.metadata)
                         for c in parent.cells])
    dt = lambda k: D.fromisoformat(d[k]) if d.get(k) else None  # noqa: E731
    if op == "filter_period_days_lt":
        return parent.filter(lambda c: (c.period_end - c.period_start).days < d["n"])
    if op == "filter_period_days_ge":
        return parent.filter(lambda c: (c.period_end - c.period_start).days >= d["n"])
    if op == "filter_eval_le":
        return parent.filter(lambda c: c.evaluation_date <= dt("date"))
    if op == "filter_slice":
        m = parent.metadata[d["i"] % len(parent.metadata)]
        return parent.filter(lambda c: c.metadata == m)
    if op == "filter_not_slice":
        m = parent.metadata[d["i"] % len(parent.metadata)]
        return parent.filter(lambda c: c.metadata != m)
    if op == "clip":
        return parent.clip(min_eval=dt("min_eval"), max_eval=dt("max_eval"), min_period=dt("min_period"),
                           max_period=dt("max_period"))
    if op == "select":
        return parent.select(d["keys"])
    if op == "slice":
        return list(parent.slices.values())[d["i"] % len(parent.slices)]
    if op == "getitem":
        return parent[d["a"]:d["b"]]
    if op == "right_edge":
        return parent.right_edge
    if op == "add_split":  # both operands are read completely, then concatenated
        a, b = parent[:d["k"]], parent[d["k"]:]
        warm(a)
        warm(b)
        return a + b
    if op == "add_filtered":  # (disjoint part, read) + (the rest, read): disjoint -> possibly overlapping
        a = parent.filter(lambda c: (c.period_end - c.period_start).days < d["n"])
        b = parent.filter(lambda c: (c.period_end - c.period_start).days >= d["n"])
        warm(a)
        warm(b)
        return a + b
    if op == "chain":  # two subsetting steps, reading everything in between
        mid_ = derive(parent, d["first"])
        warm(mid_)
        return derive(mid_, d["second"])
    raise ValueError(op)


def big_triangle(p):
    """Large triangles from a few parameters (recorded in replays instead of the cells).
    kind grid:   slices = [{"cap": n cells, "fields": [[name, first n cells carrying it] ..] | "pattern": k}], n_periods x
                 n_lags monthly cells per slice in (period, lag) order, truncated to cap
    kind metas:  n distinct metadata, one cell each
    kind samples: arrays of n samples (views: reversed, strided) in a few cells"""
    from bermuda import CumulativeCell, Metadata, Triangle

    r = random.Random(p.get("seed", 0))
    cells = []
    if p["kind"] == "grid":
        start = (p.get("year", 1990) - 1970) * 12
        res = p.get("res", 1)
        for j, sl in enumerate(p["slices"]):
            m = Metadata(country=f"C{j:03d}", per_occurrence_limit=2**53 + 1 + j if p.get("big_ints") else None,
                         details={"id": 2**60 + j} if p.get("big_ints") else {})
            i = 0
            for a in range(p["n_periods"]):
                for k in range(p["n_lags"]):
                    if i >= sl["cap"]:
                        break
                    if "fields" in sl:
                        vals = {f: (2**53 + 1 + i if p.get("big_ints") else i) for f, n in sl["fields"] if i < n}
                    else:
                        vals = {f"f{q}": i for q in range(sl["pattern"]) if (i * 7 + q * 3) % 5 < 3 or q == i % sl["pattern"]}
                    pe = mend(start + (a + 1) * res - 1)
                    cells.append(CumulativeCell(period_start=mstart_(start + a * res), period_end=pe,
                                                evaluation_date=mend(start + (a + 1) * res - 1 + k * res), values=vals, metadata=m))
                    i += 1
    elif p["kind"] == "metas":
        for j in range(p["n"]):
            m = Metadata(country=f"K{j % 97}", details={"id": j, "grp": j % 13}, loss_details={"l": -1 - (j % 3)})
            cells.append(CumulativeCell(period_start=D(2020, 1, 1), period_end=D(2020, 3, 31),
                                        evaluation_date=mend(602 + j % 7), values={"paid_loss": j, f"g{j % 5}": 1}, metadata=m))
    elif p["kind"] == "samples":
        n = p["n"]
        base = np.arange(2 * n, dtype=np.int64)
        views = [base[:n], base[::-1][:n], base[::2], np.asfortranarray(np.ones((n, 2)))[:, 0], np.linspace(0, 1, n)]
        for k, v in enumerate(views):
            cells.append(CumulativeCell(period_start=D(2020, 1, 1), period_end=D(2020, 3, 31), evaluation_date=mend(602 + k),
                                        values={"paid_loss": v, "scalar": k, "size1": np.array([k])}))
        if p.get("mismatch"):
            cells.append(CumulativeCell(period_start=D(2020, 4, 1), period_end=D(2020, 6, 30), evaluation_date=mend(609),
                                        values={"paid_loss": np.arange(p["mismatch"])}))
    r.shuffle(cells)
    return Triangle(cells)


def big_params(quick):
    """sizes chosen to cross: >= 256-multiples per slice, > 2048 / 3100 cells, > 64 evaluation dates, rows > 65 cells,
    > 2100 distinct Metadata, 10^4-sample arrays, integers beyond 2**53"""
    ps = [
        {"kind": "grid", "n_periods": 12, "n_lags": 70, "slices": [
            {"cap": 512, "fields": [["paid_loss", 512], ["reported_loss", 256], ["x", 255], ["y", 768]]},
            {"cap": 257, "fields": [["paid_loss", 256], ["z", 257], ["x", 1]]},
            {"cap": 768, "fields": [["paid_loss", 768], ["reported_loss", 512], ["w", 300]]}]},
        {"kind": "grid", "n_periods": 40, "n_lags": 66, "res": 1, "slices": [{"cap": 2400, "pattern": 6}, {"cap": 300, "pattern": 4}]},
        {"kind": "grid", "n_periods": 8, "n_lags": 40, "res": 3, "big_ints": True,
         "slices": [{"cap": 300, "fields": [["paid_loss", 300], ["earned_premium", 256]]}]},
        {"kind": "metas", "n": 2200},
        {"kind": "samples", "n": 10000},
        {"kind": "samples", "n": 4096, "mismatch": 5000},
    ]
    if not quick:
        ps += [{"kind": "grid", "n_periods": 60, "n_lags": 90, "slices": [{"cap": 4200, "pattern": 7}, {"cap": 1024, "pattern": 3}]},
               {"kind": "metas", "n": 4300}, {"kind": "samples", "n": 100000},
               {"kind": "grid", "n_periods": 110, "n_lags": 12, "res": 12, "year": 1971,
                "slices": [{"cap": 1100, "fields": [["paid_loss", 1024], ["q", 1100]]}]}]
    return ps


def make_derived(parent_cells, d):
    from bermuda import Triangle

    with warnings.catch_warnings():
        warnings.simplefilter("ignore")
        parent = Triangle(list(parent_cells))
        warm(parent)
        child = derive(parent, d)
    return Derived(tri_to_json(parent_cells), d, child)


def big_cases(ctx):
    return [(f"big:{p['kind']}/{p.get('n', '')}{'x'.join(str(s['cap']) for s in p.get('slices', []))}",
             make_derived([], {"op": "big", "params": p})) for p in big_params(ctx.quick)]


def canon_out(key, kv):
    """strict canonical form of one observed accessor result"""
    k, v = kv
    if k == "err":
        return ("err", type(v).__name__)

    def c(x):
        if hasattr(x, "risk_basis") and hasattr(x, "loss_details"):
            return ("meta",) + tuple(ct.canon_meta(x, ordered=False))
        if isinstance(x, (list, tuple)):
            return (type(x).__name__,) + tuple(c(y) for y in x)
        if isinstance(x, dict):
            return ("dict",) + tuple((a, c(b)) for a, b in x.items())
        if isinstance(x, datetime.date):
            return ("date", type(x).__name__, x.isoformat())
        return ct.canon_value(x)

    return ("ok", c(v))


def derivations(rng, t):
    """A handful of derivations suited to triangle t (JSON-able)."""
    cells = list(t.cells)
    if not cells:
        return [{"op": "clip"}, {"op": "right_edge"}, {"op": "getitem", "a": 0, "b": 0}]
    lens = sorted({(c.period_end - c.period_start).days for c in cells})
    evs = sorted({c.evaluation_date for c in cells})
    starts = sorted({c.period_start for c in cells})
    ends = sorted({c.period_end for c in cells})
    fields = sorted({f for c in cells for f in c.values})
    n = len(cells)
    out = []
    if len(lens) > 1:
        cut = rng.choice(lens[1:])
        out += [{"op": "filter_period_days_lt", "n": cut}, {"op": "filter_period_days_ge", "n": cut},
                {"op": "add_filtered", "n": cut}]
    out += [
        {"op": "clip", "max_period": rng.choice(ends).isoformat()},
        {"op": "clip", "min_period": rng.choice(starts).isoformat()},
        {"op": "clip", "min_eval": rng.choice(evs).isoformat()},
        {"op": "clip", "max_eval": rng.choice(evs).isoformat()},
        {"op": "clip", "min_period": rng.choice(starts).isoformat(), "max_eval": rng.choice(evs).isoformat()},
        {"op": "filter_eval_le", "date": rng.choice(evs).isoformat()},
        {"op": "filter_slice", "i": rng.randrange(4)}, {"op": "filter_not_slice", "i": rng.randrange(4)},
        {"op": "slice", "i": rng.randrange(4)},
        {"op": "getitem", "a": rng.randrange(0, n), "b": rng.randrange(0, n + 1)},
        {"op": "right_edge"},
        {"op": "add_split", "k": rng.randrange(0, n + 1)},
        {"op": "chain", "first": {"op": "clip", "max_period": rng.choice(ends).isoformat()},
         "second": {"op": "clip", "min_period": rng.choice(starts).isoformat()}},
    ]
    if fields:
        out.append({"op": "select", "keys": rng.sample(fields, rng.randint(1, len(fields)))})
    return out


def quarterly_plus_annual(rng):
    """quarterly cells plus an overlapping annual (or half-year) cell: not disjoint as a whole, regular
    once the long period is dropped -- and the reverse composition"""
    from bermuda import Cell, CumulativeCell, Metadata, Triangle

    y = rng.randint(1995, 2040)
    cls = rng.choice([Cell, CumulativeCell])
    evs = [D(y, 12, 31), D(y + 1, 3, 31)] + ([D(y + 1, 6, 30)] if rng.random() < 0.5 else [])
    ms = [Metadata()] if rng.random() < 0.6 else [Metadata(country="US"), Metadata(country="DE")]
    cells = []
    for m in ms:
        for q in range(4):
            ps = D(y, 3 * q + 1, 1)
            pe = (D(y + (3 * q + 3) // 12, (3 * q + 3) % 12 + 1, 1) - ONE)
            for e in evs:
                cells.append(cls(period_start=ps, period_end=pe, evaluation_date=e, values={"paid_loss": 10.0 * (q + 1)}, metadata=m))
        a, b = rng.choice([(D(y, 1, 1), D(y, 12, 31)), (D(y, 1, 1), D(y, 6, 30)), (D(y, 4, 1), D(y, 12, 31))])
        for e in evs:
            cells.append(cls(period_start=a, period_end=b, evaluation_date=e, values={"paid_loss": 100.0}, metadata=m))
    return Triangle(cells)


def build_derived(ctx, n):
    """The derived-triangle stream: (label, Derived)."""
    rng = random.Random(ctx.seed * 998244353 + 131)
    ag = AccGen(rng)
    out = []
    # directed: the documented shape, through every subsetting operation, both directions
    with warnings.catch_warnings():
        warnings.simplefilter("ignore")
        for _ in range(6):
            t = quarterly_plus_annual(rng)
            y = t.cells[0].period_start.year
            for d in [{"op": "filter_period_days_lt", "n": 100}, {"op": "clip", "max_period": D(y, 9, 30).isoformat()},
                      {"op": "clip", "min_period": D(y, 7, 1).isoformat()}, {"op": "add_filtered", "n": 100},
                      {"op": "filter_period_days_ge", "n": 100}, {"op": "getitem", "a": 0, "b": 4},
                      {"op": "chain", "first": {"op": "clip", "max_period": D(y, 9, 30).isoformat()},
                       "second": {"op": "clip", "min_period": D(y, 4, 1).isoformat()}}]:
                out.append(("derived:" + d["op"] + "/quarterly+annual", make_derived(t.cells, d)))
        # the same triangle built from datetime.datetime / pandas.Timestamp / a datetime subclass with a
        # time of day that differs per slice: every accessor must agree with the plain-date triangle
        kinds = ["timestamp", "datetime", "subclass"]
        time_sets = [[[0, 0], [17, 30]], [[9, 15], [17, 30], [23, 59]], [[17, 30]], [[6, 0], [0, 0]]]
        rl = ["regular", "semi_gap", "irregular", "offgrid", "unequal_days", "adjacent_days", "semi", "near_month_end"]
        k = 0
        while k < max(48, n // 10):
            try:
                t, info = ag.triangle(layout=rl[k % len(rl)], n_slices=[2, 1, 3, 2][k % 4])
            except Exception:  # noqa: BLE001
                continue
            d = {"op": "retime", "kind": kinds[k % 3], "times": time_sets[(k // 3) % len(time_sets)]}
            out.append((f"derived:retime-{d['kind']}/{info['layout']}/{info['n_slices']}sl", make_derived(t.cells, d)))
            if k % 6 == 1:  # incremental cells, prev_evaluation_date datetime-like too
                ti, ii = ag.g.triangle(layout=["regular", "ragged", "holey"][k % 3], basis="inc", n_slices=2)
                out.append((f"derived:retime-{d['kind']}/inc-{ii['layout']}/2sl", make_derived(ti.cells, d)))
            if k % 4 == 0:
                out.append((f"derived:reclass/{info['layout']}/{info['n_slices']}sl", make_derived(t.cells, {"op": "reclass"})))
            k += 1
        layouts = ["erratic", "overlap1", "regular", "semi_gap", "irregular", "offgrid", "daily", "unequal_days", "gen",
                   "same_month_evals", "adjacent_days"]
        while len(out) < n:
            try:
                t, info = ag.triangle(layout=layouts[len(out) % len(layouts)])
            except Exception:  # noqa: BLE001
                continue
            ds = derivations(rng, t)
            for d in rng.sample(ds, min(len(ds), 3)):
                try:
                    out.append((f"derived:{d['op']}/{info['layout']}/{info['n_slices']}sl", make_derived(t.cells, d)))
                except Exception as ex:  # noqa: BLE001  (an operation refusing its input is not C13's business)
                    ctx.hist(f"derived-refused:{type(ex).__name__}")
    return out[:n]


def fresh_differences(t, o):
    """Derived case: every observed accessor must equal that of a freshly constructed Triangle with the
    same cells (strict comparison)."""
    from bermuda import Triangle

    with warnings.catch_warnings():
        warnings.simplefilter("ignore")
        ref = observe(Triangle(list(t.cells)))
    bad = []
    for key in OBS_KEYS:
        a, b = canon_out(key, o[key]), canon_out(key, ref[key])
        if a != b:
            bad.append((key, f"derived triangle ({t.derivation}) reports {o[key][1]!r}, a freshly constructed "
                             f"Triangle of the same cells reports {ref[key][1]!r}"))
    return bad


class Unexpected(Exception):
    pass


def must(o, key):
    k, v = o[key]
    if k != "ok":
        raise Unexpected(f"{key} raised {type(v).__name__}: {v}")
    return v


def cresult(o, key, f):
    k, v = o[key]
    return f"(Ok {f(v)})" if k == "ok" else f"(Err {ct.cerr(v)})"


def cpair(p):
    return f"({p[0].toordinal()},{p[1].toordinal()})"


def int_lags(xs):
    out = []
    for x in xs:
        if float(x) != int(x):
            raise Unexpected(f"month lag {x!r} of a month-aligned cell is not an integer")
        out.append(int(x))
    return out


def coq_case(o, pr: CellPrinter):
    """(cells, mkOut ...) as Coq text; raises Unexpected when an accessor raised where the property
    says it must not, NotRepresentable for values outside the model's number format."""
    al = o["aligned"]
    metas = must(o, "metadata")
    fcc = must(o, "field_cell_counts")
    fsc = must(o, "field_slice_counts")
    lm = int_lags(must(o, "lags_month")) if al else []
    for v in must(o, "lags_day"):
        if type(v) is not int:
            raise Unexpected(f"day lag {v!r} is not an int")
    parts = [
        cbool(al),
        clist(pr.meta(m) for m in metas),
        clist(cpair(p) for p in must(o, "periods")),
        czlist(d.toordinal() for d in must(o, "evaluation_dates")),
        cresult(o, "evaluation_date", lambda d: str(d.toordinal())),
        czlist(must(o, "lags_day")),
        czlist(lm),
        clist(ct.cstr(f) for f in must(o, "fields")),
        clist(f"({ct.cstr(k)},{cz(v)})" for k, v in fcc.items()),
        clist(f"({ct.cstr(k)},{cz(v)})" for k, v in fsc.items()),
        cresult(o, "num_samples", cz),
        clist(cpair(p) for p in must(o, "experience_gaps")),
        cresult(o, "common_metadata", ct.cmeta),
        clist(ct.cmeta(m) for m in must(o, "metadata_differences")),
        cbool(must(o, "is_disjoint")), cbool(must(o, "is_slicewise_disjoint")),
        cbool(must(o, "semi_day")), cbool(must(o, "semi_month") if al else False),
        cbool(must(o, "reg_day")), cbool(must(o, "reg_month") if al else False),
        cresult(o, "period_resolution", lambda v: copt(v, cz)),
        cresult(o, "eval_date_resolution", lambda v: copt(v, cz)),
    ]
    return f"({pr.cells(o['cells'])},\n  mkOut " + " ".join(parts) + ")"


# ------------------------------------------------------------------ independent Python oracles
def overlap(p, q):
    return p[0] <= q[1] and q[0] <= p[1]


def brute_gcd(gaps):
    """largest d >= 1 dividing every gap; 0 if every gap is 0"""
    m = max(gaps)
    if m == 0:
        return 0
    best = 1
    for d in range(1, m + 1):
        if all(g % d == 0 for g in gaps):
            best = d
    return best


def month_lag(start, stop):
    """dev_lag_months as documented, from the dates alone (float arithmetic in the documented order)"""
    import calendar

    sf = start.day / calendar.monthrange(start.year, start.month)[1]
    ef = stop.day / calendar.monthrange(stop.year, stop.month)[1]
    return 12 * (stop.year - start.year) + (stop.month - start.month) - sf + ef


def py_eq(a, b):
    return type(a) is type(b) and a == b or (a == b)


def oracles(o):
    """Property statement evaluated directly, with code that shares nothing with the accessors.
    Returns a list of (accessor, message)."""
    bad = []
    cells = o["cells"]

    def chk(name, cond, msg=""):
        if not cond:
            bad.append((name, msg))

    def val(key):
        k, v = o[key]
        if k != "ok":
            bad.append((key, f"raised {type(v).__name__}: {v}"))
            return None
        return v

    empty = len(cells) == 0
    # every date handed out is a plain calendar date (no time of day, no datetime subclass)
    def plain(x):
        return type(x) is datetime.date

    for key, flat in [("periods", lambda v: [d for p in v for d in p]), ("evaluation_dates", lambda v: list(v)),
                      ("evaluation_date", lambda v: [v]), ("experience_gaps", lambda v: [d for p in v for d in p])]:
        kk, vv = o[key]
        if kk == "ok" and not all(plain(d) for d in flat(vv)):
            bad.append((key, f"returns {sorted({type(d).__name__ for d in flat(vv)})} objects, not plain datetime.date: {vv!r}"[:300]))
    live_cells = getattr(o.get("live"), "cells", None) or cells
    if not all(plain(d) for c in live_cells
               for d in (c.period_start, c.period_end, c.evaluation_date, getattr(c, "prev_evaluation_date", c.period_end))):
        bad.append(("periods", "a cell stores a period / evaluation date that is not a plain datetime.date"))
    # sorted distinct images
    per = list(dict.fromkeys((c.period_start, c.period_end) for c in cells))
    evs = list(dict.fromkeys(c.evaluation_date for c in cells))
    per.sort(key=lambda p: (p[0].toordinal(), p[1].toordinal()))
    evs.sort(key=lambda d: d.toordinal())
    v = val("periods")
    chk("periods", v == per, f"got {v} want {per}")
    v = val("evaluation_dates")
    chk("evaluation_dates", v == evs, f"got {v} want {evs}")
    k, v = o["evaluation_date"]
    if empty:
        chk("evaluation_date", k == "err" and type(v).__name__ == "TriangleEmptyError", "empty triangle must raise")
    else:
        chk("evaluation_date", k == "ok" and v == evs[-1] and all(c.evaluation_date <= v for c in cells), f"got {v}")
    ld = sorted({(c.evaluation_date.toordinal() - c.period_end.toordinal()) for c in cells})
    v = val("lags_day")
    chk("dev_lags(day)", v == ld and all(type(x) is int for x in (v or [])), f"got {v} want {ld}")
    lm = None
    if o["aligned"]:
        lm = sorted({mid(c.evaluation_date) - mid(c.period_end) for c in cells})
        v = val("lags_month")
        chk("dev_lags(month)", v is not None and list(v) == lm, f"got {v} want {lm}")
    # every cell's own development lag, recomputed from its dates (month: the documented fractional-month
    # formula 12*dy + dm - day/len(start month) + day/len(stop month); day: difference of ordinals)
    for c in cells:
        want_m, got_m = month_lag(c.period_end, c.evaluation_date), attempt(lambda: c.dev_lag("month"))
        if got_m != ("ok", want_m) or type(got_m[1]) is not float:
            bad.append(("dev_lags(month)", f"cell {c.period_end}/{c.evaluation_date}: dev_lag('month') = {got_m[1]!r}, dates give {want_m!r}"))
            break
        got_d = attempt(lambda: c.dev_lag("day"))
        if got_d != ("ok", c.evaluation_date.toordinal() - c.period_end.toordinal()):
            bad.append(("dev_lags(day)", f"cell {c.period_end}/{c.evaluation_date}: dev_lag('day') = {got_d[1]!r}"))
            break
    lmf = sorted({month_lag(c.period_end, c.evaluation_date) for c in cells})
    v = val("lags_month")
    chk("dev_lags(month)", v is not None and list(v) == lmf, f"got {v} want {lmf}")
    names = list(dict.fromkeys(f for c in cells for f in c.values))
    names.sort(key=lambda s: s.encode("utf8"))
    v = val("fields")
    chk("fields", v == names, f"got {v} want {names}")
    # metadata: set equality + sorted under the implementation's own `<` + no duplicates
    metas = val("metadata") or []
    by_key = {}                       # slices, grouped without Metadata.__eq__ / __hash__
    for c in cells:
        by_key.setdefault(meta_key(c.metadata), []).append(c)
    seen = [cs[0].metadata for cs in by_key.values()]
    chk("metadata", len(metas) == len(seen) and {meta_key(m) for m in metas} == set(by_key),
        "not the distinct metadata of the cells")
    chk("metadata", all(a < b and not (b < a) for a, b in zip(metas[:-1], metas[1:])), "not strictly sorted by <")
    # counts
    v = val("field_cell_counts")
    want = {f: sum(1 for c in cells if f in c.values) for f in names}
    chk("field_cell_counts", v == want and list(v or {}) == names, f"got {v} want {want}")
    v = val("field_slice_counts")
    slice_fields = [set(f for c in cs for f in c.values) for cs in by_key.values()]
    want = {f: sum(1 for fs in slice_fields if f in fs) for f in names}
    chk("field_slice_counts", v == want and list(v or {}) == names, f"got {v} want {want}")
    # num_samples
    sizes = {x.size for c in cells for x in c.values.values() if isinstance(x, np.ndarray) and x.size > 1}
    k, v = o["num_samples"]
    if len(sizes) > 1:
        chk("num_samples", k == "err" and isinstance(v, ValueError), f"inconsistent sizes {sizes} must raise ValueError")
    else:
        chk("num_samples", k == "ok" and v == (next(iter(sizes)) if sizes else 1), f"got {v} sizes {sizes}")
    # experience gaps: exactly the maximal uncovered day ranges between the first start and last end
    gaps = val("experience_gaps")
    disjoint_true = all(not overlap(p, q) for i, p in enumerate(per) for q in per[i + 1:])
    if gaps is not None and disjoint_true and per:
        want = []
        for a, b in zip(per[:-1], per[1:]):
            if a[1] + ONE != b[0]:
                want.append((a[1] + ONE, b[0] - ONE))
        chk("experience_gaps", gaps == want, f"got {gaps} want {want}")
        lo, hi = per[0][0].toordinal(), max(p[1] for p in per).toordinal()
        if hi - lo < 40000:
            cov = set()
            for a, b in per:
                cov.update(range(a.toordinal(), b.toordinal() + 1))
            ing = set()
            for a, b in gaps:
                ing.update(range(a.toordinal(), b.toordinal() + 1))
            chk("experience_gaps", ing == set(range(lo, hi + 1)) - cov, "gaps are not the uncovered days")
    # common metadata / differences
    k, common = o["common_metadata"]
    diffs = val("metadata_differences")
    if empty:
        chk("common_metadata", k == "err", "empty triangle: expected an exception")
        chk("metadata_differences", diffs == [], f"got {diffs}")
    elif k != "ok":
        bad.append(("common_metadata", f"raised {type(common).__name__}"))
    else:
        from bermuda import Metadata

        for a in ["risk_basis", "country", "currency", "reinsurance_basis", "loss_definition", "per_occurrence_limit"]:
            vals = [getattr(m, a) for m in seen]
            shared = all(x == vals[0] for x in vals)
            got = getattr(common, a)
            chk("common_metadata", got == (vals[0] if shared else None), f"{a}: common={got!r} slices={vals!r}")
        for a in ["details", "loss_details"]:
            ds = [getattr(m, a) for m in seen]
            want = {kk: vv for kk, vv in ds[0].items() if all(kk in d and d[kk] == vv for d in ds)}
            chk("common_metadata", getattr(common, a) == want, f"{a}: common={getattr(common, a)!r} want {want!r}")
        if diffs is not None:
            chk("metadata_differences", len(diffs) == len(metas), "length")
            for dm, m in zip(diffs, metas):
                kw = {}
                for a in ["risk_basis", "country", "currency", "reinsurance_basis", "loss_definition", "per_occurrence_limit"]:
                    kw[a] = getattr(common, a) if getattr(common, a) is not None else getattr(dm, a)
                    chk("metadata_differences", getattr(common, a) is None or getattr(dm, a) is None,
                        f"{a} present in both common and difference")
                for a in ["details", "loss_details"]:
                    chk("metadata_differences", not (set(getattr(common, a)) & set(getattr(dm, a))), f"{a} key in both")
                    kw[a] = {**getattr(common, a), **getattr(dm, a)}
                chk("metadata_differences", same_meta(Metadata(**kw), m), f"recombination {kw} != {m}")
    # taxonomy
    dj = val("is_disjoint")
    chk("is_disjoint", dj == disjoint_true, f"got {dj}, all-pairs overlap test says {disjoint_true}; periods {per}")
    swd = val("is_slicewise_disjoint")
    want = True
    for cs in by_key.values():
        pp = list({(c.period_start, c.period_end) for c in cs})
        if any(overlap(p, q) for i, p in enumerate(pp) for q in pp[i + 1:]):
            want = False
    chk("is_slicewise_disjoint", swd == want, f"got {swd} want {want}")
    eq_days = len({(p[1] - p[0]).days for p in per}) <= 1
    sd = val("semi_day")
    chk("is_semi_regular(day)", sd == (disjoint_true and eq_days), f"got {sd}; disjoint {disjoint_true}, equal day lengths {eq_days}")
    const_d = len({b - a for a, b in zip(ld[:-1], ld[1:])}) <= 1
    rd = val("reg_day")
    chk("is_regular(day)", rd == (disjoint_true and eq_days and const_d), f"got {rd}; lags {ld}")
    if o["aligned"]:
        eq_m = len({mid(p[1]) - mid(p[0]) for p in per}) <= 1
        sm = val("semi_month")
        chk("is_semi_regular(month)", sm == (disjoint_true and eq_m), f"got {sm}; disjoint {disjoint_true}, equal month lengths {eq_m}")
        const_m = len({b - a for a, b in zip(lm[:-1], lm[1:])}) <= 1
        rm = val("reg_month")
        chk("is_regular(month)", rm == (disjoint_true and eq_m and const_m), f"got {rm}; lags {lm}")
        chk("nesting", (not rm or sm) and (not sm or dj), "regular -> semi-regular -> disjoint violated (month)")
    chk("nesting", (not rd or sd) and (not sd or dj), "regular -> semi-regular -> disjoint violated (day)")
    # month unit on EVERY triangle (also with evaluation dates / period ends off the month ends): equal
    # fractional-month period lengths, constant spacing of the fractional-month lags
    eq_mf = len({month_lag(p[0] - ONE, p[1]) for p in per}) <= 1
    smf = val("semi_month")
    chk("is_semi_regular(month)", smf == (disjoint_true and eq_mf), f"got {smf}; disjoint {disjoint_true}, equal month lengths {eq_mf}")
    if len(lmf) <= 1:
        const_mf = True
    else:
        off = lmf[1] - lmf[0]
        const_mf = all(b - a == off for a, b in zip(lmf[1:-1], lmf[2:]))
    rmf = val("reg_month")
    chk("is_regular(month)", rmf == (disjoint_true and eq_mf and const_mf), f"got {rmf}; month lags {lmf}")
    chk("nesting", (not rmf or smf) and (not smf or dj), "regular -> semi-regular -> disjoint violated (month, any dates)")
    # resolutions
    k, pres = o["period_resolution"]
    if empty:
        chk("period_resolution", k == "err" or pres is None, "empty triangle")
    else:
        bounds = sorted({mid(p[0]) for p in per} | {mid(p[1]) + 1 for p in per})
        g = [b - a for a, b in zip(bounds[:-1], bounds[1:])]
        chk("period_resolution", k == "ok" and pres == (brute_gcd(g) if g else None), f"got {pres!r}; gaps {g}")
    k, eres = o["eval_date_resolution"]
    ms = sorted(mid(d) for d in evs)
    g = [b - a for a, b in zip(ms[:-1], ms[1:])]
    chk("eval_date_resolution", k == "ok" and eres == (brute_gcd(g) if g else None), f"got {eres!r}; gaps {g}")
    return bad


# ------------------------------------------------------------------ directed cases
def directed():
    """Boundary triangles of the property text (always part of the run)."""
    from bermuda import CumulativeCell, Metadata, Triangle

    def mk(ps, pe, ev, vals=None, m=None):
        return CumulativeCell(period_start=ps, period_end=pe, evaluation_date=ev,
                              values=vals if vals is not None else {"paid_loss": 1}, metadata=m or Metadata())

    out = []
    out.append(("empty", Triangle([])))
    # adjacent vs one-day overlap
    out.append(("adjacent", Triangle([mk(D(2020, 1, 1), D(2020, 1, 31), D(2020, 3, 31)),
                                      mk(D(2020, 2, 1), D(2020, 2, 29), D(2020, 3, 31))])))
    out.append(("overlap-one-day", Triangle([mk(D(2020, 1, 1), D(2020, 2, 1), D(2020, 3, 31)),
                                             mk(D(2020, 2, 1), D(2020, 2, 29), D(2020, 3, 31))])))
    # same start, different ends (overlap hidden from a start-only comparison)
    out.append(("same-start", Triangle([mk(D(2020, 1, 1), D(2020, 3, 31), D(2020, 3, 31)),
                                        mk(D(2020, 1, 1), D(2020, 6, 30), D(2020, 6, 30))])))
    # long first period swallowing two later ones: only adjacent scan after sorting sees it
    out.append(("nested", Triangle([mk(D(2020, 1, 1), D(2020, 12, 31), D(2020, 12, 31)),
                                    mk(D(2020, 2, 1), D(2020, 2, 29), D(2020, 12, 31)),
                                    mk(D(2020, 4, 1), D(2020, 4, 30), D(2020, 12, 31))])))
    # gcd of mixed gaps 6 and 4 -> 2 (min would say 4)
    out.append(("gcd-6-4", Triangle([mk(D(2020, 1, 1), D(2020, 6, 30), D(2020, 6, 30)),
                                     mk(D(2020, 7, 1), D(2020, 10, 31), D(2020, 10, 31)),
                                     mk(D(2020, 7, 1), D(2020, 10, 31), D(2021, 4, 30))])))
    # gaps 3 and 2 -> 1
    out.append(("gcd-3-2", Triangle([mk(D(2020, 1, 1), D(2020, 3, 31), D(2020, 3, 31)),
                                     mk(D(2020, 4, 1), D(2020, 5, 31), D(2020, 5, 31))])))
    # off-grid lag: 0,3,6,10
    q = [D(2020, 3, 31), D(2020, 6, 30), D(2020, 9, 30), D(2021, 1, 31)]
    out.append(("offgrid", Triangle([mk(D(2020, 1, 1), D(2020, 3, 31), e) for e in q])))
    # first step differs: lags 0,1,3,5
    q = [D(2020, 3, 31), D(2020, 4, 30), D(2020, 6, 30), D(2020, 8, 31)]
    out.append(("first-step", Triangle([mk(D(2020, 1, 1), D(2020, 3, 31), e) for e in q])))
    # slices sharing / not sharing attributes
    m1 = Metadata(country="US", currency="USD", details={"lob": "auto", "n": 1}, loss_details={"cov": "bi"})
    m2 = Metadata(country="US", currency="EUR", details={"lob": "auto", "n": 2}, loss_details={"cov": "bi", "p": "x"})
    m3 = Metadata(country="US", currency=None, details={"lob": "auto"}, loss_details={})
    for ms in ([m1, m2], [m1, m2, m3], [m3, m1]):
        out.append((f"meta-{len(ms)}", Triangle([mk(D(2020, 1, 1), D(2020, 3, 31), D(2020, 3, 31), m=m) for m in ms])))
    # near-month-end dates: 28 Feb of a leap year is NOT a month end, 29 Feb is; 30th of a 31-day month is not
    for nm, pe, evs in [
        ("feb28-leap-eval", D(2024, 1, 31), [D(2024, 1, 31), D(2024, 2, 28), D(2024, 3, 31), D(2024, 4, 30)]),
        ("feb29-leap-eval", D(2024, 1, 31), [D(2024, 1, 31), D(2024, 2, 29), D(2024, 3, 31), D(2024, 4, 30)]),
        ("feb28-common-eval", D(2023, 1, 31), [D(2023, 1, 31), D(2023, 2, 28), D(2023, 3, 31), D(2023, 4, 30)]),
        ("day30-of-31-eval", D(2024, 4, 30), [D(2024, 4, 30), D(2024, 5, 30), D(2024, 6, 30), D(2024, 7, 31)]),
        ("feb28-2000-eval", D(2000, 1, 31), [D(2000, 1, 31), D(2000, 2, 28), D(2000, 3, 31)]),
        ("feb28-1900-eval", D(1900, 1, 31), [D(1900, 1, 31), D(1900, 2, 28), D(1900, 3, 31)]),
    ]:
        out.append((nm, Triangle([mk(D(pe.year, 1 if pe.month == 1 else pe.month, 1), pe, e) for e in evs])))
    # period END on 28 Feb of a leap year
    out.append(("feb28-leap-period-end", Triangle([mk(D(2024, 2, 1), D(2024, 2, 28), e)
                                                   for e in (D(2024, 2, 28), D(2024, 3, 31), D(2024, 4, 30))]
                                                  + [mk(D(2024, 3, 1), D(2024, 3, 31), D(2024, 4, 30))])))
    out.append(("samples-bad", Triangle([mk(D(2020, 1, 1), D(2020, 3, 31), D(2020, 3, 31), {"a": np.array([1, 2])}),
                                         mk(D(2020, 1, 1), D(2020, 3, 31), D(2020, 6, 30), {"a": np.array([1, 2, 3])})])))
    return out


def hardening():
    """Directed stream for the input families of notes/HARDENING.md (runs on every quick run)."""
    from bermuda import Cell, CumulativeCell, Metadata, Triangle

    def mk(ps, pe, ev, vals=None, m=None, cls=CumulativeCell):
        return cls(period_start=ps, period_end=pe, evaluation_date=ev,
                   values=vals if vals is not None else {"paid_loss": 1}, metadata=m or Metadata())

    Q = [(D(2020, 1, 1), D(2020, 3, 31)), (D(2020, 4, 1), D(2020, 6, 30)), (D(2020, 7, 1), D(2020, 9, 30))]
    E3 = [D(2020, 9, 30), D(2020, 12, 31)]

    def tri(metas, periods=Q, evs=E3, vals=None):
        return Triangle([mk(a, b, e, dict(vals) if vals else None, m) for m in metas for a, b in periods for e in evs if e >= a])

    out = []
    # A: equal metadata spelled differently inside ONE slice (loss_details order, limit 1000 vs 1000.0, 7 vs 7.0)
    a1 = Metadata(per_occurrence_limit=1000, details={"a": 1, "t": 7}, loss_details={"x": "p", "y": 2})
    a2 = Metadata(per_occurrence_limit=1000.0, details={"t": 7.0, "a": True}, loss_details={"y": 2.0, "x": "p"})
    out.append(("A:one-slice-respelled", Triangle([mk(a, b, e, None, a1 if i % 2 else a2)
                                                    for i, (a, b) in enumerate(Q) for e in E3])))
    out.append(("A:respelled+other-slice", Triangle([mk(a, b, e, None, m) for m in (a1, a2, Metadata(country="US"))
                                                     for a, b in Q[:2] for e in E3[:1 if m is a2 else 2]])))
    # B: distinct metadata that flatten alike
    for nm, ms in [
        ("B:details-vs-loss_details", [Metadata(details={"k": "v"}), Metadata(loss_details={"k": "v"})]),
        ("B:detail-named-like-attribute", [Metadata(details={"currency": "USD"}), Metadata(currency="USD")]),
        ("B:only-loss_details-differ", [Metadata(country="US", loss_details={"c": "a"}), Metadata(country="US", loss_details={"c": "b"}),
                                        Metadata(country="US")]),
        ("B:none-vs-empty-string", [Metadata(country=None), Metadata(country="")]),
        ("B:missing-vs-empty-detail", [Metadata(details={}), Metadata(details={"x": ""})]),
        ("B:missing-vs-None-detail", [Metadata(details={}), Metadata(details={"x": None}), Metadata(risk_basis=None)]),
    ]:
        out.append((nm, tri(ms)))
    # None stored in one slice vs the key ABSENT in another (dict.get's default), both sort orders, details and
    # loss_details, two and three slices, plus a None genuinely shared by all slices
    for nm, ms in [
        ("E:None-bearing-sorts-first", [Metadata(country="A", details={"x": None}), Metadata(country="B", details={})]),
        ("E:None-bearing-sorts-last", [Metadata(country="B", details={"x": None}), Metadata(country="A", details={})]),
        ("E:None-loss_detail-first", [Metadata(country="A", loss_details={"x": None, "y": 1}), Metadata(country="B", loss_details={"y": 1})]),
        ("E:None-loss_detail-last", [Metadata(country="B", loss_details={"x": None, "y": 1}), Metadata(country="A", loss_details={"y": 1})]),
        ("E:None-first-of-three", [Metadata(country="A", details={"x": None, "k": "v"}), Metadata(country="B", details={"k": "v"}),
                                   Metadata(country="C", details={"x": None, "k": "v"})]),
        ("E:None-shared-by-all", [Metadata(country="A", details={"x": None}, loss_details={"z": None}),
                                  Metadata(country="B", details={"x": None}, loss_details={"z": None})]),
        ("E:None-vs-absent-same-attrs", [Metadata(details={"a": None, "b": 2}), Metadata(details={"b": 2, "c": None})]),
    ]:
        out.append((nm, tri(ms)))
    # C: calendar corners far from the generator's years
    for y in (2240, 2400, 1904, 2100):
        ps_ = [(D(y, 1, 1), D(y, 1, 31)), (D(y, 2, 1), D(y, 3, 1) - ONE), (D(y, 3, 1), D(y, 3, 31))]
        out.append((f"C:feb-{y}", Triangle([mk(a, b, e) for a, b in ps_ for e in (b, D(y, 3, 31), D(y, 4, 30), D(y, 2, 28)) if e >= b])))
    # E: falsy but valid values everywhere
    out.append(("E:falsy-limits", tri([Metadata(per_occurrence_limit=0), Metadata(per_occurrence_limit=None), Metadata(per_occurrence_limit=0.5)])))
    out.append(("E:limit-0-vs-0.0-one-slice", Triangle([mk(*Q[0], E3[0], None, Metadata(per_occurrence_limit=0)),
                                                         mk(*Q[0], E3[1], None, Metadata(per_occurrence_limit=0.0)),
                                                         mk(*Q[1], E3[1], None, Metadata(per_occurrence_limit=0, country=""))])))
    out.append(("E:falsy-details", tri([Metadata(details={"k": 0}), Metadata(details={"k": 1}), Metadata(details={"k": False, "s": ""})])))
    out.append(("E:falsy-values", Triangle([mk(*Q[0], E3[0], {"paid_loss": 0, "reported_loss": 0.0, "earned_premium": None}),
                                            mk(*Q[0], E3[1], {}), mk(*Q[1], E3[1], {"paid_loss": None})])))
    # F: degenerate shapes
    out.append(("F:field-only-later", Triangle([mk(*Q[0], E3[0], {"paid_loss": 1}), mk(*Q[0], E3[1], {"paid_loss": 2, "late": 3}),
                                                mk(*Q[1], E3[1], {"late": None})])))
    out.append(("F:all-None-field", Triangle([mk(a, b, e, {"paid_loss": None, "x": 1}) for a, b in Q[:2] for e in E3])))
    out.append(("F:samples-then-scalars", Triangle([mk(*Q[0], E3[0], {"a": np.array([1, 2, 3])}), mk(*Q[0], E3[1], {"a": 5}),
                                                    mk(*Q[1], E3[1], {"a": 7.5, "b": np.array([1.0, 2.0, 3.0])})])))
    out.append(("F:plain-Cell-class", Triangle([mk(a, b, e, None, None, Cell) for a, b in Q for e in E3])))
    # G: NumPy corner types among the values (num_samples / fields / counts read them)
    g = {"i64big": np.int64(2**53 + 1), "f64": np.float64(2.5), "a_f32": np.array([1, 2], dtype=np.float32),
         "a_i32": np.array([1, 2], dtype=np.int32), "a_i16": np.array([3, 4], dtype=np.int16), "a_bool": np.array([True, False]),
         "zero_d": np.array(5.0), "size1": np.array([7]), "strided": np.arange(8, dtype=np.int64)[::4],
         "fortran2d": np.asfortranarray(np.ones((1, 2)))}
    out.append(("G:numpy-corners", Triangle([mk(*Q[0], E3[0], dict(g)), mk(*Q[0], E3[1], {"a_f32": np.array([5, 6], dtype=np.float32)})])))
    out.append(("G:size1-vs-scalar", Triangle([mk(*Q[0], E3[0], {"a": np.array([7])}), mk(*Q[0], E3[1], {"a": 7}),
                                               mk(*Q[1], E3[1], {"a": np.array(7)})])))
    # M: sibling slices differing ONLY by a value whose CPython hash collides (hash(-1) == hash(-2), ...)
    for nm, ms in [
        ("M:detail--1/-2", [Metadata(details={"layer": -1}), Metadata(details={"layer": -2})]),
        ("M:loss_detail--2.0/-1.0", [Metadata(country="US", loss_details={"layer": -2.0}), Metadata(country="US", loss_details={"layer": -1.0})]),
        ("M:limit-0/2**61-1", [Metadata(per_occurrence_limit=0), Metadata(per_occurrence_limit=2**61 - 1)]),
        ("M:limit--1/-2", [Metadata(per_occurrence_limit=-2), Metadata(per_occurrence_limit=-1), Metadata(per_occurrence_limit=0)]),
        ("M:detail-0/2**61-1+shared", [Metadata(details={"lob": "a", "layer": 0}), Metadata(details={"layer": 2**61 - 1, "lob": "a"})]),
    ]:
        out.append((nm, tri(ms, vals={"paid_loss": 1})))
        out.append((nm + "-uneven-fields", Triangle([mk(a, b, e, {"paid_loss": 1} if i else {"reported_loss": 2}, m)
                                                     for i, m in enumerate(ms) for a, b in Q[:2] for e in E3[: 1 + i]])))
    # P: whole periods missing; evaluation steps whose gcd is smaller than the smallest step
    out.append(("P:annual-2018-2020-no-2019", Triangle([mk(D(y, 1, 1), D(y, 12, 31), D(y + k, 12, 31)) for y in (2018, 2020) for k in (0, 1)])))
    out.append(("P:H1-only-half-years", Triangle([mk(D(y, 1, 1), D(y, 6, 30), e) for y in (2019, 2020, 2021)
                                                  for e in (D(y, 6, 30), D(y + 1, 6, 30))])))
    out.append(("P:eval-steps-0-6-15", Triangle([mk(D(2020, 1, 1), D(2020, 3, 31), mend(602 + k)) for k in (0, 6, 15)])))
    out.append(("P:eval-steps-0-10-25+periods-4-6", Triangle([mk(D(2020, 1, 1), D(2020, 4, 30), mend(603 + k)) for k in (0, 10, 25)]
                                                             + [mk(D(2020, 5, 1), D(2020, 10, 31), mend(609 + 25))])))
    # I: restated cells (same coordinates twice, different values)
    out.append(("I:restated", Triangle([mk(*Q[0], E3[0], {"paid_loss": 1}), mk(*Q[0], E3[0], {"paid_loss": 2, "x": 1}),
                                        mk(*Q[1], E3[1], {"paid_loss": 3})])))
    # J: period layouts
    semi = [(D(2021, 1, 1), D(2021, 1, 15)), (D(2021, 1, 16), D(2021, 1, 31)), (D(2021, 2, 1), D(2021, 2, 15)), (D(2021, 2, 16), D(2021, 2, 28))]
    out.append(("J:semi-monthly", Triangle([mk(a, b, e) for a, b in semi for e in (D(2021, 2, 28), D(2021, 3, 15), D(2021, 3, 31))])))
    out.append(("J:shared-start", Triangle([mk(D(2020, 1, 1), D(2020, 6, 30), D(2020, 6, 30)), mk(D(2020, 1, 1), D(2020, 3, 31), D(2020, 9, 30)),
                                            mk(D(2020, 1, 1), D(2020, 12, 31), D(2020, 12, 31))])))
    out.append(("J:shared-end", Triangle([mk(D(2020, 1, 1), D(2020, 6, 30), D(2020, 9, 30)), mk(D(2020, 4, 1), D(2020, 6, 30), D(2020, 6, 30))])))
    out.append(("J:gaps-none-adjacent", Triangle([mk(D(2020, 1, 1), D(2020, 1, 31), D(2020, 12, 31)), mk(D(2020, 3, 1), D(2020, 3, 31), D(2020, 12, 31)),
                                                  mk(D(2020, 7, 1), D(2020, 7, 31), D(2020, 12, 31))])))
    out.append(("J:slice-ragged", Triangle([mk(a, b, e, None, m) for m, n in ((Metadata(country="US"), 3), (Metadata(country="DE"), 1))
                                            for a, b in Q[:n] for e in E3[: n]])))
    return out


UNIT_SPELLINGS = {"month": ["months", "Month", " MONTHS ", "dev_months"], "day": ["days", "Day", " DAYS "]}


def unit_spelling_failures(t):
    """K / L: every documented spelling of a unit gives the same answer, `timedelta` is the day unit as a
    timedelta, and an unknown unit is refused with ValueError wherever the unit is looked at."""
    bad = []
    ref = {u: (attempt(lambda: fresh(t).dev_lags(u)), attempt(lambda: fresh(t).is_semi_regular(u)),
               attempt(lambda: fresh(t).is_regular(u))) for u in ("month", "day")}

    def same(a, b):
        return a[0] == b[0] and (a[1] == b[1] if a[0] == "ok" else type(a[1]) is type(b[1]))

    for u, alts in UNIT_SPELLINGS.items():
        for alt in alts:
            got = (attempt(lambda: fresh(t).dev_lags(alt)), attempt(lambda: fresh(t).is_semi_regular(alt)),
                   attempt(lambda: fresh(t).is_regular(alt)), attempt(lambda: fresh(t).is_regular(dev_lag_unit=alt)))
            for nm, g, r in zip(("dev_lags", "is_semi_regular", "is_regular", "is_regular(dev_lag_unit=)"), got, ref[u] + (ref[u][2],)):
                if not same(g, r):
                    bad.append((nm + f"({u})", f"unit spelled {alt!r} gives {g[1]!r}, {u!r} gives {r[1]!r}"))
    td = attempt(lambda: fresh(t).dev_lags("timedelta"))
    if ref["day"][0][0] == "ok" and td != ("ok", [datetime.timedelta(days=x) for x in ref["day"][0][1]]):
        bad.append(("dev_lags(day)", f"unit 'timedelta' gives {td[1]!r}, days are {ref['day'][0][1]!r}"))
    for nm, r, g in (("is_semi_regular", ref["day"][1], attempt(lambda: fresh(t).is_semi_regular("timedelta"))),
                     ("is_regular", ref["day"][2], attempt(lambda: fresh(t).is_regular("timedelta")))):
        if not same(g, r):
            bad.append((nm + "(day)", f"unit 'timedelta' gives {g[1]!r}, 'day' gives {r[1]!r}"))
    if len(t.cells):
        g = attempt(lambda: fresh(t).dev_lags("fortnight"))
        if not (g[0] == "err" and isinstance(g[1], ValueError)):
            bad.append(("dev_lags(day)", f"unknown unit 'fortnight' is not refused with ValueError: {g[1]!r}"))
        if ref["day"][1] == ("ok", True) or attempt(lambda: fresh(t).is_disjoint) == ("ok", True):
            for nm, f in (("is_semi_regular", lambda: fresh(t).is_semi_regular("fortnight")),
                          ("is_regular", lambda: fresh(t).is_regular("fortnight"))):
                g = attempt(f)
                if not (g[0] == "err" and isinstance(g[1], ValueError)):
                    bad.append((nm + "(day)", f"unknown unit 'fortnight' is not refused with ValueError: {g[1]!r}"))
    return bad


# ------------------------------------------------------------------ run
HEADER = ct.COQ_HEADER + "From Gen Require Import C13_Tie.\n"


def build_cases(ctx, n_cases):
    rng = random.Random(ctx.seed * 1000003 + 13)
    ag = AccGen(rng)
    cases = []  # (label, triangle)
    for label, t in directed():
        cases.append(("directed:" + label, t))
    with warnings.catch_warnings():
        warnings.simplefilter("ignore")
        for label, t in hardening():
            cases.append(("hardening:" + label, t))
    while len(cases) < n_cases:
        layout = ACC_LAYOUTS[len(cases) % len(ACC_LAYOUTS)] if rng.random() < 0.8 else None
        with warnings.catch_warnings():
            warnings.simplefilter("ignore")
            try:
                t, info = ag.triangle(layout=layout)
            except Exception as ex:  # generator produced something the constructor refuses
                ctx.hist(f"gen-refused:{type(ex).__name__}")
                continue
        cases.append((f"{info['layout']}/{info['n_slices']}sl/{info.get('values')}/{info.get('coverage', '-')}", t))
    return cases


def run_cases(ctx, cases, tag="cases"):
    """Observe + oracles + Coq correspondence.  Returns (oracle_failures, coq_mismatches) where each
    entry is (case index, label, triangle, what)."""
    per_file = 120
    files, kept = [], []
    oracle_fail, mism = [], []
    chunk, pr = [], None
    texts = []
    early = []

    def flush():
        nonlocal chunk, pr
        if not chunk:
            return
        k = len(files)
        body = ";\n".join(txt for _, txt in chunk)
        f = ctx.build / f"{tag}_{k}.v"
        f.write_text(HEADER + "\n".join(pr.defs) + "\nDefinition cases : list (list cell * out) := [\n" + body
                     + "].\nEval vm_compute in run cases.\n")
        files.append((f, [i for i, _ in chunk]))
        chunk, pr = [], None

    for i, (label, t) in enumerate(cases):
        o = observe(t)
        ctx.hist("layout:" + label.split("/")[0])
        ctx.hist(f"slices:{len(o['metadata'][1]) if o['metadata'][0] == 'ok' else '?'}")
        fails = oracles(o)
        if isinstance(t, Derived):
            fails = fails + fresh_differences(t, o)
            ctx.hist("derived-op:" + t.derivation["op"])
            o2 = observe(t)  # H: the same accessors read a second time on the same object
            for key in OBS_KEYS:
                if canon_out(key, o[key]) != canon_out(key, o2[key]):
                    fails.append((key, f"second read on the same object gives {o2[key][1]!r}, first read gave {o[key][1]!r}"))
        elif label.startswith(("directed:", "hardening:")) or i % 12 == 0:
            fails = fails + unit_spelling_failures(t)
        for acc, msg in fails[:3]:
            oracle_fail.append((i, label, t, f"{acc}: {msg}"))
        if i < 8:
            early.append((label, t, {k: canon_out(k, o[k]) for k in OBS_KEYS}))
        if isinstance(t, Derived) and t.derivation.get("op") == "big":
            ctx.hist("big:python-oracles-only")
            ctx.nontriv(repr(t.derivation))
            continue  # no Coq literals for the large stream (the theorems are size-independent)
        if pr is None:
            pr = CellPrinter(f"k{len(files)}_")
        try:
            save = (list(pr.defs), dict(pr.names))
            txt = coq_case(o, pr)
        except ct.NotRepresentable:
            pr.defs, pr.names = save
            ctx.hist("skipped:not-representable")
            continue
        except Unexpected as ex:
            pr.defs, pr.names = save
            if not fails:
                oracle_fail.append((i, label, t, str(ex)))
            continue
        chunk.append((i, txt))
        kept.append(i)
        if len(o["cells"]) >= 2 or o["evaluation_date"][0] == "err" or o["num_samples"][0] == "err":
            ctx.nontriv((ct.canon_tri(t), repr(getattr(t, "derivation", None))))
        if i < 3:
            ctx.sample({"label": label, "cells": len(o["cells"]),
                        "periods": [[str(a), str(b)] for a, b in o["periods"][1]] if o["periods"][0] == "ok" else None,
                        "is_disjoint": repr(o["is_disjoint"][1]), "period_resolution": repr(o["period_resolution"][1])})
        if len(chunk) >= per_file:
            flush()
    flush()
    # process-wide state (caches, pools): the earliest small cases are read again AFTER all the large work
    for label, t, first in early:
        if isinstance(t, Derived):
            continue
        again = observe(t)
        for key in OBS_KEYS:
            if canon_out(key, again[key]) != first[key]:
                oracle_fail.append((0, label, t, f"{key}: re-check after the large stream gives {again[key][1]!r}, the first read gave {first[key]!r}"))
        for acc, msg in oracles(again)[:2]:
            oracle_fail.append((0, label, t, f"{acc}: (re-check after the large stream) {msg}"))
    res = ctx.coqc_many([f for f, _ in files], jobs=16, timeout=900)
    for f, idxs in files:
        rc, out = res[f]
        if rc != 0 and not out.strip():  # killed without a message (memory pressure on a loaded host): once more, alone
            rc, out = ctx.coqc(f, timeout=900)
        vals = parse_coq_eval(out)
        if rc != 0 or not vals:
            mism.append((None, f.name, None, "coqc failed: " + out[-800:]))
            continue
        for j in parse_nat_list(vals[-1]):
            ci, chk = idxs[j // NCHECK], CHECK_NAMES[j % NCHECK]
            mism.append((ci, cases[ci][0], cases[ci][1], chk))
    ctx.count(evaluations=len(kept) * NCHECK, traces=len(kept))
    return oracle_fail, mism


def a1_probe(ctx):
    """Known finding A1: the cached accessors hand out their own mutable object; a caller editing a returned
    list / dict corrupts every later read of that accessor (call, edit, read again)."""
    from bermuda import CumulativeCell, Metadata, Triangle

    cells = [CumulativeCell(period_start=D(2020, 1, 1), period_end=D(2020, 3, 31), evaluation_date=e,
                            values={"paid_loss": 1}, metadata=Metadata(country="US")) for e in (D(2020, 3, 31), D(2020, 6, 30))]
    edits = {"periods": lambda v: v.append((D(1999, 1, 1), D(1999, 1, 31))), "evaluation_dates": lambda v: v.clear(),
             "fields": lambda v: v.append("zzz"), "metadata": lambda v: v.reverse() or v.append(Metadata(country="XX")),
             "field_cell_counts": lambda v: v.update(paid_loss=99)}
    hit = []
    for name, edit in edits.items():
        with warnings.catch_warnings():
            warnings.simplefilter("ignore")
            t = Triangle(list(cells))
            before = canon_out(name, attempt(lambda: getattr(t, name)))
            edit(getattr(t, name))                       # the CALLER edits the value it was given
            after = canon_out(name, attempt(lambda: getattr(t, name)))
            ref = canon_out(name, attempt(lambda: getattr(Triangle(list(cells)), name)))
        if before == ref and after != ref:
            hit.append(name)
    if hit:
        ctx.violation("impl-violation",
                      f"after the caller edited the value returned by {hit}, a second read no longer agrees with the cells "
                      "(the cached accessor hands out its own mutable object)",
                      {"accessor": "aliasing", "label": "A1", "cells": tri_to_json(cells), "edited": hit},
                      found_input=True, finding_class={"kind": "cached_accessor_result_aliased"})


def translate_and_prove(ctx):
    """Decision tokens regenerated from source + spec_ok obligations."""
    from translate import t_acc

    try:
        gen = t_acc.translate(REPO)
    except t_acc.Unsupported as ex:
        ctx.obligation("T-acc translation (is_disjoint comparison, _multi_gcd reduction)", False, str(ex))
        ctx.log(f"translator failed closed: {ex}")
        return False
    except Exception as ex:  # noqa: BLE001
        ctx.obligation("T-acc translation (is_disjoint comparison, _multi_gcd reduction)", False, repr(ex))
        return False
    ctx.obligation("T-acc translation (is_disjoint comparison, _multi_gcd reduction)", True)
    (ctx.build / "GenAcc.v").write_text(gen)
    rc, out = ctx.coqc(ctx.build / "GenAcc.v", timeout=300)
    ctx.obligation("GenAcc.v compiles", rc == 0, out)
    if rc != 0:
        return False
    shutil.copy(COQ / "GenProps" / "C13_Gen.v", ctx.build / "C13_Gen.v")
    ok, _ = ctx.prove(ctx.build / "C13_Gen.v", timeout=600)
    return ok


def run(ctx):
    warnings.simplefilter("ignore")
    ctx.rule = (
        "triangles drawn over the layout taxonomy (regular, semi-regular incl. a differing first lag step, "
        "semi-regular with gaps, irregular, erratic=overlapping/nested/same-start periods, one-day overlap vs "
        "adjacent day-level periods, unequal day lengths of equal month lengths, a single off-grid lag, daily, "
        "several evaluation dates within one month, single cell, harness.gen shapes incl. incremental), 1-4 slices "
        "with metadata differing in one or several attributes, Python-equal-but-not-identical metadata (1000 vs "
        "1000.0, 1 vs True), partially shared detail keys, mixed field coverage per cell / per slice, int / dyadic "
        "float / int64- and float64-sample values incl. inconsistent sample sizes; plus the directed boundary "
        "cases of the property text; plus a DERIVED stream: every accessor and taxonomy predicate of a parent (and of "
        "any second operand) is read first, then children are produced by filter / clip(min/max eval, min/max period) / "
        "select / slices / t[a:b] / right_edge / + / two chained clips / the same triangle REBUILT from datetime.datetime, "
        "pandas.Timestamp or a datetime subclass with a per-slice time of day (every accessor must agree with the "
        "plain-date triangle and hand out plain datetime.date objects) (incl. quarterly cells + an overlapping annual "
        "period filtered to disjoint, and disjoint + overlapping composed back) and observed LIVE on the returned "
        "object, compared with the model on the child's cells and strictly with a fresh Triangle(list(child.cells)). "
        "Every case: all accessors run on the real Triangle; Coq compares them with "
        "the model and evaluates the executable specs on the implementation's outputs; independent Python oracles "
        "(all-pairs overlap, brute-force gcd, loops) run on every case. Non-trivial = distinct canonical "
        "triangle with >= 2 cells or an error branch hit.")
    ctx.assumptions += [
        "Metadata.__lt__ / __eq__ are C01's Order.meta_cmp / meta_pyeq: C13_metadata_canonical instantiates the "
        "sortedness of `metadata` with them for every constructor output (comparable cells), and the model's own "
        "Python == is proved equal to Order.meta_pyeq on metadata with unique dict keys; the check compares "
        "`metadata` with the model's first-occurrence list and tests sortedness under the implementation's own <",
        "month-unit statements are about month-aligned cells, where dev_lag_months is the integer month-id "
        "difference (C12: lag_month_ends_exact, 1970-2100; F10 before 1970); on other cells only day-unit statements "
        "are tied; the month-unit closed forms hold for every date of year >= 1 (Proofs/CalendarP.v)",
        "the key order of common_metadata's details (iteration order of a Python set) is not modelled: compared "
        "up to key order, strictly on kinds and values",
    ]
    # 1. static theorems
    ctx.audit_tree(["Model/Accessors.v", "Proofs/Accessors.v", "Proofs/AccessorsTax.v", "Proofs/AccessorsCal.v",
                    "Proofs/AccessorsGen.v", "Proofs/AccessorsOrder.v", "Props/C13.v", "GenProps/C13_Gen.v", "GenProps/C13_Tie.v"])
    ctx.prove_static("Props/C13.v", timeout=600)
    # 2. decision tokens regenerated from source
    translate_and_prove(ctx)
    # 3. correspondence + oracles
    for f in ctx.build.glob("cases_*.v*"):
        f.unlink()
    shutil.copy(COQ / "GenProps" / "C13_Tie.v", ctx.build / "C13_Tie.v")
    rc, out = ctx.coqc(ctx.build / "C13_Tie.v", timeout=300)
    ctx.obligation("C13_Tie.v compiles", rc == 0, out)
    cases = build_cases(ctx, 1400 if ctx.quick else 9000)
    cases += build_derived(ctx, 500 if ctx.quick else 3000)
    t_big = __import__("time").time()
    cases += big_cases(ctx)
    ctx.notes.append("large stream: %d big triangles (sizes in big_params) judged by the Python-side oracles only, no Coq "
                     "literals for them (the theorems are size-independent; the correspondence samples); the earliest small "
                     "cases are re-read after the large work" % len(big_params(ctx.quick)))
    ofail, mism = run_cases(ctx, cases)
    ctx.log(f"{len(cases)} cases: {len(ofail)} oracle failures, {len(mism)} model/spec mismatches")
    ctx.obligation("correspondence model = implementation and specs hold on implementation outputs", not mism,
                   repr([(m[1], m[3]) for m in mism[:8]]))
    a1_probe(ctx)
    report(ctx, ofail, mism)


def report(ctx, ofail, mism):
    seen = set()
    for i, label, t, what in ofail:
        key = what.split(":")[0]
        if key in seen:
            continue
        seen.add(key)
        if isinstance(t, Derived):
            big = t.derivation.get("op") == "big"
            ctx.violation("impl-violation", f"{what}"[:1500] + f" [{label}]",
                          {"accessor": key, "label": label, "cells": "generated from derivation.params" if big else tri_to_json(t),
                           "parent_cells": t.parent_json, "derivation": t.derivation}, found_input=True)
        else:
            small = shrink(t, key)
            ctx.violation("impl-violation", f"{what} [{label}]",
                          {"accessor": key, "label": label, "cells": tri_to_json(small)}, found_input=True)
        if len(seen) >= 4:
            break
    if mism and not ofail:
        # a spec:* failure is the property's executable specification failing on the real output
        for i, label, t, chk in mism:
            if t is not None and chk.startswith("spec:"):
                extra = {"parent_cells": t.parent_json, "derivation": t.derivation} if isinstance(t, Derived) else {}
                ctx.violation("impl-violation", f"executable specification {chk} fails on the implementation's output [{label}]",
                              {"accessor": chk, "label": label, "cells": tri_to_json(t), **extra}, found_input=True)
                return
        i, label, t, chk = mism[0]
        ctx.violation("correspondence", f"model and implementation disagree on {chk} [{label}]; no oracle failed",
                      {"accessor": chk, "label": label, "cells": tri_to_json(t) if t is not None else None,
                       "all": [(m[1], m[3]) for m in mism[:20]]}, found_input=False)


def shrink(t, key):
    """Greedy cell removal while the same accessor's oracle still fails."""
    from bermuda import Triangle

    cells = list(t.cells)

    def fails(cs):
        try:
            with warnings.catch_warnings():
                warnings.simplefilter("ignore")
                return any(a.split(":")[0] == key or a == key for a, _ in oracles(observe(Triangle(cs))))
        except Exception:  # noqa: BLE001
            return False

    import time

    if not fails(cells):
        return t
    changed, t0 = True, time.time()
    while changed and len(cells) > 1 and time.time() - t0 < 20:
        changed = False
        for i in range(len(cells)):
            cand = cells[:i] + cells[i + 1:]
            if fails(cand):
                cells, changed = cand, True
                break
    return Triangle(cells)


def replay(ctx, data):
    if not data.get("cells"):
        print("replay: no concrete input recorded:", data.get("what"))
        return 1
    with warnings.catch_warnings():
        warnings.simplefilter("ignore")
        if data.get("derivation"):
            parent = tri_from_json(data["parent_cells"])
            t = make_derived(parent.cells, data["derivation"])
            print(f"derived through {data['derivation']} from a parent with {len(parent)} cells (all parent accessors read first)")
        else:
            t = tri_from_json(data["cells"])
    o = observe(t)
    fails = oracles(o)
    if isinstance(t, Derived):
        fails = fails + fresh_differences(t, o)
    print(f"triangle with {len(t)} cells; periods {o['periods'][1] if o['periods'][0] == 'ok' else o['periods']}")
    for a, m in fails:
        print(f"  FAILS {a}: {m}")
    if not fails:
        print("  every C13 oracle holds on this input")
    return 1 if fails else 0
