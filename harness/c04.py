"""C04 -- cumulative <-> incremental conversion (bermuda/utils/basis.py).

Proof side : coq/Model/Basis.v (executable model), coq/Proofs/Basis*.v, coq/Props/C04.v (theorems for
             rows/triangles of any length), coq/GenProps/C04_gen.v (the four decision-carrying constants
             re-extracted from the source by translate/t_basis.py satisfy `spec_ok`).
Tie        : on every run the real Triangle.to_incremental()/to_cumulative() are executed on generated
             triangles (valid cumulative, valid incremental, plain `Cell`, a malformed stream and a stream of
             unusual value combinations); inputs and the implementation's outputs are printed as Coq terms and
             coqc evaluates  model == implementation  (strict, position by position) and the executable
             specification (Basis.spec_cum / spec_inc) on the implementation's outputs.  Independent Python
             oracles (no model involved) run on every case and give the concrete replay.

Conventions of the comparison (see Model/Basis.v header):
  * value dicts are printed with keys sorted (the code's result key order is `set` iteration order);
  * the implementation's result cells are compared in the order of `result.cells` (so the final
    `Triangle(...)` sort is checked against "rows concatenated in group order");
  * exceptions are compared by class.
"""
from __future__ import annotations

import datetime
import json
import random
import time
import warnings

import numpy as np

from harness import coqterm as ct
from harness.common import COQ, REPO, ROOT, parse_coq_eval
from harness.gen import FIELDS, Gen

D = datetime.date
ONE = datetime.timedelta(days=1)
CARRY = "earned_premium"


# ------------------------------------------------------------------------------------------ printing
def ccell_sorted(c) -> str:
    prev = getattr(c, "prev_evaluation_date", None) if type(c).__name__ == "IncrementalCell" else None
    vals = dict(sorted(c.values.items()))
    return (
        f"(mkCell {ct.ckind(c)} {ct.cdate(c.period_start)} {ct.cdate(c.period_end)} {ct.cdate(c.evaluation_date)} "
        f"{ct.copt(prev, ct.cdate)} {ct.cmeta(c.metadata)} {ct.cdict(vals, ct.cvalue)})"
    )


def ccells_sorted(cells) -> str:
    return "[" + ";\n  ".join(ccell_sorted(c) for c in cells) + "]"


def run_impl(thunk):
    """-> ('ok', Triangle) | ('err', exception)"""
    with warnings.catch_warnings():
        warnings.simplefilter("ignore")
        try:
            return "ok", thunk()
        except Exception as ex:  # noqa: BLE001
            return "err", ex


def cres(r) -> str:
    if r[0] == "ok":
        return f"(Ok {ccells_sorted(r[1].cells)})"
    return f"(Err {ct.cerr(r[1])})"


def res_summary(r):
    return "ok:%d" % len(r[1].cells) if r[0] == "ok" else "err:" + type(r[1]).__name__


# ------------------------------------------------------------------------------------------ JSON (replays)
def val_to_json(v):
    if v is None:
        return None
    if isinstance(v, np.ndarray):
        return {"arr": str(v.dtype), "data": v.tolist()}
    if isinstance(v, (float, np.floating)):
        return {"f": float(v).hex()}
    return {"i": int(v)}


def val_from_json(j):
    if j is None:
        return None
    if "arr" in j:
        return np.array(j["data"], dtype=j["arr"])
    if "f" in j:
        return float.fromhex(j["f"])
    return int(j["i"])


def mv_to_json(v):
    if isinstance(v, datetime.date):
        return {"d": v.isoformat()}
    if isinstance(v, (bool, np.bool_)):
        return {"b": bool(v)}
    if isinstance(v, (float, np.floating)):
        return {"f": float(v).hex()}
    if isinstance(v, (int, np.integer)):
        return {"i": int(v)}
    return {"s": v} if v is not None else None


def mv_from_json(j):
    if j is None:
        return None
    if "d" in j:
        return D.fromisoformat(j["d"])
    if "b" in j:
        return bool(j["b"])
    if "f" in j:
        return float.fromhex(j["f"])
    if "i" in j:
        return int(j["i"])
    return j["s"]


def cell_to_json(c):
    m = c.metadata
    return {
        "cls": type(c).__name__,
        "ps": c.period_start.isoformat(), "pe": c.period_end.isoformat(), "ev": c.evaluation_date.isoformat(),
        "prev": c.prev_evaluation_date.isoformat() if hasattr(c, "prev_evaluation_date") else None,
        "values": {k: val_to_json(v) for k, v in c.values.items()},
        "meta": {
            "risk_basis": m.risk_basis, "country": m.country, "currency": m.currency,
            "reinsurance_basis": m.reinsurance_basis, "loss_definition": m.loss_definition,
            "per_occurrence_limit": mv_to_json(m.per_occurrence_limit),
            "details": {k: mv_to_json(v) for k, v in m.details.items()},
            "loss_details": {k: mv_to_json(v) for k, v in m.loss_details.items()},
        },
    }


def cell_from_json(j):
    from bermuda import Cell, CumulativeCell, IncrementalCell, Metadata

    mj = j["meta"]
    m = Metadata(
        risk_basis=mj["risk_basis"], country=mj["country"], currency=mj["currency"],
        reinsurance_basis=mj["reinsurance_basis"], loss_definition=mj["loss_definition"],
        per_occurrence_limit=mv_from_json(mj["per_occurrence_limit"]),
        details={k: mv_from_json(v) for k, v in mj["details"].items()},
        loss_details={k: mv_from_json(v) for k, v in mj["loss_details"].items()},
    )
    kw = dict(period_start=D.fromisoformat(j["ps"]), period_end=D.fromisoformat(j["pe"]),
              evaluation_date=D.fromisoformat(j["ev"]),
              values={k: val_from_json(v) for k, v in j["values"].items()}, metadata=m)
    if j["cls"] == "IncrementalCell":
        return IncrementalCell(prev_evaluation_date=D.fromisoformat(j["prev"]), **kw)
    return {"Cell": Cell, "CumulativeCell": CumulativeCell}[j["cls"]](**kw)


# ------------------------------------------------------------------------------------------ rows (Python side)
def same_row(a, b):
    """same (period, metadata) under Python `==` -- decided by the harness's own reading of `==` on Metadata
    (py_meta_key), using neither Metadata.__hash__ nor Metadata.__eq__ (both are among the things under test)."""
    return (a.period_start == b.period_start and a.period_end == b.period_end
            and py_meta_key(a.metadata) == py_meta_key(b.metadata))


def rows_of(cells):
    """rows in first-occurrence order (grouped by `==`), each sorted by (evaluation date, prev)."""
    rows: list = []
    for c in cells:
        for r in rows:
            if same_row(r[0], c):
                r.append(c)
                break
        else:
            rows.append([c])
    return [sorted(r, key=lambda c: (c.evaluation_date, getattr(c, "prev_evaluation_date", D.min))) for r in rows]


def py_meta_key(m):
    """Metadata up to Python `==`: detail order irrelevant, 7 == 7.0 == True+6."""
    def nv(v):
        if v is None:
            return ("none",)
        if isinstance(v, (bool, int, float, np.integer, np.floating)):
            import fractions
            return ("num", fractions.Fraction(v.item() if isinstance(v, np.generic) else v))   # exact: 0 != 2**61 - 1
        if isinstance(v, datetime.date):
            return ("date", v.isoformat())
        return ("str", v)
    return (m.risk_basis, m.country, m.currency, m.reinsurance_basis, m.loss_definition, nv(m.per_occurrence_limit),
            tuple(sorted((k, nv(v)) for k, v in m.details.items())),
            tuple(sorted((k, nv(v)) for k, v in m.loss_details.items())))


def is_arr(v):
    return isinstance(v, np.ndarray)


def kind_of(v):
    """('num'|'arr', is_float, length)"""
    if v is None:
        return None
    if is_arr(v):
        return ("arr", v.dtype.kind == "f", v.shape)
    if isinstance(v, (bool, np.bool_)):
        return None
    return ("num", isinstance(v, (float, np.floating)), ())


def link_compat(p, n, mono, carry=CARRY):
    """Python twin of Basis.vals_compatb on two value dicts."""
    if set(p) != set(n):
        return False
    for k in p:
        if k == carry:
            continue
        a, b = kind_of(p[k]), kind_of(n[k])
        if a is None or b is None or a[0] != b[0] or a[2] != b[2]:
            return False
        if mono and a[1] and not b[1]:
            return False
    return True


def std_cum_row(row, mono):
    evs = [c.evaluation_date for c in row]
    return (all(type(c).__name__ != "IncrementalCell" for c in row)
            and all(a < b for a, b in zip(evs, evs[1:]))
            and all(link_compat(a.values, b.values, mono) for a, b in zip(row, row[1:])))


def std_inc_row(row):
    return (all(type(c).__name__ == "IncrementalCell" for c in row)
            and row[0].prev_evaluation_date == row[0].period_start - ONE
            and all(b.prev_evaluation_date == a.evaluation_date for a, b in zip(row, row[1:]))
            and all(link_compat(a.values, b.values, True) for a, b in zip(row, row[1:])))


PYMETA = False      # set per case: compare metadata up to Python == (streams with equal-but-distinct objects)


def canon_sorted(cells, cls=None):
    out = []
    for c in cells:
        t = ct.canon_cell(c, ordered=False)
        if cls:
            t = (cls,) + t[1:]
        if PYMETA:
            t = t[:5] + (py_meta_key(c.metadata),) + t[6:]
        out.append(t)
    return out


# ------------------------------------------------------------------------------------------ direct oracles
def oracle_cum(t, inc, back):
    """C04 on a cumulative (or plain Cell) triangle `t`, judged without any model.  Returns a list of
    complaints (empty = fine)."""
    bad = []
    rows = rows_of(t.cells)
    if not all(std_cum_row(r, False) for r in rows):
        # rows with inconsistent fields must be refused with TriangleError
        first_bad = next(r for r in rows if not std_cum_row(r, False))
        link = next(((a, b) for a, b in zip(first_bad, first_bad[1:]) if not link_compat(a.values, b.values, False)), None)
        evs = [c.evaluation_date for c in first_bad]
        if link and set(link[0].values) != set(link[1].values) and all(a < b for a, b in zip(evs, evs[1:])) \
                and all(link_compat(a.values, b.values, False)
                        for a, b in zip(first_bad, first_bad[1:first_bad.index(link[1])])):
            if not (inc[0] == "err" and type(inc[1]).__name__ == "TriangleError"):
                bad.append(f"row with inconsistent field sets not refused with TriangleError: {res_summary(inc)}")
        return bad
    if inc[0] != "ok":
        return [f"to_incremental raised {type(inc[1]).__name__} on a valid cumulative triangle"]
    irows = rows_of(inc[1].cells)
    if len(inc[1].cells) != len(t.cells) or len(irows) != len(rows):
        return [f"to_incremental: {len(t.cells)} cells in {len(rows)} rows -> {len(inc[1].cells)} cells in {len(irows)} rows"]
    for r, ir in zip(rows, irows):
        if len(r) != len(ir) or not same_row(r[0], ir[0]):
            bad.append("row lengths / keys differ")
            break
        for i, (c, o) in enumerate(zip(r, ir)):
            want_prev = c.period_start - ONE if i == 0 else r[i - 1].evaluation_date
            if type(o).__name__ != "IncrementalCell" or o.evaluation_date != c.evaluation_date \
                    or o.prev_evaluation_date != want_prev:
                bad.append(f"increment {i} of row {c.period_start}: class/eval/prev "
                           f"{type(o).__name__}/{o.evaluation_date}/{getattr(o, 'prev_evaluation_date', None)}, want prev {want_prev}")
                break
            if set(o.values) != set(c.values):
                bad.append(f"increment {i}: key set changed")
                break
            for k, v in c.values.items():
                want = v if (i == 0 or k == CARRY) else v - r[i - 1].values[k]
                if ct.canon_value(o.values[k]) != ct.canon_value(want):
                    bad.append(f"increment {i} of row {c.period_start} field {k}: got {o.values[k]!r} want {want!r}")
                    break
        if bad:
            break
    bad += oracle_sorted(inc[1], "to_incremental result") + (oracle_sorted(back[1], "to_cumulative result") if back[0] == "ok" else [])
    if all(std_cum_row(r, True) for r in rows):
        if back[0] != "ok":
            bad.append(f"to_cumulative(to_incremental(t)) raised {type(back[1]).__name__}")
        elif canon_sorted(back[1].cells) != canon_sorted(t.cells, cls="CumulativeCell"):
            bad.append("to_cumulative(to_incremental(t)) does not reproduce the original cells exactly")
    return bad


def oracle_inc(x, cum, back):
    bad = []
    rows = rows_of(x.cells)
    if all(std_inc_row(r) for r in rows):
        if cum[0] != "ok":
            return [f"to_cumulative raised {type(cum[1]).__name__} on a complete incremental triangle"]
        crows = rows_of(cum[1].cells)
        if len(cum[1].cells) != len(x.cells) or len(crows) != len(rows):
            return ["to_cumulative changed the number of cells/rows"]
        for r, cr in zip(rows, crows):
            acc = None
            for i, (c, o) in enumerate(zip(r, cr)):
                if type(o).__name__ != "CumulativeCell" or o.evaluation_date != c.evaluation_date \
                        or not same_row(o, c) or set(o.values) != set(c.values):
                    bad.append(f"cumulative cell {i} of row {c.period_start}: class/coordinates/keys differ")
                    break
                acc = dict(c.values) if acc is None else {
                    k: (c.values[k] if k == CARRY else acc[k] + c.values[k]) for k in acc}
                for k in acc:
                    if ct.canon_value(o.values[k]) != ct.canon_value(acc[k]):
                        bad.append(f"cumulative cell {i} field {k}: got {o.values[k]!r} want running sum {acc[k]!r}")
                        break
            if bad:
                break
        bad += oracle_sorted(cum[1], "to_cumulative result")
        if back[0] != "ok":
            bad.append(f"to_incremental(to_cumulative(x)) raised {type(back[1]).__name__}")
        elif canon_sorted(back[1].cells) != canon_sorted(x.cells):
            bad.append("to_incremental(to_cumulative(x)) does not reproduce the incremental triangle")
        return bad
    # first row that is not complete: if its first defect is a chain defect / key-set defect -> TriangleError
    fb = next(r for r in rows if not std_inc_row(r))
    broken = False
    if fb[0].prev_evaluation_date != fb[0].period_start - ONE:
        broken = True
    else:
        for a, b in zip(fb, fb[1:]):
            if b.prev_evaluation_date != a.evaluation_date or set(a.values) != set(b.values):
                broken = True
                break
            if not link_compat(a.values, b.values, True):
                break
    if broken and not (cum[0] == "err" and type(cum[1]).__name__ == "TriangleError"):
        bad.append(f"incremental triangle with a broken chain / inconsistent fields not refused: {res_summary(cum)}")
    return bad


def oracle_sorted(tri, what):
    """cells in canonical order: sorted(cells) (which only uses Cell.__lt__) leaves the list as it is"""
    cs = list(tri.cells)
    ref = sorted(cs)
    if len(ref) != len(cs) or any(a is not b for a, b in zip(cs, ref)):
        i = next((k for k, (a, b) in enumerate(zip(cs, ref)) if a is not b), 0)
        return [f"{what}: cells are not in canonical order (first difference at position {i} of {len(cs)})"]
    return []


def oracle_plain_dates(res):
    """results hold plain datetime.date coordinates (family D)"""
    if res[0] != "ok":
        return []
    for c in res[1].cells:
        for name in ("period_start", "period_end", "evaluation_date", "prev_evaluation_date"):
            if hasattr(c, name) and type(getattr(c, name)) is not datetime.date:
                return [f"result cell holds {name} of type {type(getattr(c, name)).__name__}, not datetime.date"]
    return []


def oracle_state(t, r1):
    """family H: the same call twice, and again after the caller edited the first result (dict entries of any
    field; in-place array edits of NON-carried fields -- the carried field's array is shared with the input,
    reported to the lead); the input must not change either."""
    if r1[0] != "ok" or not t.cells:
        return []
    op = (lambda: t.to_cumulative()) if t.is_incremental else (lambda: t.to_incremental())
    before_in = ct.canon_tri(t, ordered=True)
    first = ct.canon_tri(r1[1], ordered=True)
    bad = []
    again = run_impl(op)
    if again[0] != "ok" or ct.canon_tri(again[1], ordered=True) != first:
        bad.append("the same conversion called twice gives different results")
    for c in r1[1].cells:
        for k in list(c.values):
            v = c.values[k]
            if isinstance(v, np.ndarray) and k != CARRY and v.flags.writeable:
                v += 1
            c.values[k] = 987654
        c.values["edited_by_caller"] = 1
    third = run_impl(op)
    if third[0] != "ok" or ct.canon_tri(third[1], ordered=True) != first:
        bad.append("conversion result changes after the caller edited an earlier result")
    if ct.canon_tri(t, ordered=True) != before_in:
        bad.append("editing a conversion result changed the input triangle")
    return bad


def _outcome(res):
    return ("ok", ct.canon_tri(res[1], ordered=True)) if res[0] == "ok" else ("err", type(res[1]).__name__)


def oracle_accumulate(t, r1, r2):
    """Triangles assembled piece by piece -- `acc += piece` on an initially EMPTY accumulator that was inspected
    while empty, `a + b + ...`, `sum(pieces, Triangle([]))` -- hold the same cells as Triangle(all cells) and
    convert exactly like it (both directions, refusals included)."""
    from bermuda import Triangle

    cells = list(t.cells)
    if not cells or len(cells) > 400:
        return []
    groups: dict = {}
    for c in cells:
        groups.setdefault(py_meta_key(c.metadata), []).append(c)
    pieces = list(groups.values()) if len(groups) > 1 else [cells[i:i + 2] for i in range(0, len(cells), 2)]
    want_cells = ct.canon_tri(t, ordered=True)
    want1, want2 = _outcome(r1), _outcome(r2)
    first = (lambda x: x.to_cumulative()) if t.is_incremental else (lambda x: x.to_incremental())
    second = (lambda x: x.to_incremental()) if t.is_incremental else (lambda x: x.to_cumulative())
    bad = []

    def build_iadd():
        acc = Triangle([])
        _ = acc.is_empty, acc.is_incremental, len(acc.slices), acc.to_incremental(), acc.to_cumulative()
        for p_ in pieces:
            acc += Triangle(p_)
        return acc

    def build_add():
        acc = Triangle([])
        _ = acc.is_empty, acc.is_incremental
        for p_ in pieces:
            acc = acc + Triangle(p_)
        return acc

    builders = [("acc += piece (accumulator inspected while empty)", build_iadd), ("a + b + ...", build_add),
                ("sum(pieces, Triangle([]))", lambda: sum((Triangle(p_) for p_ in pieces), Triangle([])))]
    with warnings.catch_warnings():
        warnings.simplefilter("ignore")
        for name, mk in builders:
            try:
                acc = mk()
            except Exception as ex:  # noqa: BLE001
                bad.append(f"assembling the triangle with {name} raised {type(ex).__name__}")
                continue
            if ct.canon_tri(acc, ordered=True) != want_cells:
                bad.append(f"triangle assembled with {name} does not hold the cells of Triangle(all cells)")
                continue
            if acc.is_incremental != t.is_incremental:
                bad.append(f"triangle assembled with {name}: is_incremental is {acc.is_incremental}, cells are "
                           f"{type(acc.cells[0]).__name__}")
            a1 = run_impl(lambda: first(acc))
            if _outcome(a1) != want1:
                bad.append(f"triangle assembled with {name}: first conversion gives {res_summary(a1)}, and not what the "
                           f"conversion of Triangle(all cells) gives ({res_summary(r1)})")
                continue
            a2 = run_impl(lambda: second(a1[1])) if a1[0] == "ok" else a1
            if _outcome(a2) != want2:
                bad.append(f"triangle assembled with {name}: second conversion differs from that of Triangle(all cells)")
    return bad[:2]


def oracle_identity(t):
    bad = []
    if t.is_incremental:
        if t.to_incremental() is not t and canon_sorted(t.to_incremental().cells) != canon_sorted(t.cells):
            bad.append("to_incremental is not the identity on an incremental triangle")
    else:
        if t.to_cumulative() is not t and canon_sorted(t.to_cumulative().cells) != canon_sorted(t.cells):
            bad.append("to_cumulative is not the identity on a cumulative triangle")
    return bad


# ------------------------------------------------------------------------------------------ generation
def rebuild(c, **kw):
    from bermuda import IncrementalCell

    a = dict(period_start=c.period_start, period_end=c.period_end, evaluation_date=c.evaluation_date,
             values=dict(c.values), metadata=c.metadata)
    if isinstance(c, IncrementalCell):
        a["prev_evaluation_date"] = c.prev_evaluation_date
    a.update(kw)
    return type(c)(**a)


def malform(rng, cells, basis):
    """One defect in one row of a valid triangle's cells.  Returns (cells, label) or None."""
    rows = rows_of(cells)
    rng.shuffle(rows)
    kinds = ["fields_drop", "fields_add"] if basis == "cum" else \
        ["remove", "remove", "shift", "shift", "first_prev", "fields_drop", "fields_add"]
    kind = rng.choice(kinds)
    for r in rows:
        others = [c for c in cells if not any(c is y for y in r)]
        if kind == "remove" and len(r) >= 2:
            # never the last cell (that leaves a complete chain); interior cells preferred
            i = rng.randrange(1, len(r) - 1) if len(r) >= 3 and rng.random() < 0.7 else rng.randrange(0, len(r) - 1)
            return others + r[:i] + r[i + 1:], "link_removed_first" if i == 0 else "link_removed"
        if kind == "shift" and len(r) >= 2:
            i = rng.randrange(1, len(r))
            c = r[i]
            cands = [c.prev_evaluation_date - ONE, c.prev_evaluation_date + ONE,
                     c.period_start - ONE, c.prev_evaluation_date - datetime.timedelta(days=31)]
            cands = [p for p in cands if p < c.evaluation_date and p != c.prev_evaluation_date]
            if not cands:
                continue
            return others + r[:i] + [rebuild(c, prev_evaluation_date=rng.choice(cands))] + r[i + 1:], "link_shifted"
        if kind == "first_prev":
            c = r[0]
            cands = [c.period_start, c.period_start - 2 * ONE, c.period_start - datetime.timedelta(days=31)]
            cands = [p for p in cands if p < c.evaluation_date]
            if not cands:
                continue
            return others + [rebuild(c, prev_evaluation_date=rng.choice(cands))] + r[1:], "first_prev"
        if kind in ("fields_drop", "fields_add") and len(r) >= 2:
            i = rng.randrange(0, len(r))
            c = r[i]
            vals = dict(c.values)
            if kind == "fields_drop":
                if len(vals) < 2:
                    continue
                del vals[rng.choice(sorted(vals))]
            else:
                free = [f for f in FIELDS + ["zz_extra"] if f not in vals]
                vals[rng.choice(free)] = 7
            return others + r[:i] + [rebuild(c, values=vals)] + r[i + 1:], "fields_inconsistent"
    return None


def exotic(rng, cells, basis):
    """Unusual value combinations in one row (model == implementation only; the property demands nothing)."""
    rows = [r for r in rows_of(cells) if len(r) >= 2]
    if not rows:
        return None
    r = rng.choice(rows)
    others = [c for c in cells if not any(c is y for y in r)]
    i = rng.randrange(0, len(r))
    c = r[i]
    f = rng.choice(sorted(c.values))
    kind = rng.choice(["none", "none_carry", "len", "len1", "scalar_array", "int_float", "dup", "key_order"])
    vals = dict(c.values)
    if kind == "none":
        vals[f] = None
    elif kind == "none_carry":
        vals[CARRY] = None
        r = [rebuild(y, values={**y.values, CARRY: 5}) if y is not c else y for y in r]
    elif kind == "len":
        vals[f] = np.array([1, 2, 3, 4, 5, 6, 7], dtype=np.int64)
    elif kind == "len1":
        vals[f] = np.array([rng.randint(0, 9)], dtype=rng.choice([np.int64, np.float64]))
    elif kind == "scalar_array":
        vals[f] = rng.choice([3, 2.5]) if isinstance(vals[f], np.ndarray) else np.array([1.5, 2.0], dtype=np.float64)
    elif kind == "int_float":
        v = vals[f]
        vals[f] = (v.astype(np.int64) if v.dtype.kind == "f" else v.astype(np.float64)) if isinstance(v, np.ndarray) \
            else (int(v) if isinstance(v, float) else float(v))
    elif kind == "dup":
        if basis != "cum":
            return None
        r2 = r[:i] + [c, rebuild(c, values={k: (v + 1) for k, v in c.values.items()})] + r[i + 1:]
        return others + r2, "exotic:dup"
    elif kind == "key_order":
        vals = dict(reversed(list(vals.items())))
    r = [rebuild(c, values=vals) if y is c else y for y in r]
    return others + r, "exotic:" + kind


TOP_ATTRS = ("risk_basis", "country", "currency", "reinsurance_basis", "loss_definition", "per_occurrence_limit")


def meta_kwargs(m):
    return dict(risk_basis=m.risk_basis, country=m.country, currency=m.currency,
                reinsurance_basis=m.reinsurance_basis, loss_definition=m.loss_definition,
                per_occurrence_limit=m.per_occurrence_limit, details=dict(m.details),
                loss_details=dict(m.loss_details))


def eq_variant(rng, m, extra):
    """A fresh Metadata object that is `==` m (plus the `extra` details): detail keys inserted in another
    order, integral numbers as int or float."""
    from bermuda import Metadata

    def flip(v):
        if v is None:
            return v
        if isinstance(v, bool):                       # True == 1 == 1.0
            return rng.choice([v, int(v), float(v)])
        if isinstance(v, int) and v in (0, 1) and rng.random() < 0.3:
            return bool(v)
        if isinstance(v, int) and rng.random() < 0.5:
            return float(v)
        if isinstance(v, float) and v == int(v) and rng.random() < 0.5:
            return int(v)
        return v

    kw = meta_kwargs(m)
    det = list({**kw["details"], **extra}.items())
    rng.shuffle(det)
    ld = list({**kw["loss_details"], **{"l_" + k: v for k, v in extra.items()}}.items())
    rng.shuffle(ld)
    kw["details"] = {k: flip(v) for k, v in det}
    kw["loss_details"] = {k: flip(v) for k, v in ld}
    kw["per_occurrence_limit"] = flip(kw["per_occurrence_limit"])
    return Metadata(**kw)


def eqmeta_cells(rng, cells):
    """Every cell gets its own equal-but-distinct Metadata object."""
    extra = {"zz_a": "x", "zz_n": 3, "zz_b": True}
    return [rebuild(c, metadata=eq_variant(rng, c.metadata, extra)) for c in cells]


def direct_meta(m, defs):
    from bermuda import Metadata

    kw = meta_kwargs(m)
    for k, v in defs.items():
        if k in TOP_ATTRS:
            kw[k] = v
        else:
            kw["details"][k] = v
    return Metadata(**kw)


def run_sequence(recipe):
    """hash first / derive_metadata / append a valuation with directly built equal metadata.
    recipe = {"old": [cell json], "prehash": how, "defs": {...}, "new": [cell json]} -> Triangle"""
    from bermuda import Triangle

    with warnings.catch_warnings():
        warnings.simplefilter("ignore")
        old = Triangle([cell_from_json(j) for j in recipe["old"]])
        how = recipe["prehash"]
        if how == "convert":
            old.to_incremental()
        elif how == "slices":
            _ = old.slices, old.metadata
        elif how == "hash":
            _ = [hash(c.metadata) for c in old.cells]
        tagged = old.derive_metadata(**recipe["defs"])
        new_cells = [cell_from_json(j) for j in recipe["new"]]
        new_cells = [rebuild(c, metadata=direct_meta(c.metadata, recipe["defs"])) for c in new_cells]
        return Triangle(list(tagged.cells) + new_cells)


def make_sequence(rng, cells):
    rows = rows_of(cells)
    old_cells = [c for r in rows for c in (r[:-1] if len(r) >= 2 else r)]
    new_src = [r[-1] for r in rows if len(r) >= 2]
    if not new_src:
        return None
    defs = rng.choice([{"line": "auto"}, {"currency": "CHF"}, {"line": "auto", "n2": 5}, {"country": "FR", "tag": "t"}])
    recipe = {"old": [cell_to_json(c) for c in old_cells], "prehash": rng.choice(["convert", "slices", "hash", "none"]),
              "defs": defs, "new": [cell_to_json(c) for c in new_src]}
    return recipe


# ------------------------------------------------------------------------------------------ directed streams
# notes/HARDENING.md families; small, run on every run, judged by the same oracles and Coq verdicts
class NoonDate(datetime.datetime):
    """a datetime subclass carrying a time of day"""


def _row(cls, m, ps, pe, evs, vals, basis):
    """cells of one row; vals(i) -> values dict of the i-th CUMULATIVE cell / i-th increment"""
    from bermuda import IncrementalCell

    out, prev = [], ps - ONE
    for i, e in enumerate(evs):
        if basis == "inc":
            out.append(IncrementalCell(period_start=ps, period_end=pe, prev_evaluation_date=prev, evaluation_date=e,
                                       values=vals(i), metadata=m))
            prev = e
        else:
            out.append(cls(period_start=ps, period_end=pe, evaluation_date=e, values=vals(i), metadata=m))
    return out


def cell_to_json_safe(c):
    try:
        return cell_to_json(c)
    except Exception:  # noqa: BLE001
        return repr(c)


def directed_cases(ctx):
    from bermuda import Cell, CumulativeCell, IncrementalCell, Metadata, Triangle

    rng = random.Random(ctx.seed * 7919 + 4)
    out = []

    def add(label, cells, basis, n_slices=1):
        cells = list(cells)
        rng.shuffle(cells)
        try:
            with warnings.catch_warnings():
                warnings.simplefilter("ignore")
                t = Triangle(cells)
                _ = t.is_incremental, [c.evaluation_date for c in t.cells]
        except Exception as ex:  # noqa: BLE001  -- a valid directed input that cannot even be built
            out.append({"label": label, "basis": basis, "ctor_error": f"{type(ex).__name__}: {ex}",
                        "cells_json": [cell_to_json_safe(c) for c in cells]})
            return
        out.append({"label": label, "basis": basis, "tri": t, "recipe": None,
                    "info": {"layout": "directed", "values": "directed", "n_slices": n_slices, "same_fields": True,
                             "cls": type(cells[0]).__name__ if cells else "none", "fields": [], "basis": basis}})

    def nums(fields=("paid_loss", CARRY), kind=int):
        base = {f: rng.randint(1, 50) for f in fields}
        return lambda i: {f: kind(base[f] + 7 * i * (j + 1)) for j, f in enumerate(fields)}

    Y = lambda y, m, d: D(y, m, d)  # noqa: E731
    evs3 = [D(2021, 12, 31), D(2022, 12, 31), D(2023, 12, 31)]
    P = (D(2021, 1, 1), D(2021, 12, 31))
    for basis in ("cum", "inc"):
        # A -- one slice, every cell another spelling of the same Metadata
        spell = [dict(per_occurrence_limit=1000, details={"coverage": "BI", "state": "NY", "flag": True, "n": 7},
                      loss_details={"a": 1, "b": "x"}),
                 dict(per_occurrence_limit=1000.0, details={"state": "NY", "n": 7.0, "coverage": "BI", "flag": 1},
                      loss_details={"b": "x", "a": 1.0}),
                 dict(per_occurrence_limit=1000, details={"n": 7, "flag": 1.0, "state": "NY", "coverage": "BI"},
                      loss_details={"b": "x", "a": True})]
        v = nums()
        cells = []
        for ps, pe in (P, (D(2022, 1, 1), D(2022, 12, 31))):
            prev = ps - ONE
            for i, e in enumerate([x for x in evs3 if x >= pe]):
                m = Metadata(currency="USD", **spell[(i + ps.year) % 3])
                cells += _row(CumulativeCell, m, ps, pe, [e], lambda _i, i=i: v(i), "cum") if basis == "cum" else \
                    [IncrementalCell(period_start=ps, period_end=pe, prev_evaluation_date=prev, evaluation_date=e,
                                     values=v(i), metadata=m)]
                prev = e
        add("eqmeta:dirA", cells, basis)
        # B -- distinct Metadata that flatten alike: must stay distinct rows
        metas = [Metadata(details={"k": "v"}), Metadata(loss_details={"k": "v"}),
                 Metadata(details={"currency": "USD"}), Metadata(currency="USD"),
                 Metadata(country=""), Metadata(), Metadata(loss_details={"only": 1}), Metadata(loss_details={"only": 2}),
                 Metadata(details={"country": ""}), Metadata(risk_basis=None)]
        for grp in (metas[:4], metas[4:8], metas[6:]):
            cells = []
            for j, m in enumerate(grp):
                v = nums()
                cells += _row(CumulativeCell, m, P[0], P[1], evs3, v, basis)
            add("dir:B:flatten-alike", cells, basis, len(grp))
        # C -- calendar corners (day before period start across Feb / year / era boundaries)
        cal = [(Y(1900, 2, 1), Y(1900, 2, 28), [Y(1900, 2, 28), Y(1900, 3, 1), Y(1900, 3, 31)]),
               (Y(2000, 2, 1), Y(2000, 2, 29), [Y(2000, 2, 29), Y(2000, 3, 1), Y(2000, 3, 31)]),
               (Y(2100, 2, 1), Y(2100, 2, 28), [Y(2100, 2, 28), Y(2100, 3, 1)]),
               (Y(2024, 3, 1), Y(2024, 3, 31), [Y(2024, 3, 30), Y(2024, 3, 31), Y(2024, 4, 1)]),
               (Y(2023, 3, 1), Y(2023, 3, 31), [Y(2023, 3, 1), Y(2023, 3, 31), Y(2023, 4, 30)]),
               (Y(2021, 1, 1), Y(2021, 12, 31), [Y(2021, 12, 30), Y(2021, 12, 31), Y(2022, 1, 1)]),
               (Y(1, 1, 2), Y(1, 12, 31), [Y(1, 12, 31), Y(2, 1, 31)]),
               (Y(9998, 1, 1), Y(9998, 12, 31), [Y(9998, 12, 31), Y(9999, 12, 30)]),
               (Y(1969, 12, 1), Y(1969, 12, 31), [Y(1969, 12, 31), Y(1970, 1, 1), Y(1970, 1, 31)]),
               (Y(2021, 4, 1), Y(2021, 4, 30), [Y(2021, 4, 29), Y(2021, 4, 30), Y(2021, 5, 1), Y(2021, 5, 31)]),
               (Y(2240, 2, 1), Y(2240, 2, 29), [Y(2240, 2, 29), Y(2250, 12, 31)])]
        for half in (cal[:6], cal[6:]):
            cells = []
            for ps, pe, evs in half:
                cells += _row(CumulativeCell, Metadata(), ps, pe, evs, nums(), basis)
                cells += _row(CumulativeCell, Metadata(country="DE"), ps, pe, evs[:2], nums(), basis)
            add("dir:C:calendar", cells, basis, 2)
        # E -- falsy but valid values
        cells = _row(CumulativeCell, Metadata(per_occurrence_limit=0, details={"s": "", "f": False, "z": 0}), P[0], P[1], evs3,
                     lambda i: {"paid_loss": 0, CARRY: 0.0, "reported_loss": 0}, basis)
        cells += _row(CumulativeCell, Metadata(per_occurrence_limit=None, details={"s": "a", "f": True, "z": 2}), P[0], P[1], evs3,
                      lambda i: {"paid_loss": 0.0, CARRY: None, "reported_loss": i}, basis)
        cells += _row(CumulativeCell, Metadata(details={"s": "", "z": 2}), P[0], P[1], evs3, lambda i: {}, basis)
        cells += _row(CumulativeCell, Metadata(country="", details={"z": 0.5}), P[0], P[1], evs3[:1], lambda i: {"paid_loss": 0}, basis)
        add("dir:E:falsy", cells, basis, 4)
        # F -- degenerate shapes
        add("dir:F:empty", [], basis, 0) if basis == "cum" else None
        add("dir:F:one-cell", _row(CumulativeCell, Metadata(), P[0], P[1], evs3[:1], nums(), basis), basis)
        cells = _row(CumulativeCell, Metadata(country="A"), P[0], P[1], evs3,
                     lambda i: {"paid_loss": np.array([1 + i, 2 + i, 3], dtype=np.int64), CARRY: 5.5}, basis)
        cells += _row(CumulativeCell, Metadata(country="B"), P[0], P[1], evs3, nums(kind=float), basis)
        add("dir:F:scalars-after-samples", cells, basis, 2)
        # G -- NumPy corner types
        big = 2 ** 53 + 1
        cells = _row(CumulativeCell, Metadata(country="A"), P[0], P[1], evs3,
                     lambda i: {"paid_loss": np.int64(big + 2 * i), CARRY: np.float64(100.5 + i), "reported_loss": big + 3 * i}, basis)
        cells += _row(CumulativeCell, Metadata(country="B"), P[0], P[1], evs3,
                      lambda i: {"paid_loss": np.array([1 + i, 5, 9 + 2 * i], dtype=np.int32),
                                 "reported_loss": np.array([1.5 + i, 2.25], dtype=np.float32),
                                 "incurred_loss": np.array([3 * i, 7], dtype=np.int16),
                                 CARRY: (np.arange(8, dtype=np.int64) * (i + 2))[::2]}, basis)
        cells += _row(CumulativeCell, Metadata(country="C"), P[0], P[1], evs3,
                      lambda i: {"paid_loss": (np.arange(6, dtype=np.float64) * (i + 1.5))[1::2], "reported_loss": np.array([4.0 + i])}, basis)
        add("dir:G:numpy-types", cells, basis, 3)
        # J -- periods sharing a start / an end, nested, semi-monthly, per-slice ragged
        per = [(Y(2021, 1, 1), Y(2021, 1, 31)), (Y(2021, 1, 1), Y(2021, 3, 31)), (Y(2021, 1, 1), Y(2021, 12, 31)),
               (Y(2021, 2, 1), Y(2021, 2, 28)), (Y(2021, 3, 1), Y(2021, 12, 31)), (Y(2021, 1, 1), Y(2021, 1, 15)),
               (Y(2021, 1, 16), Y(2021, 1, 31)), (Y(2021, 6, 1), Y(2021, 6, 30))]
        evj = [Y(2021, 1, 31), Y(2021, 3, 31), Y(2021, 12, 31), Y(2022, 12, 31)]
        cells = []
        for j, (ps, pe) in enumerate(per):
            cells += _row(CumulativeCell, Metadata(), ps, pe, [e for e in evj if e >= pe], nums(), basis)
            if j % 2 == 0:
                cells += _row(CumulativeCell, Metadata(currency="EUR"), ps, pe, [e for e in evj if e >= pe][:2], nums(), basis)
        add("dir:J:overlapping-periods", cells, basis, 2)
        # L -- valid inputs next to the refusals: must NOT be refused
        v = nums(("paid_loss", "reported_loss", CARRY))
        cells = _row(CumulativeCell, Metadata(), P[0], P[1], evs3, lambda i: dict(reversed(list(v(i).items()))) if i % 2 else v(i), basis)
        cells += _row(CumulativeCell, Metadata(country="A"), Y(2021, 5, 5), Y(2021, 5, 5), [Y(2021, 5, 5), Y(2021, 5, 6)], nums(), basis)
        cells += _row(CumulativeCell, Metadata(country="B"), P[0], P[1], evs3[:2], nums(("paid_loss",)), basis)   # other fields per row
        add("dir:L:valid-near-refusal", cells, basis, 3)
    # D -- coordinates (and prev_evaluation_date) given as datetime / Timestamp / datetime subclass with a time of
    #      day: results and stored dates must be plain datetime.date, complete chains convert, round trips close
    try:
        import pandas as pd
        ts = lambda d: pd.Timestamp(d.year, d.month, d.day, 17, 45)  # noqa: E731
    except Exception:  # noqa: BLE001
        ts = None
    mk = [lambda d: datetime.datetime(d.year, d.month, d.day, 13, 30), lambda d: NoonDate(d.year, d.month, d.day, 12), ts or (lambda d: d)]
    for cls in (CumulativeCell, Cell):
        cells = []
        for j, f in enumerate(mk):
            v = nums()
            m = Metadata(country="S%d" % j)
            for i, e in enumerate(evs3):
                cells.append(cls(period_start=f(P[0]), period_end=f(P[1]), evaluation_date=f(e), values=v(i), metadata=m))
        add("dir:D:datetime-coordinates", cells, "cum", 3)
    cells = []
    for j, f in enumerate(mk):
        v = nums()
        m = Metadata(country="S%d" % j)
        prev = P[0] - ONE
        for i, e in enumerate(evs3):
            g = mk[(i + j) % len(mk)]                     # prev spelled differently from the evaluation date
            cells.append(IncrementalCell(period_start=f(P[0]), period_end=f(P[1]), prev_evaluation_date=g(prev),
                                         evaluation_date=f(e), values=v(i), metadata=m))
            prev = e
    add("dir:D:datetime-coordinates", cells, "inc", 3)
    stored = [type(getattr(c, n)) for c in cells for n in ("period_start", "period_end", "evaluation_date", "prev_evaluation_date")]
    if any(tp is not datetime.date for tp in stored):
        out.append({"label": "dir:D:datetime-coordinates", "basis": "inc",
                    "ctor_error": "IncrementalCell stores a coordinate that is not a plain datetime.date: "
                                  + ", ".join(sorted({tp.__name__ for tp in stored})),
                    "cells_json": [cell_to_json_safe(c) for c in cells]})
    # I -- restated incremental cell (same coordinates, other values): a broken chain, refused
    base = _row(CumulativeCell, Metadata(), P[0], P[1], evs3, nums(), "inc")
    add("dir:I:restated-inc", base + [rebuild(base[1], values={k: x + 1 for k, x in base[1].values.items()})], "inc")
    # L -- complete chain with its LAST links removed is still complete
    add("dir:L:truncated-chain", base[:2], "inc")
    add("dir:L:one-inc-cell", base[:1], "inc")
    add("dir:L:one-inc-cell-detached", base[1:2], "inc")
    return out


HASH_COLLIDERS = [(-1, -2), (-1.0, -2.0), (0, 2 ** 61 - 1), (-1, -2.0), (2 ** 61 - 1, 2 * (2 ** 61 - 1))]


def hashcol_cells(rng, cells, basis):
    """family M: sibling slices whose metadata differ ONLY by values with colliding CPython hashes
    (hash(-1) == hash(-2), hash(0) == hash(2**61-1)), same periods, same or different evaluation dates."""
    from bermuda import Metadata

    where = rng.choice(["details", "loss_details", "per_occurrence_limit"])
    pair = list(rng.choice(HASH_COLLIDERS))
    if rng.random() < 0.3:
        pair.append(rng.choice([-3, 1, 5.5]))            # a third, ordinary sibling
    rng.shuffle(pair)
    base = meta_kwargs(cells[0].metadata)
    metas = []
    for v in pair:
        kw = {k: (dict(x) if isinstance(x, dict) else x) for k, x in base.items()}
        if where == "per_occurrence_limit":
            kw[where] = v
        else:
            kw[where]["layer_code"] = v
        metas.append(Metadata(**kw))
    rows = rows_of([c for c in cells if py_meta_key(c.metadata) == py_meta_key(cells[0].metadata)])
    out = []
    same_evs = rng.random() < 0.5
    for j, m in enumerate(metas):
        for r in rows:
            keep = list(r)
            if j > 0 and not same_evs and len(keep) >= 2:
                del keep[rng.randrange(len(keep))]
            prev = r[0].period_start - ONE
            for c in keep:
                vals = {k: (v + j if v is not None else v) for k, v in c.values.items()}
                if basis == "inc":
                    out.append(rebuild(c, metadata=m, values=vals, prev_evaluation_date=prev))
                    prev = c.evaluation_date
                else:
                    out.append(rebuild(c, metadata=m, values=vals))
    return out


# ------------------------------------------------------------------------------------------ large stream (family Q)
# A handful of big triangles per run, judged by the Python-side oracles only (no Coq literals: the theorems are
# size-independent, it is the correspondence that samples).  Replays record the builder parameters.
def month_end_after(d0, k):
    y, m = d0.year + (d0.month - 1 + k) // 12, (d0.month - 1 + k) % 12 + 1
    ny, nm = (y + 1, 1) if m == 12 else (y, m + 1)
    return D(ny, nm, 1) - ONE


def build_big(params):
    """params: kind, basis, n_slices, n_evs, samples, seed -> Triangle.
    Periods share starts with different lengths (Jan1-Jan31 / Jan1-Mar31 / Jan1-Dec31 / Feb1-Feb28), slices are
    siblings differing in a limit beyond 2**53 or a detail, rows have n_evs monthly evaluations."""
    from bermuda import CumulativeCell, Metadata, Triangle

    rng = random.Random(params["seed"])
    basis, n_evs, samples = params["basis"], params["n_evs"], params.get("samples", 0)
    y0 = params.get("year", 2021)
    periods = [(D(y0, 1, 1), D(y0, 1, 31)), (D(y0, 1, 1), D(y0, 3, 31)), (D(y0, 1, 1), D(y0, 12, 31)), (D(y0, 2, 1), D(y0, 2, 28))]
    periods = periods[:params.get("n_periods", 4)]
    evs = [month_end_after(D(y0, 12, 1), k) for k in range(n_evs)]
    cells = []
    for j in range(params["n_slices"]):
        m = Metadata(per_occurrence_limit=2 ** 53 + j, details={"id": 20240000001 + j}) if j % 2 == 0 else \
            Metadata(per_occurrence_limit=2 ** 53 + j - 1, details={"id": 20240000001 + j, "lob": "x"})
        for ps, pe in periods:
            if samples:
                base = np.arange(2 * samples, dtype=np.int64)
                vals = lambda i: {"paid_loss": (base * (i + 1 + j))[::-2][:samples] if i % 2 else (base[:samples] * (i + 1 + j)),  # noqa: E731
                                  CARRY: np.full(samples, 100.0 + i)}
            else:
                a, b = rng.randint(1, 9), rng.randint(1, 9)
                vals = lambda i, a=a, b=b: {"paid_loss": 2 ** 53 + a * i, "reported_loss": 1.5 * b * i, CARRY: 1000 + i}  # noqa: E731
            cells += _row(CumulativeCell, m, ps, pe, evs, vals, basis)
    rng.shuffle(cells)
    with warnings.catch_warnings():
        warnings.simplefilter("ignore")
        return Triangle(cells)


def big_params(ctx):
    q = ctx.quick
    ps = [dict(kind="slices-of-256", basis="cum", n_slices=5, n_evs=64, seed=ctx.seed),           # 1280 cells
          dict(kind="slices-of-256", basis="inc", n_slices=5, n_evs=64, seed=ctx.seed + 1),
          dict(kind="long-rows", basis="cum", n_slices=2, n_evs=70, n_periods=3, seed=ctx.seed + 2),   # rows of 70 > 65
          dict(kind="long-rows", basis="inc", n_slices=2, n_evs=70, n_periods=3, seed=ctx.seed + 3),
          dict(kind="big-samples", basis="cum", n_slices=1, n_evs=3, n_periods=2, samples=5000, seed=ctx.seed + 4),
          dict(kind="big-samples", basis="inc", n_slices=1, n_evs=3, n_periods=2, samples=4096, seed=ctx.seed + 5)]
    if True:        # cheap enough (a few seconds in total) to run in both tiers
        ps += [dict(kind="2100-cells", basis="cum", n_slices=3, n_evs=176, seed=ctx.seed + 6),          # 2112 cells
               dict(kind="3100-cells", basis="inc", n_slices=6, n_evs=130, seed=ctx.seed + 7),          # 3120 cells
               dict(kind="1080-months", basis="cum", n_slices=1, n_evs=1080, n_periods=3, year=1950, seed=ctx.seed + 8),
               dict(kind="1080-months", basis="inc", n_slices=1, n_evs=1080, n_periods=2, year=1950, seed=ctx.seed + 9),
               dict(kind="1e5-samples", basis="cum", n_slices=1, n_evs=3, n_periods=1, samples=100000, seed=ctx.seed + 10),
               dict(kind="1e4-samples", basis="inc", n_slices=2, n_evs=4, n_periods=2, samples=10000, seed=ctx.seed + 11)]
    return ps


def big_case(params):
    t = build_big(params)
    return {"label": "big:" + params["kind"], "basis": params["basis"], "tri": t, "recipe": None, "big": params,
            "info": {"layout": "big", "values": "big", "n_slices": params["n_slices"], "same_fields": True,
                     "cls": type(t.cells[0]).__name__, "fields": [], "basis": params["basis"]}}


def large_stream(ctx, early_cases):
    """-> list of (case, complaints).  Big triangles; a long chain of conversions; many distinct Metadata in one
    process and then a re-check of the earliest small cases (process-wide state: caches, pools)."""
    from bermuda import CumulativeCell, Metadata, Triangle

    out = []
    for prm in big_params(ctx):
        c = big_case(prm)
        bad = oracle_sorted(c["tri"], "Triangle(cells)") + oracles_for(c)
        ctx.hist(f"label:{c['label']} ({len(c['tri'].cells)} cells, python oracles only)")
        out.append((c, bad))
    # long chain: 40 alternating conversions of one medium triangle
    prm = dict(kind="long-chain", basis="cum", n_slices=2, n_evs=12, seed=ctx.seed + 20)
    c = big_case(prm)
    t = c["tri"]
    bad = []
    with warnings.catch_warnings():
        warnings.simplefilter("ignore")
        inc0 = t.to_incremental()
        want_inc, want_cum = ct.canon_tri(inc0, ordered=False), ct.canon_tri(inc0.to_cumulative(), ordered=False)
        cur = inc0
        for k in range(40 if ctx.quick else 200):
            cur = cur.to_cumulative() if cur.is_incremental else cur.to_incremental()
            if ct.canon_tri(cur, ordered=False) != (want_inc if cur.is_incremental else want_cum):
                bad.append(f"conversion number {k + 2} of an alternating chain differs from the first round trip")
                break
    ctx.hist("label:big:long-chain")
    out.append((c, bad))
    # many distinct Metadata in one process, then the earliest cases again
    n_meta = 2200 if ctx.quick else 4300
    nbad = []
    with warnings.catch_warnings():
        warnings.simplefilter("ignore")
        for i in range(n_meta):
            m = Metadata(details={"n": i, "k": "v%d" % (i % 7)}, per_occurrence_limit=i)
            ev = [month_end_after(D(1930, 1, 1), i % 1100), month_end_after(D(1930, 1, 1), i % 1100 + 1 + i % 3)]
            tt = Triangle([CumulativeCell(D(1930, 1, 1), D(1930, 1, 31), e, {"paid_loss": i + 10 * k_, CARRY: 5}, m)
                           for k_, e in enumerate(ev)])
            inc = tt.to_incremental()
            ok = (len(inc.cells) == 2 and inc.cells[1].prev_evaluation_date == ev[0] and inc.cells[1].values["paid_loss"] == 10
                  and inc.cells[0].prev_evaluation_date == D(1929, 12, 31)
                  and [x.values["paid_loss"] for x in inc.to_cumulative().cells] == [i, i + 10])
            if not ok and not nbad:
                nbad.append(f"conversion number {i} of many small triangles with distinct Metadata is wrong")
    ctx.hist(f"label:big:many-metadata ({n_meta} distinct)")
    mm = {"label": "big:many-metadata", "basis": "cum", "tri": tt, "recipe": None, "big": {"kind": "many-metadata", "n": n_meta},
          "info": {"layout": "big", "values": "big", "n_slices": 1, "same_fields": True, "cls": "CumulativeCell", "fields": [], "basis": "cum"}}
    out.append((mm, nbad))
    for c in early_cases:
        bad = oracles_for(c)
        if bad:
            out.append((c, ["after the large work: " + b for b in bad]))
    ctx.hist("label:re-check of the earliest cases after the large work", len(early_cases))
    return out


def gen_cases(ctx, n_total):
    """-> list of dicts {label, basis, cells(list), info}"""
    from bermuda import Cell, Triangle

    rng = random.Random(ctx.seed * 1000003 + 404)
    g = Gen(rng)
    cases = []
    layouts = ["regular", "ragged", "holey", "irregular", "single_period", "single_lag", "daily"]
    vkinds = ["int", "float", "arr_int", "arr_float", "mixed"]
    k = 0
    while len(cases) < n_total:
        k += 1
        layout = layouts[k % len(layouts)] if rng.random() < 0.8 else rng.choice(layouts[:4])
        values = vkinds[(k // 7) % len(vkinds)]
        basis = "inc" if k % 3 == 0 else "cum"
        u = rng.random()
        stream = "malformed" if u < (0.45 if basis == "inc" else 0.12) else ("exotic" if u > 0.88 else "valid")
        if stream == "valid" and u > 0.76:
            stream = "eqmeta"
        elif stream == "valid" and u > 0.70 and basis == "cum":
            stream = "seq"
        elif stream == "valid" and u > 0.64:
            stream = "hashcol"
        n_slices = rng.choice([1, 1, 2, 3, 4])
        same_fields = rng.random() < 0.75
        fields = rng.sample(FIELDS, rng.randint(1, 3))
        if rng.random() < 0.6 and CARRY not in fields:
            fields[rng.randrange(len(fields))] = CARRY
            fields = list(dict.fromkeys(fields))
        n_lags = rng.randint(1, 4)
        if stream == "malformed":
            n_lags = rng.randint(3, 5)
            if layout in ("single_lag", "holey"):
                layout = "regular"
        kw = dict(layout=layout, basis=basis, n_slices=n_slices, values=values, fields=fields,
                  n_periods=rng.randint(1, 3), n_lags=n_lags, same_fields=same_fields,
                  n_samples=rng.choice([1, 2, 3]))
        if basis == "cum" and rng.random() < 0.12:
            kw["cls"] = Cell
        cells, info = g.cells(**kw)
        label = "valid"
        if stream == "malformed":
            m = malform(rng, cells, basis)
            if m is None:
                continue
            cells, label = m
        elif stream == "exotic":
            m = exotic(rng, cells, basis)
            if m is None:
                continue
            cells, label = m
        elif stream == "eqmeta":
            cells, label = eqmeta_cells(rng, cells), "eqmeta"
            if rng.random() < 0.3:
                m = malform(rng, cells, basis)
                if m is not None:
                    cells, label = m[0], "eqmeta+" + m[1]
        elif stream == "hashcol":
            cells, label = hashcol_cells(rng, cells, basis), "hashcol"
        recipe = None
        if stream == "seq":
            recipe = make_sequence(rng, cells)
            if recipe is None:
                continue
            label = "seq"
        rng.shuffle(cells)
        with warnings.catch_warnings():
            warnings.simplefilter("ignore")
            try:
                t = run_sequence(recipe) if recipe else Triangle(cells)
            except Exception:  # noqa: BLE001
                continue
        info = dict(info)
        info["same_fields"] = same_fields
        info["cls"] = type(cells[0]).__name__
        cases.append({"label": label, "basis": basis, "tri": t, "info": info, "recipe": recipe})
    return cases


def metadata_print_consistent(t, strict=True):
    """Metadata printed identically must be `==`; for the standard streams (strict) also the converse, so
    that grouping by `==` and by structure coincide (hypothesis meta_separated of the theorems)."""
    ms = []
    for c in t.cells:
        if not any(c.metadata is m for m in ms):
            ms.append(c.metadata)
    for i, a in enumerate(ms):
        for b in ms[i + 1:]:
            same_print = ct.cmeta(a) == ct.cmeta(b)
            eq = py_meta_key(a) == py_meta_key(b)      # the harness's own reading of ==, never the library's
            if same_print and not eq:
                return False
            if strict and eq and not same_print:
                return False
    return True


# ------------------------------------------------------------------------------------------ Coq side
CASE_HEADER = ct.COQ_HEADER + "From Bermuda Require Import Model.Order Model.Basis Model.BasisPy Proofs.BasisCanon.\n"


def case_term(case):
    t = case["tri"]
    if t.is_incremental:
        r1 = run_impl(lambda: t.to_cumulative())
        r2 = run_impl(lambda: r1[1].to_incremental()) if r1[0] == "ok" else r1
    else:
        r1 = run_impl(lambda: t.to_incremental())
        r2 = run_impl(lambda: r1[1].to_cumulative()) if r1[0] == "ok" else r1
    case["r1"], case["r2"] = r1, r2
    return f"({ccells_sorted(t.cells)},\n {cres(r1)},\n {cres(r2)})"


CHECK_DEFS = """
Definition d := std_desc.
(* hypotheses of the whole-triangle theorems (Props/C04.v section 7) on the printed input *)
Definition canon (t : list cell) : bool :=
  res_eqb (mk_triangle t) (Ok t) && comparableb t && meta_separatedb t.
(* per case: [model(first op) == impl; model(second op)(impl first result) == impl second result; spec;
   identity; constructor-composed model].  The model is the one that groups by Python == (BasisPy):
   the input is normalised to the first ==-metadata of each row, as tlz.groupby keeps it. *)
Definition verdict (c : list cell * result (list cell) * result (list cell)) : list bool :=
  let '(t, r1, r2) := c in
  let nt := py_normalise t in
  if is_incremental t then
    [ res_eqb (to_cumulative_py d t) r1;
      res_eqb (bind r1 (to_incremental_py d)) r2;
      spec_inc nt r1 r2;
      res_eqb (to_incremental_py d t) (Ok t);
      implb (canon t) (res_eqb (bind (to_cumulative d t) mk_triangle) r1
                       && res_eqb (bind r1 (fun c => bind (to_incremental d c) mk_triangle)) r2) ]
  else
    [ res_eqb (to_incremental_py d t) r1;
      res_eqb (bind r1 (to_cumulative_py d)) r2;
      spec_cum nt r1 r2;
      res_eqb (to_cumulative_py d t) (Ok t);
      implb (canon t) (res_eqb (bind (to_incremental d t) mk_triangle) r1
                       && res_eqb (bind r1 (fun c => bind (to_cumulative d c) mk_triangle)) r2) ].
Definition hyp (c : list cell * result (list cell) * result (list cell)) : nat :=
  let '(t0, _, _) := c in
  let t := py_normalise t0 in
  if is_incremental t then (if inc_hyp t then 2 else if first_bad_is_broken (rows_of t) then 1 else 0)
  else (if cum_hyp true t then 3 else if cum_hyp false t then 2 else if first_bad_cum_is_keys (rows_of t) then 1 else 0).
Definition vs := map verdict cases.
Eval vm_compute in (failing (map (fun v => nth 0 v false) vs), failing (map (fun v => nth 1 v false) vs),
                    failing (map (fun v => nth 2 v false) vs), failing (map (fun v => nth 3 v false) vs),
                    failing (map (fun v => nth 4 v false) vs)).
Eval vm_compute in map hyp cases.
Eval vm_compute in failing (map (fun c => let '(t, _, _) := c in canon t) cases).
"""


def parse_nat_list(s):
    s = s.strip().strip("[]")
    return [int(x.replace("%nat", "")) for x in s.split(";") if x.strip()]


def parse_quad(val):
    parts = val.strip().lstrip("(").rstrip(")").split("],")
    out = []
    for p in parts:
        out.append(parse_nat_list(p.replace("[", "").replace("]", "").strip().strip(",")))
    return out


def correspondence(ctx, cases, per_file):
    files = []
    for fi in range(0, len(cases), per_file):
        chunk = cases[fi:fi + per_file]
        terms = []
        kept = []
        for c in chunk:
            try:
                terms.append(case_term(c))
                kept.append(c)
            except ct.NotRepresentable:
                ctx.hist("skipped:not-representable")
        f = ctx.build / f"cases_{fi // per_file}.v"
        f.write_text(CASE_HEADER + "Definition cases : list (list cell * result (list cell) * result (list cell)) := [\n"
                     + ";\n".join(terms) + "].\n" + CHECK_DEFS)
        files.append((f, kept))
    res = ctx.coqc_many([f for f, _ in files], jobs=16, timeout=900)
    # a compile that died without a Coq error message (killed from outside / out of memory on a shared
    # machine) is retried once with fewer parallel jobs
    again = [f for f, _ in files if res[f][0] != 0 and "Error" not in res[f][1]]
    if again:
        ctx.notes.append(f"{len(again)} case file(s) re-compiled after dying without a Coq error")
        res.update(ctx.coqc_many(again, jobs=4, timeout=1800))
    problems = []          # (kind, case, which)
    n = 0
    for f, kept in files:
        rc, out = res[f]
        vals = parse_coq_eval(out) if rc == 0 else []
        if rc != 0 or len(vals) < 3:
            problems.append(("coqc-failed", None, f"{f.name}: {out[-800:]}"))
            continue
        quad = parse_quad(vals[-3])
        hyps = parse_nat_list(vals[-2])
        not_canon = set(parse_nat_list(vals[-1]))
        for i in sorted(not_canon):
            # only the stream with equal-but-distinct metadata objects may leave the hypotheses of section 7
            if not kept[i]["label"].startswith("eqmeta"):
                problems.append(("input is not canonical for Model/Order.mk_triangle (sorted, comparable, "
                                 "==-metadata identical)", kept[i], 4))
        n += len(kept)
        for i, h in enumerate(hyps):
            kept[i]["hyp"] = h
        names = ["model!=impl (first conversion)", "model!=impl (second conversion)", "spec", "model!=impl (identity)",
                 "input not canonical for Model/Order.mk_triangle, or constructor-composed model != impl"]
        for which, idxs in enumerate(quad):
            for i in idxs:
                problems.append((names[which], kept[i], which))
    return problems, n


# ------------------------------------------------------------------------------------------ run / replay
def case_data(case, extra=None):
    if case.get("big"):
        d = {"label": case["label"], "info": case["info"], "big": case["big"], "n_cells": len(case["tri"].cells),
             "how_to_rebuild": "harness.c04.build_big(big) -> Triangle; then to_incremental()/to_cumulative()"}
    else:
        d = {"label": case["label"], "info": case["info"], "cells": [cell_to_json(c) for c in case["tri"].cells]}
    if case.get("recipe"):
        d["recipe"] = case["recipe"]
        d["how_to_rebuild"] = ("old = Triangle(recipe.old); prehash (convert/slices/hash); tagged = "
                               "old.derive_metadata(**recipe.defs); full = Triangle(tagged.cells + recipe.new with "
                               "directly built equal Metadata); full.to_incremental()")
    if "r1" in case:
        d["impl_first"] = res_summary(case["r1"])
        d["impl_second"] = res_summary(case["r2"])
    if extra:
        d.update(extra)
    return d


def oracles_for(case):
    t = case["tri"]
    if "r1" not in case or case.get("r1_edited"):
        case.pop("r1_edited", None)
        if t.is_incremental:
            r1 = run_impl(lambda: t.to_cumulative())
            r2 = run_impl(lambda: r1[1].to_incremental()) if r1[0] == "ok" else r1
        else:
            r1 = run_impl(lambda: t.to_incremental())
            r2 = run_impl(lambda: r1[1].to_cumulative()) if r1[0] == "ok" else r1
        case["r1"], case["r2"] = r1, r2
    global PYMETA
    PYMETA = case["label"].startswith(("eqmeta", "seq"))
    try:
        bad = oracle_identity(t) + oracle_plain_dates(case["r1"]) + oracle_plain_dates(case["r2"])
        if case["label"].startswith("exotic"):
            return bad
        if t.is_incremental:
            bad += oracle_inc(t, case["r1"], case["r2"])
        else:
            bad += oracle_cum(t, case["r1"], case["r2"])
        bad += oracle_accumulate(t, case["r1"], case["r2"])
        # last: it edits case["r1"] (already judged above, already printed for Coq)
        bad += oracle_state(t, case["r1"])
        case["r1_edited"] = True
        return bad
    finally:
        PYMETA = False


def shrink(case, budget=400):
    """Greedy: drop cells while the direct oracles still complain (keeps replays small)."""
    from bermuda import Triangle

    if case.get("recipe") or case.get("big"):   # state built by the sequence / size is the point
        out = dict(case)
        out["complaints"] = oracles_for(case)
        return out
    cells = list(case["tri"].cells)

    def complains(trial):
        try:
            with warnings.catch_warnings():
                warnings.simplefilter("ignore")
                c2 = {"label": case["label"], "basis": case["basis"], "info": case["info"], "tri": Triangle(trial)}
            return bool(oracles_for(c2))
        except Exception:  # noqa: BLE001
            return False

    progress = True
    while progress and budget > 0:
        progress = False
        # whole rows first, then single cells
        for r in rows_of(cells):
            trial = [c for c in cells if not any(c is y for y in r)]
            budget -= 1
            if trial and complains(trial):
                cells, progress = trial, True
        i = 0
        while i < len(cells) and budget > 0 and len(cells) > 1:
            budget -= 1
            trial = cells[:i] + cells[i + 1:]
            if complains(trial):
                cells, progress = trial, True
            else:
                i += 1
    with warnings.catch_warnings():
        warnings.simplefilter("ignore")
        out = {"label": case["label"], "basis": case["basis"], "info": case["info"], "tri": Triangle(cells)}
    out["complaints"] = oracles_for(out)
    return out


def translate_and_prove(ctx):
    import shutil

    from translate import t_basis

    try:
        gen = t_basis.translate(REPO)
    except t_basis.Unsupported as ex:
        ctx.obligation("T-basis translation of bermuda/utils/basis.py", False, str(ex))
        ctx.log(f"translator failed closed: {ex}")
        return False
    except Exception as ex:  # noqa: BLE001
        ctx.obligation("T-basis translation of bermuda/utils/basis.py", False, repr(ex))
        return False
    ctx.obligation("T-basis translation of bermuda/utils/basis.py", True)
    (ctx.build / "GenBasis.v").write_text(gen)
    rc, out = ctx.coqc(ctx.build / "GenBasis.v", timeout=300)
    ctx.obligation("GenBasis.v compiles", rc == 0, out)
    if rc != 0:
        return False
    shutil.copy(COQ / "GenProps" / "C04_gen.v", ctx.build / "C04_gen.v")
    ok, _ = ctx.prove(ctx.build / "C04_gen.v", timeout=600)
    return ok


def run(ctx):
    ctx.rule = (
        "cases: Gen(...).cells with basis cum/inc (and plain Cell), 1-4 slices, layouts regular/ragged/holey/"
        "irregular/single_period/single_lag/daily, values int/dyadic float/int64 array/float64 array/mixed per field, "
        "same_fields True/False, earned_premium present in ~60%; 30% malformed (one link removed, one link shifted, "
        "first prev != period_start-1, one cell with a different field set), 12% unusual values (None, array length "
        "mismatch, length-1 arrays, scalar/array mix, int/float mix, duplicate cells, key order); ~12% 'eqmeta': every "
        "cell carries its own equal-but-distinct Metadata object (detail keys in another insertion order, 7 vs 7.0), "
        "partly with a malformed chain; ~5% 'seq': hash/convert an old triangle, derive_metadata, append a valuation "
        "with directly built equal Metadata, convert; ~5% 'hashcol': sibling slices differing only by hash-colliding values "
        "(-1/-2, -1.0/-2.0, 0/2**61-1) in a detail, loss_detail or the limit, same or different evaluation dates; plus ~60 directed cases per run for the input families of "
        "notes/HARDENING.md (A equal spellings incl. True/1/1.0, B flatten-alike metadata, C calendar corners, D datetime/"
        "Timestamp coordinates, E falsy values and empty value dicts, F empty/one-cell/scalars-after-samples, G numpy scalar "
        "and narrow/strided array types, H repeated calls and calls after the caller edited a result (every case; also every case re-assembled with `+=` on an inspected empty accumulator, `+` and sum() and converted again), I restated "
        "cells, J overlapping/nested periods, L valid inputs next to each refusal). Non-trivial = "
        "distinct canonical input with >= 2 cells or a refusal.")
    ctx.assumptions += [
        "harness prints value dicts with sorted keys; result key order (Python set iteration) is not modelled",
        "final Triangle(...) sort is not modelled: model rows are concatenated in group order and compared "
        "position by position with result.cells",
        "NumPy/CPython semantics of +,- on int/float/int64/float64-array operands as stated in Model/Basis.v "
        "(val_op), validated by the correspondence run incl. None/length-mismatch/broadcast cases",
        "values are dyadic (n/1024) so that float arithmetic is exact",
    ]
    # concurrent runs of this check (e.g. one against /repo, one against a scratch copy) must not share
    # generated files: everything of this run lives in build/C04/run-<pid>/
    import os
    import shutil
    import time as _time

    base = ctx.build
    for old in base.glob("run-*"):
        try:
            if _time.time() - old.stat().st_mtime > 3600:
                shutil.rmtree(old, ignore_errors=True)
        except OSError:
            pass
    ctx.build = base / f"run-{os.getpid()}"
    ctx.build.mkdir(parents=True, exist_ok=True)
    try:
        _run(ctx)
    finally:
        if not ctx.violations and all(o["ok"] for o in ctx.obligations):
            shutil.rmtree(ctx.build, ignore_errors=True)       # kept for inspection otherwise
        ctx.build = base


def _run(ctx):
    # 1. proofs
    ctx.audit_tree(["Model/Basis.v", "Props/C04.v", "Props/C04b.v"] + [str(p.relative_to(COQ)) for p in sorted((COQ / "Proofs").glob("Basis*.v"))])
    ctx.prove_static("Props/C04.v", timeout=900)
    ctx.prove_static("Props/C04b.v", timeout=300)      # fields are paired by NAME (key-order independence)
    translate_and_prove(ctx)
    # 2. cases
    n_total = 960 if ctx.quick else 6400
    cases = [c for c in gen_cases(ctx, n_total)]
    for c in directed_cases(ctx):
        if "ctor_error" in c:
            ctx.violation("impl-violation", f"valid directed input ({c['label']}) is not built as the property requires: "
                          f"{c['ctor_error']}", {"label": c["label"], "cells": c["cells_json"], "error": c["ctor_error"]},
                          found_input=True)
        else:
            cases.append(c)
    keep = []
    for c in cases:
        if not metadata_print_consistent(c["tri"], strict=not c["label"].startswith("eqmeta")):
            ctx.hist("skipped:metadata-eq-vs-print")
            continue
        keep.append(c)
    cases = keep
    problems, n = correspondence(ctx, cases, per_file=60 if ctx.quick else 200)
    ctx.count(evaluations=5 * n, traces=2 * n)
    ctx.log(f"correspondence: {n} cases, {len(problems)} failing verdicts")
    ctx.obligation("correspondence model == implementation and executable spec on implementation outputs",
                   not problems, repr([(p[0], p[1] and p[1]["label"]) for p in problems[:5]]))
    # 3. direct oracles on every case
    hyp_names = {0: "no-demand", 1: "refusal-demanded", 2: "structure/roundtrip", 3: "structure+exact-roundtrip"}
    n_viol = 0
    seen = set()
    for c in cases:
        if "r1" not in c:               # not printable as a Coq term: the Python oracles still judge it
            ctx.hist(f"label:{c['label']} (python oracles only)")
            bad = oracles_for(c)
            if bad and n_viol < 3:
                n_viol += 1
                ctx.violation("impl-violation", f"C04 fails on the implementation ({c['label']}): {bad[0]}",
                              case_data(c, {"complaints": bad}), found_input=True)
            continue
        t = c["tri"]
        ctx.hist(f"label:{c['label']}")
        ctx.hist(f"basis:{c['basis']}/{c['info']['cls']}")
        ctx.hist(f"layout:{c['info']['layout']}")
        ctx.hist(f"values:{c['info']['values']}")
        ctx.hist(f"slices:{c['info']['n_slices']}")
        ctx.hist(f"same_fields:{c['info']['same_fields']}")
        ctx.hist(f"outcome:{res_summary(c['r1']).split(':')[0]}" + (":" + type(c['r1'][1]).__name__ if c['r1'][0] == 'err' else ""))
        ctx.hist("spec-hypothesis:" + hyp_names.get(c.get("hyp"), "?"))
        if len(t.cells) >= 2 or c["r1"][0] == "err":
            key = tuple(canon_sorted(t.cells))
            if key not in seen:
                seen.add(key)
                ctx.nontriv(key)
        bad = oracles_for(c)
        if bad and n_viol < 3:
            n_viol += 1
            small = shrink(c)
            bad = small["complaints"] or bad
            ctx.violation("impl-violation", f"C04 fails on the implementation ({c['label']}): {bad[0]}",
                          case_data(small, {"complaints": bad, "shrunk_from_cells": len(c["tri"].cells)}),
                          found_input=True)
    # 3b. large stream (family Q), Python-side oracles only
    t_big = time.time()
    for c, bad in large_stream(ctx, [c for c in cases if "tri" in c and not c.get("recipe")][:25]):
        ctx.count(evaluations=2, traces=2)
        if bad and n_viol < 5:
            n_viol += 1
            ctx.violation("impl-violation", f"C04 fails on the implementation ({c['label']}): {bad[0]}",
                          case_data(c, {"complaints": bad}), found_input=True)
    ctx.notes.append(f"large stream (family Q) judged by the Python-side oracles only, no Coq literals: {time.time() - t_big:.1f} s")
    for c in cases[:3]:
        ctx.sample({"label": c["label"], "info": c["info"], "n_cells": len(c["tri"].cells),
                    "first": res_summary(c["r1"]), "second": res_summary(c["r2"])})
    # 4. verdict problems that the Python oracles did not explain
    if problems and not n_viol:
        for kind, case, which in problems[:3]:
            if case is None:
                ctx.violation("obligation", "case file did not compile: " + str(which), {}, found_input=False)
            elif which == 2:
                ctx.violation("impl-violation", f"executable specification (Basis.spec_*) is false on the implementation's "
                              f"output ({case['label']})", case_data(case, {"verdict": kind}), found_input=True)
            else:
                ctx.violation("correspondence", f"{kind} ({case['label']})", case_data(case, {"verdict": kind}),
                              found_input=False)


def replay(ctx, data):
    from bermuda import Triangle

    if "cells" not in data and not data.get("big"):
        print("replay data:", json.dumps(data)[:2000])
        return 1
    if data.get("big") and data["big"].get("kind") == "many-metadata":
        print("replay: re-run ./check C04 (the failure needs the whole many-metadata loop of the large stream)")
        return 1
    if data.get("big"):
        t = build_big(data["big"])
        case = {"label": data.get("label", "replay"), "tri": t, "info": data.get("info", {}), "basis": "?", "big": data["big"]}
        bad = oracle_sorted(t, "Triangle(cells)") + oracles_for(case)
        print(f"input: build_big({data['big']}) = {len(t.cells)} cells; first conversion -> {res_summary(case['r1'])}")
        for b in bad:
            print("  property fails:", b)
        return 1 if bad else 0
    with warnings.catch_warnings():
        warnings.simplefilter("ignore")
        t = run_sequence(data["recipe"]) if data.get("recipe") else Triangle([cell_from_json(j) for j in data["cells"]])
    case = {"label": data.get("label", "replay"), "tri": t, "info": data.get("info", {}), "basis": "?",
            "recipe": data.get("recipe")}
    bad = oracles_for(case)
    print(f"input: {len(t.cells)} cells, incremental={t.is_incremental}; first conversion -> {res_summary(case['r1'])}, "
          f"second -> {res_summary(case['r2'])}")
    for b in bad:
        print("  property fails:", b)
    if bad:
        return 1
    # no complaint from the Python oracles: evaluate model/spec in Coq on this one case
    import os

    ctx.ensure_static()
    ctx.build = ctx.build / f"replay-{os.getpid()}"
    ctx.build.mkdir(parents=True, exist_ok=True)
    problems, n = correspondence(ctx, [case], per_file=1)
    for kind, _, which in problems:
        print("  Coq verdict:", kind if isinstance(which, int) else which)
    return 1 if problems else 0
