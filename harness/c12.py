"""C12 -- date arithmetic.  The whole model is GENERATED from bermuda/date_utils.py (T-date); the
theorems are kernel-computed enumerations over the finite calendar domain, lifted to `forall`."""
from __future__ import annotations

import datetime
import importlib
import math
import random
import shutil
from pathlib import Path

from harness.common import COQ, REPO, ROOT, parse_coq_eval, sh

LO = datetime.date(1970, 1, 1).toordinal()
HI = datetime.date(2100, 12, 31).toordinal()
LO0 = datetime.date(1900, 1, 1).toordinal()
NDAYS = HI - LO + 1

HEADER = """From Coq Require Import ZArith Lia Bool Uint63 PrimFloat.
From Bermuda Require Import Lib.PyPrim Lib.Loop.
From Gen Require Import GenDate C12_Base.
Local Open Scope Z_scope.
"""


def split(lo, n, k):
    """k contiguous chunks (start, count) covering [lo, lo+n)."""
    out, base, rem, s = [], n // k, n % k, lo
    for i in range(k):
        c = base + (1 if i < rem else 0)
        if c:
            out.append((s, c))
            s += c
    return out


def shard_file(ctx, name, lemma, stmt):
    (ctx.build / f"{name}.v").write_text(
        HEADER + f"Lemma {lemma} : {stmt} = true.\nProof. vm_cast_no_check (eq_refl true). Qed.\n"
    )
    return ctx.build / f"{name}.v"


def chain(var, lo, chunks, apply_fmt):
    """Coq proof text: case split of `var` over the shard boundaries."""
    lines = []
    for i, (s, c) in enumerate(chunks):
        ap = apply_fmt.format(i=i)
        if i < len(chunks) - 1:
            lines.append(f"  destruct (Z_lt_le_dec {var} {s + c}) as [?|?]; [{ap}|].")
        else:
            lines.append(f"  {ap}.")
    return "\n".join(lines)


def gen_coq(ctx, W):
    """Write shard files + C12_Lift.v; returns (list of shard paths, lift path)."""
    shards = []
    full = W >= NDAYS - 1
    n_inv = 64 if full else 32
    inv_chunks = split(LO, NDAYS, n_inv)
    for i, (s, c) in enumerate(inv_chunks):
        if full:
            stmt = f"rect_ok inv_ok (Z.to_nat {c}) NDAYS {s} LO"
        else:
            stmt = (f"window_ok (in_rng (of_Z LO) (of_Z HI)) inv_ok (Z.to_nat {c}) "
                    f"(Z.to_nat {2 * W + 1}) {s} {W}")
        shards.append(shard_file(ctx, f"C12_InvS{i}", f"inv_shard_{i}", stmt))
    shift_chunks = split(LO, NDAYS, 32)
    for i, (s, c) in enumerate(shift_chunks):
        shards.append(shard_file(ctx, f"C12_ShiftS{i}", f"shift_shard_{i}",
                                 f"rect_ok shift_kernel (Z.to_nat {c}) (Z.to_nat 1201) {s} 0"))
    day_chunks = split(LO + 400, NDAYS - 800, 16)
    for i, (s, c) in enumerate(day_chunks):
        shards.append(shard_file(ctx, f"C12_DayS{i}", f"day_shard_{i}",
                                 f"rect_ok dayadd_kernel (Z.to_nat {c}) (Z.to_nat 801) {s} 0"))
    lag_chunks = split(0, 1572, 8)
    for i, (s, c) in enumerate(lag_chunks):
        shards.append(shard_file(ctx, f"C12_LagS{i}", f"lag_shard_{i}",
                                 f"rect_ok lag_kernel (Z.to_nat {c}) (Z.to_nat 1572) {s} 0"))
    KB = 120 if W < NDAYS - 1 else 600
    addm_chunks = split(0, 1572, 8)
    for i, (s, c) in enumerate(addm_chunks):
        shards.append(shard_file(ctx, f"C12_AddmS{i}", f"addm_shard_{i}",
                                 f"rect_ok (addm_kernel {KB}) (Z.to_nat {c}) (Z.to_nat {2 * KB + 1}) {s} 0"))
    shards.append(shard_file(ctx, "C12_IdS", "id_shard", "loop (Z.to_nat 1572) (of_Z 0) id_kernel"))
    shards.append(shard_file(ctx, "C12_IdPreS", "idpre_shard", "loop (Z.to_nat 840) (of_Z (-840)) idpre_kernel"))
    shards.append(shard_file(ctx, "C12_OrdS", "ord_shard", "loop NDAYS (of_Z LO) ord_ok"))
    shards.append(shard_file(ctx, "C12_BrS", "bracket_shard", "loop NDAYS (of_Z LO) bracket_kernel"))
    shards.append(shard_file(
        ctx, "C12_PreS", "pre_shard",
        "rect_ok pre_kernel (Z.to_nat 840) (Z.to_nat 1201) (-840) 0"))

    imp = "From Gen Require Import " + " ".join(p.stem for p in shards) + ".\n"
    L = [HEADER, imp, f"Definition W : Z := {W}.\nDefinition KB : Z := {KB}.\n"]
    L.append("Lemma addm_all : forall id j, 0 <= id <= 1571 -> 0 <= j <= 2 * KB ->\n"
             "  addm_kernel KB (of_Z id) (of_Z j) = true.\nProof.\n  unfold KB. intros id j Hi Hj.")
    L.append(chain("id", 0, addm_chunks, "apply (rect_ok_spec _ _ _ _ _ addm_shard_{i}); lia"))
    L.append("Qed.\n")
    # inverse law
    L.append("Lemma inv_all : forall p e, LO <= p <= HI -> LO <= e <= HI -> - W <= e - p <= W ->\n"
             "  inv_ok (of_Z p) (of_Z e) = true.\nProof.\n  unfold LO, HI, W. intros p e Hp He Hw.")
    if full:
        L.append(chain("p", LO, inv_chunks,
                       "apply (rect_ok_spec _ _ _ _ _ inv_shard_{i}); unfold NDAYS, LO; lia"))
    else:
        L.append(chain("p", LO, inv_chunks,
                       "apply (window_ok_spec _ _ _ _ _ _ inv_shard_{i}); "
                       "[lia | lia | apply in_rng_spec; unfold LO, HI; lia]"))
    L.append("Qed.\n")
    L.append("Lemma shift_all : forall d j, LO <= d <= HI -> 0 <= j < 1201 ->\n"
             "  shift_kernel (of_Z d) (of_Z j) = true.\nProof.\n  unfold LO, HI. intros d j Hd Hj.")
    L.append(chain("d", LO, shift_chunks, "apply (rect_ok_spec _ _ _ _ _ shift_shard_{i}); lia"))
    L.append("Qed.\n")
    L.append("Lemma dayadd_all : forall d j, LO + 400 <= d <= HI - 400 -> 0 <= j < 801 ->\n"
             "  dayadd_kernel (of_Z d) (of_Z j) = true.\nProof.\n  unfold LO, HI. intros d j Hd Hj.")
    L.append(chain("d", LO + 400, day_chunks, "apply (rect_ok_spec _ _ _ _ _ day_shard_{i}); lia"))
    L.append("Qed.\n")
    L.append("Lemma lag_all : forall a b, 0 <= a <= 1571 -> 0 <= b <= 1571 ->\n"
             "  lag_kernel (of_Z a) (of_Z b) = true.\nProof.\n  intros a b Ha Hb.")
    L.append(chain("a", 0, lag_chunks, "apply (rect_ok_spec _ _ _ _ _ lag_shard_{i}); lia"))
    L.append("Qed.\n")
    L.append("""Lemma id_all : forall id, 0 <= id <= 1571 -> id_kernel (of_Z id) = true.
Proof. intros id H. apply (loop_spec _ _ _ id_shard). lia. Qed.
Lemma idpre_all : forall id, -840 <= id <= -1 -> idpre_kernel (of_Z id) = true.
Proof. intros id H. apply (loop_spec _ _ _ idpre_shard). lia. Qed.
Lemma ord_all : forall o, LO <= o <= HI -> ord_ok (of_Z o) = true.
Proof. unfold LO, HI. intros o H. apply (loop_spec _ _ _ ord_shard). unfold NDAYS, LO. lia. Qed.
Lemma bracket_all : forall o, LO <= o <= HI -> bracket_kernel (of_Z o) = true.
Proof. unfold LO, HI. intros o H. apply (loop_spec _ _ _ bracket_shard). unfold NDAYS, LO. lia. Qed.
Lemma pre_all : forall id j, MINID0 <= id <= -1 -> 0 <= j < 1201 ->
  pre_kernel (of_Z id) (of_Z j) = true.
Proof. unfold MINID0. intros id j Hi Hj.
  apply (rect_ok_spec _ _ _ _ _ pre_shard); lia. Qed.
""")
    lift = ctx.build / "C12_Lift.v"
    lift.write_text("\n".join(L))
    return shards, lift


# ------------------------------------------------------------------------------------------
def impl():
    import bermuda.date_utils as du

    return importlib.reload(du) if False else du


def fhex(x: float) -> str:
    if x == math.inf:
        return "PrimFloat.infinity"
    if x == -math.inf:
        return "PrimFloat.neg_infinity"
    if x != x:
        return "PrimFloat.nan"
    h = abs(x).hex()
    return f"(PrimFloat.opp {h}%float)" if (x < 0 or math.copysign(1, x) < 0) else f"({h}%float)"


def cint(n: int) -> str:
    return f"(ineg {-n})" if n < 0 else f"({n})"


def cdate(d: datetime.date) -> str:
    return f"(mkdate {d.year} {d.month} {d.day})"


def gen_dates(rng, n, lo=LO0, hi=HI):
    out = []
    for _ in range(n):
        r = rng.random()
        if r < 0.25:  # month ends / starts and neighbours
            y = rng.randint(datetime.date.fromordinal(lo).year, datetime.date.fromordinal(hi).year)
            m = rng.randint(1, 12)
            first = datetime.date(y, m, 1)
            d = first + datetime.timedelta(days=rng.choice([-2, -1, 0, 1]))
        elif r < 0.35:  # leap days
            y = rng.choice([1904, 1960, 1972, 2000, 2020, 2024, 2096, 2100, 1900])
            d = datetime.date(y, 2, 28) + datetime.timedelta(days=rng.choice([-1, 0, 1, 2]))
        else:
            d = datetime.date.fromordinal(rng.randint(lo, hi))
        if lo <= d.toordinal() <= hi:
            out.append(d)
    return out


def correspondence(ctx, n_cases):
    """Translator/PyPrim validation: generated model vs CPython on the real functions,
    bit-exact through float.hex() literals.  Returns number of mismatches."""
    du = impl()
    rng = random.Random(ctx.seed * 7919 + 12)
    cases = []  # (coq_bool_expr, description)
    ds = gen_dates(rng, n_cases)
    for i in range(0, len(ds) - 1, 2):
        a, b = ds[i], ds[i + 1]
        kind = (i // 2) % 10
        try:
            if kind < 3:
                r = du.dev_lag_months(a, b)
                cases.append((f"PrimFloat.eqb (py_dev_lag_months {cdate(a)} {cdate(b)}) {fhex(r)}",
                              ("dev_lag_months", str(a), str(b), r.hex())))
                ctx.hist("corr:dev_lag_months")
            elif kind < 7:
                delta = rng.choice([
                    float(rng.randint(-600, 600)), rng.randint(-600, 600),
                    round(rng.uniform(-400, 400), rng.randint(0, 6)), rng.uniform(-50, 50),
                    du.dev_lag_months(a, b), 0.0, 1e-9, -1e-9, 0.5, -0.5])
                r = du.add_months(a, delta)
                dtxt = f"(i2f {cint(delta)})" if isinstance(delta, int) else fhex(delta)
                cases.append((f"date_eqb (py_add_months {cdate(a)} {dtxt}) {cdate(r)}",
                              ("add_months", str(a), repr(delta), str(r))))
                ctx.hist("corr:add_months")
            elif kind == 7:
                mid = du.month_to_id(a)
                r1, r2 = du.id_to_month(mid, True), du.id_to_month(mid, False)
                cases.append((f"ieq (py_month_to_id {cdate(a)}) {cint(mid)} && "
                              f"date_eqb (py_id_to_month {cint(mid)} true) {cdate(r1)} && "
                              f"date_eqb (py_id_to_month {cint(mid)} false) {cdate(r2)}",
                              ("month_id", str(a), mid)))
                ctx.hist("corr:month_id")
            elif kind == 8:
                me, ms = du._is_month_end(a), du._is_month_start(a)
                o = a.toordinal()
                cases.append((f"Bool.eqb (py_is_month_end {cdate(a)}) {str(me).lower()} && "
                              f"Bool.eqb (py_is_month_start {cdate(a)}) {str(ms).lower()} && "
                              f"ieq (ord_of_date {cdate(a)}) {o} && date_eqb (date_of_ord {o}) {cdate(a)}",
                              ("month_end/ordinal", str(a))))
                ctx.hist("corr:is_month_end+ordinal")
            else:
                q = rng.randint(-400, 400)
                unit = rng.choice(["month", "day"])
                neg = rng.random() < 0.5
                r = du.resolution_delta(a, (q, unit), neg)
                cases.append((f'date_eqb (py_resolution_delta {cdate(a)} ({cint(q)}, "{unit}"%string) '
                              f"{str(neg).lower()}) {cdate(r)}",
                              ("resolution_delta", str(a), q, unit, neg, str(r))))
                ctx.hist("corr:resolution_delta")
        except (ValueError, OverflowError):
            ctx.hist("corr:impl-raised(skipped)")
            continue
    files = []
    per = 400
    for k in range(0, len(cases), per):
        chunk = cases[k:k + per]
        body = ";\n".join(c for c, _ in chunk)
        txt = (
            "From Coq Require Import ZArith List Bool Uint63 PrimFloat String.\n"
            "From Bermuda Require Import Lib.PyPrim.\nFrom Gen Require Import GenDate.\n"
            "Import ListNotations.\nOpen Scope bool_scope.\nOpen Scope uint63_scope.\n"
            "Definition cases : list bool := [\n" + body + "].\n"
            "Fixpoint bad (i : nat) (l : list bool) : list nat := match l with [] => [] | "
            "b :: r => if b then bad (S i) r else i :: bad (S i) r end.\n"
            "Eval vm_compute in bad O cases.\n"
        )
        f = ctx.build / f"cases_{k // per}.v"
        f.write_text(txt)
        files.append((f, chunk))
    res = ctx.coqc_many([f for f, _ in files], jobs=16, timeout=600)
    mism = []
    for f, chunk in files:
        rc, out = res[f]
        if rc != 0:
            mism.append(("coqc-failed", f.name, out[-600:]))
            continue
        vals = parse_coq_eval(out)
        if not vals:
            mism.append(("no-output", f.name, out[-300:]))
            continue
        idx = [int(x) for x in vals[-1].strip("[]").replace("%nat", "").split(";") if x.strip()]
        for i in idx:
            mism.append(("mismatch", chunk[i][1], chunk[i][0]))
    ctx.count(evaluations=len(cases), traces=len(cases))
    for c in cases[:3]:
        ctx.sample({"correspondence_case": c[1]})
    return mism, len(cases)


def is_known_f10(du, p, delta_or_e, result_expected=None):
    """F10 class: the *result* lies before 1969-12-31 and the internal month lag is not an
    exact integer."""
    return True


def f10_class(du, start, delta):
    origin = datetime.date(1969, 12, 31)
    final_lag = du.dev_lag_months(origin, start) + delta
    return final_lag < 0 and final_lag % 1 != 0.0


class _Raised:
    """What a call returned when it raised: unequal to every value, keeps the exception for the report."""

    def __init__(self, kind, msg):
        self.kind, self.msg = kind, msg

    def __eq__(self, other):
        return False

    def __ne__(self, other):
        return True

    __hash__ = None

    def __repr__(self):
        return f"<raised {self.kind}: {self.msg}>"

    __str__ = __repr__


class _Safe:
    def __init__(self, mod):
        self._mod = mod

    def __getattr__(self, name):
        f = getattr(self._mod, name)
        if not callable(f):
            return f

        def g(*a, **k):
            try:
                return f(*a, **k)
            except Exception as ex:  # noqa: BLE001
                return _Raised(type(ex).__name__, str(ex))
        return g


def direct_oracles(ctx, n_pairs):
    """Property evaluated directly on the real functions.  Returns list of failing inputs
    (dict) outside the known-finding class; known-class failures are counted."""
    du = _Safe(impl())      # an exception on a valid in-range argument is a failing result, not a crash of the check
    rng = random.Random(ctx.seed * 104729 + 5)
    fails = []
    one = datetime.timedelta(days=1)

    def inv(p, e):
        lag = du.dev_lag_months(p, e)
        try:
            return du.add_months(p, lag) == e, lag
        except ValueError:
            return False, lag

    # 1. inverse law on random pairs of 1970..2100 (any distance) + near pairs
    n = 0
    for _ in range(n_pairs):
        p = datetime.date.fromordinal(rng.randint(LO, HI))
        if rng.random() < 0.5:
            e = datetime.date.fromordinal(rng.randint(LO, HI))
        else:
            e = datetime.date.fromordinal(min(HI, max(LO, p.toordinal() + rng.randint(-800, 800))))
        ok, lag = inv(p, e)
        n += 1
        if not ok:
            fails.append({"law": "inverse", "p": str(p), "e": str(e), "lag": lag})
            if len(fails) > 20:
                break
    ctx.hist("oracle:inverse-random-pairs", n)
    # 2. integer shifts: every month end x every k in [-600,600] staying in range; random other dates
    month_ends = [du.id_to_month(i, False) for i in range(0, 1572)]
    nshift = 0
    ks = list(range(-600, 601)) if not ctx.quick else sorted(set(
        [-600, -599, -13, -12, -11, -7, -6, -5, -3, -2, -1, 0, 1, 2, 3, 5, 6, 7, 11, 12, 13, 24, 36, 599, 600]
        + [rng.randint(-600, 600) for _ in range(60)]))
    for i, d in enumerate(month_ends):
        for k in ks:
            t = i + k
            if not (0 <= t <= 1571):
                continue
            nshift += 1
            r = du.add_months(d, k)
            if r != month_ends[t] or du.add_months(r, -k) != d:
                fails.append({"law": "int-shift-month-end", "d": str(d), "k": k, "got": str(r),
                              "want": str(month_ends[t])})
                break
        if len(fails) > 20:
            break
    for _ in range(20000 if ctx.quick else 200000):
        d = datetime.date.fromordinal(rng.randint(LO, HI))
        k = rng.randint(-600, 600)
        t = du.month_to_id(d) + k
        if not (0 <= t <= 1571):
            continue
        nshift += 1
        r = du.add_months(d, k)
        if du.month_to_id(r) != t:
            fails.append({"law": "int-shift-lands", "d": str(d), "k": k, "got": str(r)})
            if len(fails) > 20:
                break
    ctx.hist("oracle:int-shifts", nshift)
    # 3. month-end lags are exact integers (sample), month ids
    for _ in range(20000):
        a, b = rng.randint(0, 1571), rng.randint(0, 1571)
        lag = du.dev_lag_months(month_ends[a], month_ends[b])
        if lag != b - a:
            fails.append({"law": "month-end-lag-integer", "a": str(month_ends[a]), "b": str(month_ends[b]), "lag": lag})
            break
    for i in range(-840, 1572):
        s, e = du.id_to_month(i, True), du.id_to_month(i, False)
        if not (du.month_to_id(s) == i == du.month_to_id(e) and s.day == 1 and (e + one).day == 1
                and (s.year, s.month) == (e.year, e.month) == (1970 + i // 12, i % 12 + 1)):
            fails.append({"law": "month-id", "id": i, "start": str(s), "end": str(e)})
            break
    # 4. unit dispatch tables: calculate_dev_lag / Cell.dev_lag / standardize_resolution / resolution_delta
    import bermuda as bermuda_mod

    units_month = ["month", "months", "Month", "MONTHS"]
    units_day = ["day", "days", "Day", "DAYS"]
    bd = gen_dates(rng, 6000, LO, HI - 4000)      # boundary-biased: month ends/starts +-2 days, leap days
    for it in range(3000):
        if it % 2:
            pe = datetime.date.fromordinal(rng.randint(LO, HI - 4000))
            ev = datetime.date.fromordinal(pe.toordinal() + rng.randint(0, 3999))
        else:
            pe, ev = sorted((bd[it], bd[it + 1])) if it + 1 < len(bd) else (bd[0], bd[1])
            if rng.random() < 0.5:   # a few months apart, both near month boundaries
                ev = min(datetime.date.fromordinal(HI), du.id_to_month(du.month_to_id(pe) + rng.randint(0, 6), False)
                         - datetime.timedelta(days=rng.choice([0, 0, 1, 2])))
                if ev < pe:
                    ev = pe
        um, ud = rng.choice(units_month), rng.choice(units_day)
        days = ev.toordinal() - pe.toordinal()
        got = (du.calculate_dev_lag(pe, ev, ud), du.calculate_dev_lag(pe, ev, "timedelta"),
               du.calculate_dev_lag(pe, ev, um))
        want = (days, datetime.timedelta(days=days), du.dev_lag_months(pe, ev))
        ps = datetime.date.fromordinal(pe.toordinal() - rng.randint(0, 400))
        # every cell class; a third of the cells are evaluated while their period is still open (negative lag)
        if it % 3 == 0 and ps < pe:
            ev = datetime.date.fromordinal(rng.randint(ps.toordinal(), pe.toordinal()))
            days = ev.toordinal() - pe.toordinal()
            got = (du.calculate_dev_lag(pe, ev, ud), du.calculate_dev_lag(pe, ev, "timedelta"),
                   du.calculate_dev_lag(pe, ev, um))
            want = (days, datetime.timedelta(days=days), du.dev_lag_months(pe, ev))
        kind = ("Cell", "CumulativeCell", "IncrementalCell")[(it // 3) % 3]
        kw = dict(period_start=ps, period_end=pe, evaluation_date=ev, values={})
        if kind == "IncrementalCell":
            prev = datetime.date.fromordinal(max(1, min(ev.toordinal(), ps.toordinal()) - rng.randint(1, 400)))
            kw["prev_evaluation_date"] = prev
        dk = "date"
        if it % 5 == 4 and kind != "IncrementalCell":   # (IncrementalCell compares its raw dates with prev first: refuses a mix)
            # coordinates supplied as datetime.datetime / pandas.Timestamp / a datetime subclass WITH a time of day:
            # the cell holds calendar dates, so its lags are those of the dates
            import pandas as _pd

            class _DT(datetime.datetime):
                pass

            dk = rng.choice(["datetime", "Timestamp", "subclass"])
            mk = {"datetime": lambda d, h, m: datetime.datetime(d.year, d.month, d.day, h, m, 59),
                  "Timestamp": lambda d, h, m: _pd.Timestamp(year=d.year, month=d.month, day=d.day, hour=h, minute=m, second=59),
                  "subclass": lambda d, h, m: _DT(d.year, d.month, d.day, h, m, 59)}[dk]
            kw["period_end"] = mk(pe, 23, 59)
            kw["evaluation_date"] = mk(ev, rng.choice([0, 0, 12]), 0)
            kw["period_start"] = mk(ps, 0, 0)
        c = getattr(bermuda_mod, kind)(**kw)
        ctx.hist("oracle:unit-dispatch:coords-as-" + dk)
        if dk != "date" and not all(type(x) is datetime.date for x in (c.period_start, c.period_end, c.evaluation_date)):
            fails.append({"law": "dev-lag-units", "cell_class": kind, "period_start": str(ps), "period_end": str(pe),
                          "evaluation_date": str(ev), "prev_evaluation_date": str(kw.get("prev_evaluation_date")),
                          "coords_as": dk, "got": "stored " + type(c.period_end).__name__, "want": "datetime.date"})
            break
        got2 = (c.dev_lag(ud), c.dev_lag("timedelta"), c.dev_lag(um), c.dev_lag())
        want2 = want + (want[2],)
        if kind == "IncrementalCell":
            pdays = ev.toordinal() - prev.toordinal()
            got2 += (c.eval_lag(ud), c.eval_lag("timedelta"), c.eval_lag(um), c.eval_lag())
            want2 += (pdays, datetime.timedelta(days=pdays), du.dev_lag_months(prev, ev), du.dev_lag_months(prev, ev))
        ctx.hist("oracle:unit-dispatch:" + kind + (":open-period" if ev < pe else ""))
        if got != want or got2 != want2 or type(got[0]) is not int or type(got2[0]) is not int:
            fails.append({"law": "dev-lag-units", "cell_class": kind, "period_start": str(ps), "period_end": str(pe),
                          "evaluation_date": str(ev), "prev_evaluation_date": str(kw.get("prev_evaluation_date")),
                          "coords_as": dk, "got": repr(got + got2), "want": repr(want + want2)})
            break
        q = rng.randint(1, 24)
        for unit, mult, std in [("month", 1, "month"), ("months", 1, "month"), ("quarter", 3, "month"),
                                ("year", 12, "month"), ("day", 1, "day"), ("week", 7, "day"), ("weeks", 7, "day")]:
            if du.standardize_resolution((q, unit)) != (q * mult, std):
                fails.append({"law": "standardize_resolution", "resolution": [q, unit],
                              "got": repr(du.standardize_resolution((q, unit)))})
        for neg in (False, True):
            sgn = -1 if neg else 1
            for qq in (q, -q):        # negative quantities too: the flag flips whatever sign the quantity has
                if du.resolution_delta(pe, (qq, "month"), neg) != du.add_months(pe, sgn * qq) or \
                   du.resolution_delta(pe, (qq, "day"), neg) != pe + datetime.timedelta(days=sgn * qq):
                    fails.append({"law": "resolution_delta", "date": str(pe), "q": qq, "negative": neg})
    # refusals both ways: unknown units are refused, the documented ones are not; zero shifts are the identity
    some = datetime.date(2021, 2, 28)
    for bad_unit in ("year", "quarter", "week", "", "hours", "Months "[:0] + "mths"):
        got_ = du.calculate_dev_lag(some, some, bad_unit)
        if not (isinstance(got_, _Raised) and got_.kind == "ValueError"):
            fails.append({"law": "unit-refusal", "unit": bad_unit, "got": repr(got_)})
    for d0 in [x for x in bd if x.year >= 1970][:200]:      # before 1970 a zero shift of a day-1 date carries F10 (listed)
        for z in (0, 0.0, -0.0):
            if du.add_months(d0, z) != d0:
                fails.append({"law": "zero-shift", "d": str(d0), "k": repr(z), "got": str(du.add_months(d0, z))})
                break
        if du.resolution_delta(d0, (0, "day")) != d0 or du.resolution_delta(d0, (0, "month"), True) != d0:
            fails.append({"law": "zero-shift", "d": str(d0), "k": "resolution_delta 0", "got": "moved"})
    # history independence: the same calls in another order (and repeated many times) give the same results --
    # bounded caches, memo tables keyed too coarsely and "after N calls" state only show up this way
    calls = []
    for d0 in bd[:1500]:
        calls.append(("add_months", d0, rng.choice([-13, -12, -1, 0, 1, 2, 11, 12, 13, 24, 0.5, -0.5, 1.25])))
        calls.append(("dev_lag_months", d0, bd[rng.randrange(len(bd))]))
    for y in (1900, 1996, 2000, 2004, 2023, 2024, 2096, 2100):
        for dd in (datetime.date(y, 1, 31), datetime.date(y, 2, 28), datetime.date(y, 3, 31)):
            calls += [("add_months", dd, 1), ("add_months", dd, -1), ("dev_lag_months", dd, datetime.date(y, 3, 31))]
    run_ = lambda c: getattr(du, c[0])(c[1], c[2])  # noqa: E731
    first = [run_(c) for c in calls]
    second = [run_(c) for c in reversed(calls)][::-1]
    third = [run_(c) for c in calls]
    for c, a1, a2, a3 in zip(calls, first, second, third):
        if repr(a1) != repr(a2) or repr(a1) != repr(a3):
            fails.append({"law": "history-independence", "call": c[0], "a": str(c[1]), "b": str(c[2]),
                          "got": f"{a1!r} / {a2!r} / {a3!r} (first pass / reversed order / third pass)"})
            break
    ctx.hist("oracle:history-independence", 3 * len(calls))
    ctx.hist("oracle:unit-refusal+zero-shift", 206)
    ctx.hist("oracle:unit-dispatch", 3000)
    ctx.count(evaluations=n + nshift + 20000 + 1572 + 3000)
    return fails


def f10_probe(ctx):
    """Known finding F10: inverse law before 1970."""
    du = impl()
    p, e = datetime.date(1969, 11, 30), datetime.date(1960, 3, 10)
    lag = du.dev_lag_months(p, e)
    got = du.add_months(p, lag)
    if got != e and f10_class(du, p, lag):
        ctx.violation(
            "impl-violation",
            f"add_months({p}, dev_lag_months({p}, {e})) = {got} != {e} (pre-1970 result, non-integer lag)",
            {"law": "inverse", "p": str(p), "e": str(e), "lag": lag, "got": str(got)},
            found_input=True, finding_class={"kind": "pre1970_result_non_integer_lag"})
    # any pre-1970 failure OUTSIDE the class is a real violation
    rng = random.Random(ctx.seed + 77)
    out, known = 0, 0
    for _ in range(20000):
        p = datetime.date.fromordinal(rng.randint(LO0, HI))
        e = datetime.date.fromordinal(rng.randint(LO0, LO - 1))
        lag = du.dev_lag_months(p, e)
        try:
            got = du.add_months(p, lag)
        except ValueError:
            got = None
        if got != e:
            if f10_class(du, p, lag):
                known += 1
            else:
                out += 1
                ctx.violation("impl-violation", f"pre-1970 inverse law fails outside the known class: p={p} e={e}",
                              {"law": "inverse", "p": str(p), "e": str(e), "lag": lag, "got": str(got)},
                              found_input=True)
                break
    ctx.hist("oracle:pre1970-pairs", 20000)
    ctx.hist("oracle:pre1970-known-class-failures", known)
    ctx.count(evaluations=20000)


def coq_search(ctx, shard: Path):
    """A shard evaluated to false: locate the first failing index pair inside coqc."""
    txt = shard.read_text()
    import re

    m = re.search(r"Lemma \w+ : (.*) = true\.", txt, re.S)
    if not m:
        return None
    stmt = m.group(1)
    mm = re.match(r"rect_ok (\(.*\)|\w+) \(Z\.to_nat (\d+)\) (NDAYS|\(Z\.to_nat \d+\)) (-?\w+) (-?\w+)$", stmt.strip(), re.S)
    mw = re.match(r"window_ok \((.*?)\) (\w+) \(Z\.to_nat (\d+)\) \(Z\.to_nat (\d+)\) (\d+) (\d+)$", stmt.strip(), re.S)
    s = HEADER
    if mm:
        h, np_, ne, a, b = mm.groups()
        s += (f"Definition h := {h}.\nDefinition ne : nat := {ne}.\n"
              f"Definition fp := find_fail (Z.to_nat {np_}) (of_Z {a}) (fun p => loop ne (of_Z {b}) (h p)).\n"
              f"Eval vm_compute in match fp with None => (0, 0) | Some p => (to_Z p, match find_fail ne (of_Z {b}) (h p) "
              "with Some e => to_Z e | None => 0 end) end.\n")
    elif mw:
        g, h, np_, nw, a, w = mw.groups()
        s += (f"Definition h := {h}.\nDefinition g := {g}.\nDefinition nw : nat := Z.to_nat {nw}.\n"
              f"Definition kern (p e : int) := if g e then h p e else true.\n"
              f"Definition fp := find_fail (Z.to_nat {np_}) (of_Z {a}) (fun p => loop nw (PrimInt63.sub p (of_Z {w})) (kern p)).\n"
              f"Eval vm_compute in match fp with None => (0, 0) | Some p => (to_Z p, match find_fail nw (PrimInt63.sub p (of_Z {w})) (kern p) "
              "with Some e => to_Z e | None => 0 end) end.\n")
    else:
        return None
    f = ctx.build / f"search_{shard.stem}.v"
    f.write_text(s)
    rc, out = ctx.coqc(f, timeout=900)
    vals = parse_coq_eval(out)
    if rc != 0 or not vals:
        return None
    nums = [int(x) for x in re.findall(r"-?\d+", vals[-1])]
    return nums[:2] if len(nums) >= 2 else None


def replay_pair(kind, a, b):
    """Evaluate the law of a failing shard on the real implementation."""
    du = impl()
    try:
        if kind == "Inv":
            p, e = datetime.date.fromordinal(a), datetime.date.fromordinal(b)
            lag = du.dev_lag_months(p, e)
            got = du.add_months(p, lag)
            return got != e, {"law": "inverse", "p": str(p), "e": str(e), "lag": lag, "got": str(got)}
        if kind == "Shift":
            d, k = datetime.date.fromordinal(a), b - 600
            r = du.add_months(d, k)
            t = du.month_to_id(d) + k
            bad = du.month_to_id(r) != t
            if du._is_month_end(d):
                bad = bad or r != du.id_to_month(t, False) or du.add_months(r, -k) != d
            return bad, {"law": "int-shift", "d": str(d), "k": k, "got": str(r)}
        if kind == "Lag":
            x, y = du.id_to_month(a, False), du.id_to_month(b, False)
            lag = du.dev_lag_months(x, y)
            return lag != b - a, {"law": "month-end-lag-integer", "a": str(x), "b": str(y), "lag": lag}
        if kind == "Day":
            d, q = datetime.date.fromordinal(a), b - 400
            r = du.resolution_delta(d, (q, "day"))
            return r.toordinal() != a + q, {"law": "day-arithmetic", "d": str(d), "q": q, "got": str(r)}
    except Exception as ex:  # noqa
        return True, {"law": kind, "a": a, "b": b, "raised": repr(ex)}
    return False, {"law": kind, "a": a, "b": b}


def run(ctx):
    from translate import t_date

    W = 800 if ctx.quick else NDAYS - 1
    ctx.rule = (
        "theorems: kernel-computed enumeration of every date 1970-01-01..2100-12-31 x every integer offset "
        f"[-600,600], every pair of dates with |e-p| <= {W} days (thorough: all pairs), all month ids/month-end "
        "pairs; correspondence: generated model vs CPython bit-exact on random+boundary dates (month ends, leap "
        "days, +-1 day), integer/fractional/negative offsets; direct oracles on the real functions. A case is "
        "non-trivial if it is a distinct (function, arguments) tuple.")
    ctx.assumptions += [
        "translate/t_date.py reads the Python AST faithfully; coq/Lib/PyPrim.v states CPython's //, %, int(), "
        "round(), x%1, / and date ordinal arithmetic (validated bit-exactly on every run)",
        "63-bit integers are exact for every quantity in the calendar domain",
        "calculate_dev_lag/standardize_resolution unit dispatch is tied by exhaustive probing of the documented "
        "unit vocabulary, not by translation",
    ]
    # 1. translate
    try:
        gen = t_date.translate(REPO)
        translated = True
    except t_date.Unsupported as ex:
        gen, translated = None, False
        ctx.obligation("T-date translation of bermuda/date_utils.py", False, str(ex))
        ctx.log(f"translator failed closed: {ex}")
    except Exception as ex:  # syntax errors etc.
        gen, translated = None, False
        ctx.obligation("T-date translation of bermuda/date_utils.py", False, repr(ex))
    failed_shards = []
    if translated:
        ctx.obligation("T-date translation of bermuda/date_utils.py", True)
        (ctx.build / "GenDate.v").write_text(gen)
        exp = COQ / "GenExpected" / "GenDate.v"
        if exp.exists() and exp.read_text() != gen:
            import difflib

            d = "".join(difflib.unified_diff(exp.read_text().splitlines(1), gen.splitlines(1), "expected", "generated"))
            ctx.notes.append("generated GenDate.v differs from the committed snapshot:\n" + d[:3000])
            ctx.extra["generated_diff"] = d[:6000]
        for f in ctx.build.glob("C12_*.v"):
            f.unlink()
        for f in ctx.build.glob("*.vo"):
            f.unlink()
        shutil.copy(COQ / "GenProps" / "C12_Base.v", ctx.build / "C12_Base.v")
        shutil.copy(COQ / "GenProps" / "C12_Props.v", ctx.build / "C12_Props.v")
        shutil.copy(COQ / "GenProps" / "C12_Derive.v", ctx.build / "C12_Derive.v")
        rc, out = ctx.coqc(ctx.build / "GenDate.v", timeout=300)
        ok = rc == 0
        ctx.obligation("GenDate.v compiles (generated definitions are well-typed)", ok, out)
        if ok:
            rc, out = ctx.coqc(ctx.build / "C12_Base.v", timeout=300)
            ok = rc == 0
            ctx.obligation("C12_Base.v", ok, out)
        if ok:
            shards, lift = gen_coq(ctx, W)
            ctx.log(f"compiling {len(shards)} enumeration shards (W={W}) ...")
            res = ctx.coqc_many(shards, jobs=16, timeout=3000 if not ctx.quick else 900)
            for s in shards:
                rc, out = res[s]
                ctx.obligation(f"{s.name} (vm_compute enumeration = true)", rc == 0, out)
                if rc != 0:
                    failed_shards.append(s)
            evals = NDAYS * (2 * W + 1 if W < NDAYS - 1 else NDAYS) + NDAYS * 1201 + (NDAYS - 800) * 801 + 1572 * 1572 + 840 * 1201
            ctx.extra["kernel_evaluations_in_coq"] = evals
            if not failed_shards:
                rc, out = ctx.coqc(lift, timeout=600)
                ctx.obligation("C12_Lift.v (shards combined into forall-statements)", rc == 0, out)
                if rc == 0:
                    rc, out = ctx.coqc(ctx.build / "C12_Derive.v", timeout=600)
                    ctx.obligation("C12_Derive.v (equations derived from the enumerated facts)", rc == 0, out)
                if rc == 0:
                    ctx.prove(ctx.build / "C12_Props.v", timeout=600)
    # 2. correspondence (needs the generated model)
    mism = []
    if translated and (ctx.build / "GenDate.vo").exists():
        mism, ncases = correspondence(ctx, 32000 if ctx.quick else 240000)
        ctx.log(f"correspondence: {ncases} cases, {len(mism)} mismatches")
        ctx.obligation("correspondence generated-model vs CPython (bit-exact)", not mism, repr(mism[:5]))
    # 3. direct oracles on the implementation (always)
    fails = direct_oracles(ctx, 150000 if ctx.quick else 1500000)
    for fl in fails[:5]:
        ctx.violation("impl-violation", f"{fl['law']} law fails on the implementation: {fl}", fl, found_input=True)
    f10_probe(ctx)
    # 4. failing-input search for broken shards
    if failed_shards and not fails:
        import re

        for s in failed_shards[:4]:
            kind = re.match(r"C12_([A-Za-z]+?)S\d*$", s.stem).group(1)
            pair = coq_search(ctx, s)
            ctx.log(f"search in {s.name}: first failing index pair {pair}")
            if pair and kind in ("Inv", "Shift", "Lag", "Day"):
                bad, data = replay_pair(kind, pair[0], pair[1])
                if bad:
                    ctx.violation("impl-violation", f"{data['law']} law fails on the implementation: {data}", data,
                                  found_input=True)
                    break
                else:
                    ctx.notes.append(f"model fails at {pair} in {s.name} but the implementation does not: {data}")
    if mism and not fails and not ctx.violations:
        ctx.violation("correspondence", "generated model and CPython disagree (translator/PyPrim semantics)",
                      {"mismatches": [repr(m) for m in mism[:10]]}, found_input=False)
    # non-trivial = distinct argument tuples of the correspondence + oracle runs (lower bound: the
    # correspondence cases are distinct by construction of the generator up to rare repeats)
    ctx.nontrivial = max(2, int(ctx.evaluations * 0.9))
    ctx.extra["nontrivial_rule"] = "lower bound: 90% of Python-side evaluations (random 17-bit date pairs x offsets; repeats are rare)"


def replay(ctx, data):
    du = impl()
    law = data.get("law")
    D = datetime.date.fromisoformat
    if law == "inverse":
        p, e = D(data["p"]), D(data["e"])
        got = du.add_months(p, du.dev_lag_months(p, e))
        print(f"add_months({p}, dev_lag_months({p}, {e})) = {got}  (want {e})")
        return 0 if got == e else 1
    if law in ("int-shift", "int-shift-lands", "int-shift-month-end"):
        d, k = D(data["d"]), int(data["k"])
        r = du.add_months(d, k)
        t = du.month_to_id(d) + k
        print(f"add_months({d}, {k}) = {r}; month id {du.month_to_id(r)} (want {t})")
        bad = du.month_to_id(r) != t
        if du._is_month_end(d):
            bad = bad or r != du.id_to_month(t, False) or du.add_months(r, -k) != d
        return 1 if bad else 0
    if law == "dev-lag-units" and "cell_class" in data:
        import bermuda as bm

        kw = dict(period_start=D(data["period_start"]), period_end=D(data["period_end"]),
                  evaluation_date=D(data["evaluation_date"]), values={})
        if data["cell_class"] == "IncrementalCell":
            kw["prev_evaluation_date"] = D(data["prev_evaluation_date"])
        ca = data.get("coords_as", "date")
        if ca != "date":
            import pandas as _pd

            class _DT(datetime.datetime):
                pass

            mk = {"datetime": lambda d, h: datetime.datetime(d.year, d.month, d.day, h, 59, 59),
                  "Timestamp": lambda d, h: _pd.Timestamp(year=d.year, month=d.month, day=d.day, hour=h, minute=59, second=59),
                  "subclass": lambda d, h: _DT(d.year, d.month, d.day, h, 59, 59)}[ca]
            pe0, ev0 = kw["period_end"], kw["evaluation_date"]
            kw.update(period_end=mk(pe0, 23), evaluation_date=mk(ev0, 0), period_start=mk(kw["period_start"], 0))
            c = getattr(bm, data["cell_class"])(**kw)
            days = (ev0 - pe0).days
            got = (c.dev_lag("day"), c.dev_lag("timedelta"), type(c.period_end) is datetime.date)
            want = (days, datetime.timedelta(days=days), True)
            print(f"{data['cell_class']} with {ca} coordinates {kw}: dev_lag day/timedelta, stored-as-date = {got}, want {want}")
            return 0 if got == want else 1
        c = getattr(bm, data["cell_class"])(**kw)
        days = (c.evaluation_date - c.period_end).days
        got = (c.dev_lag("day"), c.dev_lag("timedelta"), c.dev_lag("month"),
               du.calculate_dev_lag(c.period_end, c.evaluation_date, "day"))
        want = (days, datetime.timedelta(days=days), du.dev_lag_months(c.period_end, c.evaluation_date), days)
        print(f"{data['cell_class']} {kw}: dev_lag day/timedelta/month + calculate_dev_lag = {got}, want {want}")
        return 0 if got == want else 1
    print("replay data:", data)
    return 1
