"""Shared pieces of the C13 / C15 checks: JSON exchange of triangles (replays), compact Coq printing
(metadata hoisted into one definition per slice), layout generators for the taxonomy, parsing of
failing-index lists."""
from __future__ import annotations

import calendar
import datetime
import re

import numpy as np

from bermuda import Cell, CumulativeCell, IncrementalCell, Metadata, Triangle
from harness import coqterm as ct
from harness.gen import FIELDS, Gen

D = datetime.date
ONE = datetime.timedelta(days=1)
KINDS = {"Cell": Cell, "CumulativeCell": CumulativeCell, "IncrementalCell": IncrementalCell}


# ------------------------------------------------------------------ JSON exchange (replay files)
def tag(v):
    if v is None:
        return ["n"]
    if isinstance(v, np.ndarray):
        return ["af" if v.dtype.kind == "f" else "ai", v.tolist()]
    if isinstance(v, (bool, np.bool_)):
        return ["b", bool(v)]
    if isinstance(v, str):
        return ["s", v]
    if isinstance(v, datetime.date):
        return ["d", v.isoformat()]
    if isinstance(v, (int, np.integer)):
        return ["i", int(v)]
    if isinstance(v, (float, np.floating)):
        return ["f", float(v)]
    raise ValueError(f"cannot encode {type(v)}")


def untag(x):
    k = x[0]
    if k == "n":
        return None
    if k == "af":
        return np.array(x[1], dtype=np.float64)
    if k == "ai":
        return np.array(x[1], dtype=np.int64)
    if k == "d":
        return D.fromisoformat(x[1])
    return x[1]


def meta_to_json(m):
    return {"risk_basis": m.risk_basis, "country": m.country, "currency": m.currency,
            "reinsurance_basis": m.reinsurance_basis, "loss_definition": m.loss_definition,
            "per_occurrence_limit": tag(m.per_occurrence_limit),
            "details": [[k, tag(v)] for k, v in m.details.items()],
            "loss_details": [[k, tag(v)] for k, v in m.loss_details.items()]}


def meta_from_json(j):
    return Metadata(risk_basis=j["risk_basis"], country=j["country"], currency=j["currency"],
                    reinsurance_basis=j["reinsurance_basis"], loss_definition=j["loss_definition"],
                    per_occurrence_limit=untag(j["per_occurrence_limit"]),
                    details={k: untag(v) for k, v in j["details"]},
                    loss_details={k: untag(v) for k, v in j["loss_details"]})


def cell_to_json(c):
    prev = getattr(c, "prev_evaluation_date", None) if type(c).__name__ == "IncrementalCell" else None
    return {"kind": type(c).__name__, "period_start": c.period_start.isoformat(),
            "period_end": c.period_end.isoformat(), "evaluation_date": c.evaluation_date.isoformat(),
            "prev_evaluation_date": prev.isoformat() if prev else None,
            "metadata": meta_to_json(c.metadata), "values": [[k, tag(v)] for k, v in c.values.items()]}


def cell_from_json(j):
    kw = dict(period_start=D.fromisoformat(j["period_start"]), period_end=D.fromisoformat(j["period_end"]),
              evaluation_date=D.fromisoformat(j["evaluation_date"]), metadata=meta_from_json(j["metadata"]),
              values={k: untag(v) for k, v in j["values"]})
    if j["kind"] == "IncrementalCell":
        kw["prev_evaluation_date"] = D.fromisoformat(j["prev_evaluation_date"])
    return KINDS[j["kind"]](**kw)


def tri_to_json(t):
    return [cell_to_json(c) for c in (t.cells if hasattr(t, "cells") else t)]


def tri_from_json(js):
    return Triangle([cell_from_json(j) for j in js])


# ------------------------------------------------------------------ grouping independent of Metadata.__eq__/__hash__
def _norm_mv(v):
    """Python == on metadata values, made structural: numbers (bool included) by exact value"""
    from fractions import Fraction

    if v is None:
        return ("none",)
    if isinstance(v, (bool, np.bool_, int, np.integer)):
        return ("n", Fraction(int(v)))
    if isinstance(v, (float, np.floating)):
        return ("n", Fraction(float(v))) if v == v and abs(v) != float("inf") else ("f", repr(float(v)))
    if isinstance(v, str):
        return ("s", v)
    if isinstance(v, datetime.date):
        return ("d", v.isoformat())
    return ("o", repr(v))


_MK = {}


def meta_key(m):
    """memoised per object (the object is kept alive alongside its key)"""
    hit = _MK.get(id(m))
    if hit is not None and hit[0] is m:
        return hit[1]
    k = _meta_key(m)
    if len(_MK) > 200000:
        _MK.clear()
    _MK[id(m)] = (m, k)
    return k


def _meta_key(m):
    """What Metadata == means (attribute-wise ==, dicts order-insensitive, 1 == 1.0 == True), computed
    WITHOUT calling Metadata.__eq__ / __hash__: the oracles group cells into slices with this."""
    return (m.risk_basis, m.country, m.currency, m.reinsurance_basis, m.loss_definition, _norm_mv(m.per_occurrence_limit),
            frozenset((k, _norm_mv(v)) for k, v in m.details.items()),
            frozenset((k, _norm_mv(v)) for k, v in m.loss_details.items()))


def same_meta(a, b):
    return meta_key(a) == meta_key(b)


# ------------------------------------------------------------------ compact Coq printing
def cz(n):
    return ct.zlit(int(n))


def clist(items):
    return "[" + ";".join(items) + "]"


def czlist(xs):
    return clist(cz(x) for x in xs)


def cbool(b):
    return "true" if b else "false"


def cres(thunk, f):
    """Ok (f value) | Err class"""
    try:
        v = thunk()
    except ct.NotRepresentable:
        raise
    except Exception as ex:  # noqa: BLE001
        return f"(Err {ct.cerr(ex)})", ex
    return f"(Ok {f(v)})", v


def copt(x, f):
    return "None" if x is None else f"(Some {f(x)})"


class CellPrinter:
    """Prints cells with the metadata hoisted into named definitions (parsing cost)."""

    def __init__(self, prefix):
        self.prefix = prefix
        self.defs = []
        self.names = {}  # canonical strict form -> name

    def meta(self, m):
        key = ct.canon_meta(m, ordered=True)
        if key not in self.names:
            name = f"{self.prefix}m{len(self.names)}"
            self.names[key] = name
            self.defs.append(f"Definition {name} := {ct.cmeta(m)}.")
        return self.names[key]

    def cell(self, c):
        prev = getattr(c, "prev_evaluation_date", None) if type(c).__name__ == "IncrementalCell" else None
        return (f"(mkCell {ct.ckind(c)} {ct.cdate(c.period_start)} {ct.cdate(c.period_end)} "
                f"{ct.cdate(c.evaluation_date)} {ct.copt(prev, ct.cdate)} {self.meta(c.metadata)} "
                f"{ct.cdict(c.values, ct.cvalue)})")

    def cells(self, cells):
        return "[" + ";\n  ".join(self.cell(c) for c in cells) + "]"


def parse_nat_list(val: str):
    return [int(x) for x in re.findall(r"\d+", val.replace("%nat", ""))]


# ------------------------------------------------------------------ calendar helpers
def month_end(y, m):
    return D(y, m, calendar.monthrange(y, m)[1])


def add_m(y, m, k):
    i = y * 12 + (m - 1) + k
    return i // 12, i % 12 + 1


def mid(d):
    return (d.year - 1970) * 12 + d.month - 1


def mstart(i):
    return D(1970 + i // 12, i % 12 + 1, 1)


def mend(i):
    return mstart(i + 1) - ONE


def is_mend(d):
    return (d + ONE).day == 1


def month_aligned(cells):
    return all(c.period_start.day == 1 and is_mend(c.period_end) and is_mend(c.evaluation_date) for c in cells)


# ------------------------------------------------------------------ taxonomy layouts (C13)
ACC_LAYOUTS = ["regular", "semi", "semi_gap", "irregular", "erratic", "overlap1", "adjacent_days",
               "unequal_days", "offgrid", "daily", "single_cell", "same_month_evals", "near_month_end", "gen"]


class AccGen:
    def __init__(self, rng):
        self.r = rng
        self.g = Gen(rng)

    def coords(self, layout):
        """list of (ps, pe, [evaluation dates]); month-aligned unless stated."""
        r = self.r
        y0 = r.randint(1990, 2040)
        res = r.choice([1, 1, 3, 6, 12])
        m0 = r.randint(1, 12) if res == 1 else r.choice([1, 4, 7, 10])
        start = (y0 - 1970) * 12 + m0 - 1
        n_p = r.randint(2, 5)
        n_l = r.randint(1, 5)
        rows = []
        if layout in ("regular", "offgrid", "semi", "semi_gap", "unequal_days"):
            if layout == "unequal_days":
                res = 1
            step = res if layout != "semi" else r.choice([1, 2, 3, 5])
            cur = start
            for p in range(n_p):
                if layout == "semi_gap" and p and r.random() < 0.5:
                    cur += res * r.randint(1, 2)
                e = cur + res - 1
                if layout == "semi":
                    lags = sorted(r.sample(range(0, 14), min(n_l, 6)))
                    if r.random() < 0.5 and len(lags) >= 3:  # first step differs from the rest
                        lags = [0, 1] + [1 + 2 * k for k in range(1, len(lags) - 1)]
                else:
                    lags = [k * step for k in range(n_l if r.random() < 0.6 else r.randint(1, n_l))]
                rows.append((mstart(cur), mend(e), [mend(e + k) for k in lags]))
                cur = e + 1
            if layout == "offgrid":
                i = r.randrange(len(rows))
                a, b, evs = rows[i]
                e = mid(b)
                k = (len(evs)) * res + r.choice([1, 2]) if res > 1 or r.random() < 0.5 else len(evs) + 1
                rows[i] = (a, b, evs + [mend(e + k)])
            return rows
        if layout == "irregular":
            cur = start
            for p in range(n_p):
                ln = r.choice([1, 2, 3, 6, 12])
                if r.random() < 0.3:
                    cur += r.choice([1, 2, 3, 6])
                e = cur + ln - 1
                lags = sorted(r.sample(range(0, 20), n_l))
                rows.append((mstart(cur), mend(e), [mend(e + k) for k in lags]))
                cur = e + 1
            return rows
        if layout == "erratic":  # overlapping / nested / same start different end (month-aligned)
            base = [(start, start + 2), (start + 3, start + 5), (start + 6, start + 8)]
            extra = r.choice([[(start, start + 5)], [(start + 2, start + 3)], [(start + 3, start + 3)],
                              [(start, start)], [(start + 1, start + 7), (start + 4, start + 4)],
                              [(start + 8, start + 9)]])
            ps = base[: r.randint(1, 3)] + extra
            r.shuffle(ps)
            for a, b in ps:
                lags = sorted(r.sample(range(0, 12), r.randint(1, 3)))
                rows.append((mstart(a), mend(b), [mend(b + k) for k in lags]))
            return rows
        if layout in ("overlap1", "adjacent_days", "daily"):
            d0 = D(y0, m0, r.randint(1, 28))
            plen = r.choice([1, 2, 7, 10, 30])
            cur = d0
            for p in range(n_p):
                ln = plen if layout != "daily" or r.random() < 0.7 else r.choice([1, 3, 7])
                e = cur + datetime.timedelta(days=ln - 1)
                step = r.choice([1, 7, 15, 30])
                evs = [e + datetime.timedelta(days=k * step) for k in range(n_l)]
                rows.append((cur, e, evs))
                cur = e + ONE
                if layout == "daily" and r.random() < 0.3:
                    cur += datetime.timedelta(days=r.randint(1, 5))
            if layout == "overlap1":  # one period starts on the previous period's last day
                i = r.randrange(1, len(rows))
                a, b, evs = rows[i]
                rows[i] = (a - ONE, b, evs)
            return rows
        if layout == "near_month_end":
            # monthly periods around February; evaluation dates (and sometimes a period end) on the last
            # days of months: 28 Feb of leap and common years, 29 Feb, 30th of 31-day months, true month ends
            y = r.choice([1996, 2000, 2004, 2020, 2024, 2028, 2023, 2021, 2100, 1900])
            m = r.choice([1, 1, 2, 12])
            yy, mm = (y - 1, 12) if m == 12 else (y, m)
            n_p = r.randint(1, 3)
            for p in range(n_p):
                py, pm = add_m(yy, mm, p)
                pe = month_end(py, pm)
                if pm == 2 and r.random() < 0.5:
                    pe = D(py, 2, 28)
                evs = set()
                for k in range(0, r.randint(2, 5)):
                    ey, em = add_m(py, pm, k)
                    last = month_end(ey, em)
                    choices = [last, last]
                    if em == 2:
                        choices += [D(ey, 2, 28), D(ey, 2, 28), D(ey, 2, 27)]
                    if last.day == 31:
                        choices += [D(ey, em, 30)]
                    e = r.choice(choices)
                    if e >= pe:
                        evs.add(e)
                evs.add(pe)
                rows.append((D(py, pm, 1), pe, sorted(evs)))
            return rows
        if layout == "single_cell":
            return [(mstart(start), mend(start + res - 1), [mend(start + res - 1 + r.choice([0, 1, 5]))])]
        if layout == "same_month_evals":  # several evaluation dates inside one month (zero month gaps)
            d0 = D(y0, m0, 1)
            e = d0 + datetime.timedelta(days=r.choice([0, 6]))
            evs = sorted({e + datetime.timedelta(days=k) for k in r.sample(range(0, 20), r.randint(2, 4))})
            if r.random() < 0.5:
                evs.append(month_end(*add_m(y0, m0, r.choice([1, 2, 4]))))
            return [(d0, e, evs)]
        raise ValueError(layout)

    def triangle(self, layout=None, n_slices=None, values=None, coverage=None):
        """-> (Triangle, info).  Cumulative unless layout == 'gen' (harness.gen's own shapes)."""
        r = self.r
        layout = layout or r.choice(ACC_LAYOUTS)
        if layout == "gen":
            t, info = self.g.triangle(same_fields=r.random() < 0.5)
            info["layout"] = "gen:" + info["layout"]
            return t, info
        n_slices = n_slices or r.choice([1, 1, 2, 3, 4])
        values = values or r.choice(["int", "float", "arr_int", "arr_float", "mixed", "arr_bad"])
        coverage = coverage or r.choice(["full", "full", "mixed", "slice"])
        ms = self.metas(n_slices)
        fields = r.sample(FIELDS, r.randint(1, 4))
        n_samples = r.choice([1, 2, 3, 5])
        cells = []
        rows = None
        for si, m in enumerate(ms):
            if rows is None or r.random() < 0.2:
                rows = self.coords(layout)
            sl_fields = fields if coverage != "slice" or si == 0 else r.sample(fields, r.randint(1, len(fields)))
            for ps, pe, evs in rows:
                for e in evs:
                    fs = sl_fields if coverage != "mixed" or r.random() < 0.5 else r.sample(sl_fields, r.randint(0, len(sl_fields)))
                    vals = {}
                    for f in fs:
                        if values == "arr_bad":
                            vals[f] = self.g.value("arr_int", r.choice([n_samples, n_samples, n_samples + 1]))
                        else:
                            vals[f] = self.g.value(values, n_samples)
                    cells.append(CumulativeCell(period_start=ps, period_end=pe, evaluation_date=e, values=vals, metadata=m))
        r.shuffle(cells)
        info = {"layout": layout, "n_slices": len(ms), "values": values, "coverage": coverage, "n_cells": len(cells)}
        return Triangle(cells), info

    def metas(self, n):
        r = self.r
        if r.random() < 0.15:  # Python-equal but not identical pieces: 1000 vs 1000.0, 1 vs True
            base = {"country": r.choice([None, "US"]), "per_occurrence_limit": r.choice([1000, 1000.0]),
                    "details": {"n": r.choice([1, True, 1.0]), "lob": "auto"}}
            out = [Metadata(**base)]
            for i in range(1, n):
                kw = dict(base)
                kw["details"] = {"lob": r.choice(["auto", "home"]), "n": r.choice([1, True, 1.0, 2])}
                kw["per_occurrence_limit"] = r.choice([1000, 1000.0, 5])
                if r.random() < 0.5:
                    kw["loss_details"] = {"cov": r.choice(["a", "b"])}
                out.append(Metadata(**kw))
            return out
        if n >= 2 and r.random() < 0.12:  # family M: siblings differing ONLY by a hash-colliding value
            base = dict(self.g.base_meta_kwargs())
            vals = r.choice([[-1, -2], [-2, -1], [-1.0, -2.0], [0, 2**61 - 1], [-1, -2, 0], [2**61 - 1, 0, -2, -1]])
            where = r.choice(["details", "loss_details", "per_occurrence_limit"])
            out = []
            for i in range(min(n, len(vals))):
                kw = {k: (dict(v) if isinstance(v, dict) else v) for k, v in base.items()}
                if where == "per_occurrence_limit":
                    kw[where] = vals[i]
                else:
                    d = dict(kw.get(where) or {})
                    d["layer"] = vals[i]
                    kw[where] = d
                out.append(Metadata(**kw))
            r.shuffle(out)
            return out
        if n >= 2 and r.random() < 0.08:  # a key holding None in some slices and ABSENT in others (any sort order)
            out = []
            for i in range(n):
                d = {"lob": "auto"}
                ld = {}
                if r.random() < 0.6:
                    d["opt"] = None
                if r.random() < 0.5:
                    ld["lopt"] = None
                if r.random() < 0.3:
                    d["n"] = r.choice([1, 2])
                out.append(Metadata(country=r.choice(["A", "B", "C", "D"]) + str(i), details=d, loss_details=ld))
            r.shuffle(out)
            return out
        if r.random() < 0.2:  # everything shared except several detail keys, some keys missing
            out = []
            for i in range(n):
                d = {"lob": "auto", "state": r.choice(["NY", "CA"])}
                if r.random() < 0.5:
                    d["n"] = r.choice([1, 2])
                ld = {"cov": "bi"} if r.random() < 0.7 else {}
                if r.random() < 0.3:
                    ld["peril"] = r.choice(["wind", "fire"])
                out.append(Metadata(risk_basis=r.choice(["Accident", None]) if r.random() < 0.3 else "Accident",
                                    country="US", details=d, loss_details=ld))
            return out
        ms, _ = self.g.metas(n)
        return ms
