"""C14 -- CSV, array-frame and Matrix forms round-trip coordinates, slices and numbers.

translate (T-frame) -> GenFrame.v -> obligations (spec_ok + instantiated theorems in C14_Props.v) ->
correspondence model-vs-implementation at the table level inside Coq -> direct Python oracles on every case
(strict round trip through real CSV files and data frames, slice count, row counts, independent csv-module
reader) -> directed probes of the fixed findings F8/F12/F15 and the known findings G1-G4."""
from __future__ import annotations

import calendar
import csv
import datetime
import math
import os
import random
import re
import shutil
import time
import warnings
from pathlib import Path

import numpy as np

from harness.common import COQ, REPO, ROOT, parse_coq_eval
from harness import coqterm as ct
from harness.gen import Gen

D = datetime.date
SCALE = 1024
NA_TOKENS = ["NA", "null", "nan", "None", "N/A", "NULL", "n/a", "NaN", "<NA>", "#N/A", ""]

CASE_HEADER = """From Coq Require Import ZArith List Bool.
From Bermuda Require Import Model.Base Model.Frame Model.MatrixIx.
From Gen Require Import GenFrame C14_Base.
Import ListNotations.
Local Open Scope Z_scope.
"""


# ============================================================================== implementation access
def B():
    import bermuda
    from bermuda.io import data_frame_input as dfi, data_frame_output as dfo
    from bermuda.io import array as arr
    from bermuda.io import matrix as mx

    return bermuda, dfi, dfo, arr, mx


def me(i):
    y, m = 1970 + i // 12, i % 12 + 1
    return D(y, m, calendar.monthrange(y, m)[1])


def ms(i):
    return D(1970 + i // 12, i % 12 + 1, 1)


def mid(d):
    return 12 * (d.year - 1970) + d.month - 1


# ============================================================================== generators
STR_VALS = ["auto", "home", "NY", "CA", "Ünï", "x", "a,b", 'q"t', " lead", "Namibia"]


class FGen(Gen):
    """metadata inside the theorem hypotheses: risk_basis not None, string / numeric detail values, no pandas
    NA tokens, no number-looking strings; dict keys sorted (the enumeration order handed to the model)."""

    def base_meta_kwargs(self):
        r = self.r
        kw = {"risk_basis": r.choice(["Accident", "Policy"])}
        if r.random() < 0.4:
            kw["country"] = r.choice(["US", "DE", "Ünï"])
        if r.random() < 0.4:
            kw["currency"] = r.choice(["USD", "EUR"])
        if r.random() < 0.3:
            kw["reinsurance_basis"] = r.choice(["Gross", "Net"])
        if r.random() < 0.3:
            kw["loss_definition"] = r.choice(["Loss", "Loss+DCC"])
        if r.random() < 0.3:
            kw["per_occurrence_limit"] = r.choice([1000, 250000.0, 5, 0.5, 0])
        if r.random() < 0.5:
            ks = sorted(r.sample(["lob", "state", "n", "w"], r.randint(1, 3)))
            kw["details"] = {k: self.detail_value(k) for k in ks}
        if r.random() < 0.35:
            ks = sorted(r.sample(["cov", "layer", "peril"], r.randint(1, 2)))
            kw["loss_details"] = {k: self.detail_value(k) for k in ks}
        return kw

    def detail_value(self, key):
        r = self.r
        if key in ("n", "layer"):
            return r.choice([0, 0, 1, 2, 3, 10])      # 0 is a legitimate (falsy) detail value
        if key == "w":
            return r.choice([0.0, 0.0, 0.5, 2.25, 7.0, 1024.125])
        return r.choice(STR_VALS)

    def vary(self, kw, attr, i):
        kw = {k: (dict(v) if isinstance(v, dict) else v) for k, v in kw.items()}
        if attr == "per_occurrence_limit":
            kw[attr] = [1000, 2000, 2500.5, 9][i % 4] + (kw.get(attr) or 0)
        elif attr in ("details", "loss_details"):
            d = dict(kw.get(attr) or {})
            key = "cov" if attr == "loss_details" else "lob"
            d[key] = ["auto", "home", "x", "y"][i % 4] + ("" if d.get(key) is None else "_")
            kw[attr] = dict(sorted(d.items()))
        elif attr == "detail_num":          # numeric detail distinguishes the slices
            d = dict(kw.get("details") or {})
            d["n"] = ([0, 30, 40.5, 50] if d.get("n") not in (0, 0.0) else [7, 30, 40.5, 50])[(i - 1) % 4]
            kw["details"] = dict(sorted(d.items()))
        elif attr == "loss_detail_num":     # numeric loss detail distinguishes the slices, 0 among the values
            d = dict(kw.get("loss_details") or {})
            d["layer"] = ([0, 1, 2.5, 0.5] if d.get("layer") not in (0, 0.0) else [1, 4, 2.5, 0.5])[(i - 1) % 4]
            kw["loss_details"] = dict(sorted(d.items()))
        elif attr in ("hash_detail", "hash_loss", "hash_limit"):
            # family M: the ONLY difference is a numeric value whose CPython hash collides with the base slice's
            # (hash(-1) == hash(-2), hash(-1.0) == hash(-2.0)); i-th variant keeps colliding pairs next to each other
            vals = [-2, -1.0, -2.0, -3][(i - 1) % 4]
            if attr == "hash_limit":
                kw["per_occurrence_limit"] = vals
            else:
                key, name = ("details", "n") if attr == "hash_detail" else ("loss_details", "layer")
                d = dict(kw.get(key) or {})
                d[name] = vals
                kw[key] = dict(sorted(d.items()))
        elif attr == "detail_present":      # one slice has the key, the others do not
            d = dict(kw.get("details") or {})
            d.pop("zone", None)
            if i % 2 == 1:
                d["zone"] = ["north", "south"][(i // 2) % 2]
            else:
                d["zone%d" % i] = 4 + i
            kw["details"] = dict(sorted(d.items()))
        elif attr == "risk_basis":
            kw[attr] = ["Policy", "Accident", "Underwriting", "V4"][i % 4] if kw.get(attr) != "Policy" else \
                ["Accident", "Underwriting", "V3", "V4"][i % 4]
        else:
            kw[attr] = ["V1", "V2", "V3", "V4"][i % 4]
        return kw

    def metas(self, n_slices, slice_diff=None):
        from bermuda import Metadata

        base = self.base_meta_kwargs()
        if slice_diff == "hash_limit":
            base["per_occurrence_limit"] = -1
        elif slice_diff == "hash_detail":
            base["details"] = dict(sorted({**(base.get("details") or {}), "n": -1}.items()))
        elif slice_diff == "hash_loss":
            base["loss_details"] = dict(sorted({**(base.get("loss_details") or {}), "layer": -1}.items()))
        out = [base]
        for i in range(1, n_slices):
            if slice_diff == "several":
                kw = base
                for a in self.r.sample(SLICE_DIFFS[:11], self.r.randint(2, 3)):
                    kw = self.vary(kw, a, i)
            else:
                kw = self.vary(base, slice_diff, i)
            out.append(kw)
        ms_ = []
        for kw in out:
            m = Metadata(**kw)
            if m not in ms_:
                ms_.append(m)
        return ms_, slice_diff


SLICE_DIFFS = ["risk_basis", "country", "currency", "reinsurance_basis", "loss_definition", "per_occurrence_limit",
               "details", "loss_details", "detail_num", "loss_detail_num", "detail_present",
               "hash_detail", "hash_loss", "hash_limit", "several"]


def gen_frame_case(rng, k):
    from bermuda import Triangle

    g = FGen(rng)
    basis = "inc" if k % 4 == 3 else "cum"
    values = ["int", "float", "arr_int", "arr_float"][(k // 4) % 4] if basis == "cum" else ["int", "float"][(k // 4) % 2]
    n_slices = [1, 2, 3, 4][(k // 2) % 4] if k % 7 else 2
    diff = SLICE_DIFFS[k % len(SLICE_DIFFS)]
    layout = rng.choice(["regular", "ragged", "holey", "irregular", "single_period", "single_lag", "daily"])
    cap = 3 if n_slices <= 2 else 2
    fields = sorted(rng.sample(["paid_loss", "reported_loss", "earned_premium", "reported_claims"], rng.randint(1, 3)))
    cells, info = g.cells(layout=layout, basis=basis, n_slices=n_slices, values=values, fields=fields,
                          slice_diff=diff, n_periods=rng.randint(1, cap), n_lags=rng.randint(1, cap),
                          n_samples=rng.choice([2, 3]), same_fields=rng.random() < 0.6)
    # value dicts with sorted keys (enumeration order given to the model)
    cells = [c.replace(values=dict(sorted(c.values.items()))) for c in cells]
    rng.shuffle(cells)
    return Triangle(cells), info


def gen_grid_triangle(rng, k, for_matrix):
    """month-aligned semi-regular triangle on one period grid with nested resolutions.
    returns (Triangle, info)"""
    from bermuda import CumulativeCell, IncrementalCell, Metadata, Triangle

    rp = rng.choice([1, 3, 6, 12])
    re_ = rng.choice([1, 3, 6, 12])
    s0 = rng.randint(30 * 12, 55 * 12)
    if for_matrix and k % 3 == 1:
        # before 1970 and straddling 1969/1970 (negative month ids; dates built by hand with ms/me, never with
        # the library's add_months, which is wrong before 1970: finding F10 of C12)
        s0 = rng.choice([rng.randint(-60 * 12, -13), rng.randint(-30, -1), -rp * rng.randint(1, 3) + rng.choice([0, 1, -1])])
    if k % 3 == 2:
        # month ends around the February of century years (2100, 2200: not leap; 2000, 2400: leap), of ordinary
        # leap / non-leap years, and far-future dates; array frames stay below pandas' Timestamp limit (2262)
        years = [2100, 2100, 2000, 2024, 2023, 2096, 2104, 1972, 2200, 2250] + ([2400, 2300, 3000] if for_matrix else [])
        y = years[(k // 3) % len(years)]
        s0 = (y - 1970) * 12 + 1 - rng.randint(0, 3) * rp - rng.randint(0, rp - 1)
    s0 -= s0 % rp if rng.random() < 0.7 else 0
    if not for_matrix and s0 < 12:
        s0 += 60       # array frames stay at 1970 or later: before that array.py trips F10 (known finding F10c, probed separately)
    npd = rng.randint(1, 4)
    starts, cur = [], s0
    for _ in range(npd):
        starts.append(cur)
        cur += rp * (1 + (rng.choice([0, 0, 0, 1, 2]) if for_matrix and k % 3 == 0 else 0))
    layout = ["rect", "ragged", "holey", "fixed_evals"][k % 4]
    gcd_lags = None
    if for_matrix and k % 5 == 2:
        # family P: evaluation steps whose gcd is smaller than the smallest step (+0/+6/+15, +0/+4/+10 ...)
        layout = "gcd_lt_step"
        gcd_lags = rng.choice([(0, 6, 15), (0, 4, 10), (0, 9, 15), (3, 9, 18), (0, 6, 15, 27), (0, 10, 14)])
        rp = rng.choice([12, 6, 1, 12]) if rng.random() < 0.8 else rp
    nl = rng.randint(2, 4)
    d0 = rng.choice([0, 0, re_, 2 * re_]) if layout != "fixed_evals" else 0
    inc = for_matrix and (k % 5 == 4)
    if inc:
        layout = "rect"
    n_sl = rng.choice([1, 1, 2, 3]) if for_matrix else 1
    g = FGen(rng)
    if for_matrix and k % 4 == 1:
        n_sl = rng.choice([2, 3, 4])
        metas, _ = g.metas(n_sl, rng.choice(["hash_detail", "hash_loss", "hash_limit"]))
    else:
        metas, _ = g.metas(n_sl, rng.choice(SLICE_DIFFS[:8]))
    fields = sorted(rng.sample(["paid_loss", "reported_loss", "earned_premium"], rng.randint(1, 2 if for_matrix else 1)))
    cells = []
    last_end = starts[-1] + rp - 1
    # per-slice period sets: in half of the multi-slice Matrix cases every slice lacks ONE period (its first, a middle
    # or its last one) that the other slices have -- a later-sorting slice then introduces a period the first one lacks
    per_slice = for_matrix and len(metas) >= 2 and len(starts) >= 2 and k % 2 == 0
    for si, m in enumerate(metas):
        for pi, s in enumerate(starts):
            if per_slice and pi == (si + k // 2) % len(starts):
                continue
            pe_id = s + rp - 1
            if layout == "fixed_evals":
                e0 = last_end
                lags = [e0 + j * re_ - pe_id for j in range(nl)]
                lags = [x for x in lags if x >= 0]
            elif gcd_lags is not None:
                lags = list(gcd_lags)
            else:
                lags = [d0 + j * re_ for j in range(nl)]
            if layout == "ragged":
                lags = [x for x in lags if pe_id + x <= last_end + d0 + re_] or lags[:1]
            if layout == "holey":
                lags = [x for x in lags if rng.random() < 0.65] or lags[:1]
            prev = ms(s) - datetime.timedelta(days=1)
            for lag in lags:
                fs = fields if rng.random() < 0.8 else rng.sample(fields, 1)
                vals = {f: (rng.randint(0, 5000) if rng.random() < 0.5 else rng.randint(0, 40000) / 8.0) for f in sorted(fs)}
                ev = me(pe_id + lag)
                if inc:
                    cells.append(IncrementalCell(period_start=ms(s), period_end=me(pe_id), evaluation_date=ev,
                                                 prev_evaluation_date=prev, values=vals, metadata=m))
                    prev = ev
                else:
                    cells.append(CumulativeCell(period_start=ms(s), period_end=me(pe_id), evaluation_date=ev,
                                                values=vals, metadata=m))
    rng.shuffle(cells)
    if per_slice:
        layout += "+per-slice-periods"
    return Triangle(cells), {"layout": layout, "rp": rp, "re": re_, "inc": inc, "n_slices": len(metas),
                             "fields": fields, "n_cells": len(cells)}


# ============================================================================== canonical forms
def is_floaty(v):
    if isinstance(v, np.ndarray):
        return v.dtype.kind == "f"
    return isinstance(v, (float, np.floating))


def fnum(x):
    return float(x)


def canon_val(v, strict_float, problems):
    """numeric value as the property sees it: ('num', x) for one number, ('arr', xs) for samples"""
    if isinstance(v, np.ndarray) and v.ndim == 1 and v.size > 1 and v.dtype.kind in "fi":
        if strict_float and v.dtype.kind != "f":
            problems.append(f"sample array came back with dtype {v.dtype}")
        return ("arr", tuple(float(x) for x in v.tolist()))
    if isinstance(v, np.ndarray) and v.size == 1 and v.dtype.kind in "fi":
        if strict_float and v.dtype.kind != "f":
            problems.append(f"value came back as {v.dtype} array")
        return ("num", float(v.reshape(-1)[0]))
    if isinstance(v, (bool, np.bool_)) or v is None:
        return ("other", repr(v))
    if isinstance(v, (int, float, np.integer, np.floating)):
        if strict_float and not is_floaty(v):
            problems.append(f"value came back as {type(v).__name__}, not a float")
        return ("num", float(v))
    if isinstance(v, np.ndarray):
        return ("other-array", str(v.dtype), v.shape, repr(v.tolist()))
    return ("other", repr(v))


def canon_num(v):
    """numbers by VALUE, exactly: 1000 == 1000.0, but an integer beyond 2**53 is not its rounded double"""
    if isinstance(v, (int, np.integer)):
        return int(v)
    f = float(v)
    return int(f) if (f == f and f not in (float("inf"), float("-inf")) and f.is_integer()) else f


def canon_m(v):
    if isinstance(v, (bool, np.bool_)):
        return ("bool", bool(v))
    if isinstance(v, (int, float, np.integer, np.floating)):
        return ("num", canon_num(v))
    if isinstance(v, str):
        return ("str", v)
    if isinstance(v, datetime.date):
        return ("date", v.isoformat())
    return ("other", repr(v))


def canon_meta(m, merge_loss=False):
    d = {k: canon_m(v) for k, v in m.details.items()}
    ld = {k: canon_m(v) for k, v in m.loss_details.items()}
    if merge_loss:
        d = {**d, **ld}
        ld = {}
    pol = None if m.per_occurrence_limit is None else canon_num(m.per_occurrence_limit)
    return (m.risk_basis, m.country, m.currency, m.reinsurance_basis, m.loss_definition, pol,
            tuple(sorted(d.items())), tuple(sorted(ld.items())))


def canon_cell(c, strict_float=False, merge_loss=False, problems=None):
    problems = problems if problems is not None else []
    prev = getattr(c, "prev_evaluation_date", None) if type(c).__name__ == "IncrementalCell" else None
    return (type(c).__name__, c.period_start.isoformat(), c.period_end.isoformat(), c.evaluation_date.isoformat(),
            prev.isoformat() if prev else None, canon_meta(c.metadata, merge_loss),
            tuple(sorted((k, canon_val(v, strict_float, problems)) for k, v in c.values.items())))


def canon_tri(t, **kw):
    return sorted((canon_cell(c, **kw) for c in t), key=repr)


# ============================================================================== Coq printing
def zl(n):
    return f"({n})" if n < 0 else str(n)


def n1024(x):
    return ct._n1024(x)


def ctval(v):
    import pandas as pd

    if v is None or v is pd.NaT:
        return "TNaN"
    if isinstance(v, (pd.Timestamp, pd.Period)):
        if isinstance(v, pd.Period):
            v = v.to_timestamp()
        return f"(TDate {v.date().toordinal()})"
    if isinstance(v, datetime.date):
        return f"(TDate {v.toordinal()})"
    if isinstance(v, str):
        return f"(TStr {ct.cstr(v)})"
    if isinstance(v, (bool, np.bool_)):
        raise ct.NotRepresentable("bool in table")
    if isinstance(v, (float, np.floating)) and math.isnan(v):
        return "TNaN"
    if isinstance(v, (int, float, np.integer, np.floating)):
        return f"(TNum {zl(n1024(v))})"
    raise ct.NotRepresentable(f"table value {type(v)}")


def ctable(df):
    hdr = "[" + ";".join(ct.cstr(str(c)) for c in df.columns) + "]"
    rows = []
    for tup in df.itertuples(index=False, name=None):
        rows.append("[" + ";".join(ctval(v) for v in tup) + "]")
    return f"(Ok (mk_table {hdr} [\n   " + ";\n   ".join(rows) + "]))"


def cstrs(xs):
    return "[" + ";".join(ct.cstr(x) for x in xs) + "]"


def fl(v):
    """numbers as floats (what a round trip is specified to return)"""
    if isinstance(v, (bool, np.bool_)) or v is None or isinstance(v, (str, datetime.date)):
        return v
    if isinstance(v, (int, float, np.integer, np.floating)):
        return float(v)
    return v


def cresult_cells_fl(thunk):
    """implementation result, printed canonically: dict keys sorted, every number a float, size-1 numerics as
    numbers.  Returns (coq_text, triangle_or_None, exception_or_None)."""
    from bermuda import Metadata

    try:
        t = thunk()
    except ct.NotRepresentable:
        raise
    except Exception as ex:  # noqa: BLE001
        return f"(Err {ct.cerr(ex)})", None, ex
    out = []
    for c in t:
        m = c.metadata
        m2 = Metadata(risk_basis=m.risk_basis, country=m.country, currency=m.currency,
                      reinsurance_basis=m.reinsurance_basis, loss_definition=m.loss_definition,
                      per_occurrence_limit=fl(m.per_occurrence_limit),
                      details={k: fl(v) for k, v in sorted(m.details.items())},
                      loss_details={k: fl(v) for k, v in sorted(m.loss_details.items())})
        vals = {}
        for k, v in sorted(c.values.items()):
            if isinstance(v, np.ndarray) and v.ndim == 1 and v.size > 1 and v.dtype.kind in "fi":
                vals[k] = v.astype(np.float64)
            elif isinstance(v, np.ndarray) and v.size == 1 and v.dtype.kind in "fi":
                vals[k] = float(v.reshape(-1)[0])
            elif isinstance(v, (int, float, np.integer, np.floating)) and not isinstance(v, (bool, np.bool_)):
                vals[k] = float(v)
            else:
                # not a number / numeric sample array: not representable in the model; the Coq side sees an
                # error result (so every comparison fails) and the Python oracle reports the concrete input
                return "(Err TypeError)", t, None
        out.append(ccell_raw(c, m2, vals))
    return "(Ok [" + ";\n   ".join(out) + "])", t, None


def ccell_raw(c, m, vals):
    prev = getattr(c, "prev_evaluation_date", None) if type(c).__name__ == "IncrementalCell" else None
    return (f"(mkCell {ct.ckind(c)} {ct.cdate(c.period_start)} {ct.cdate(c.period_end)} {ct.cdate(c.evaluation_date)} "
            f"{ct.copt(prev, ct.cdate)} {ct.cmeta(m)} {ct.cdict(vals, ct.cvalue)})")


def cperm(p):
    return "[" + ";".join(f"{i}%nat" for i in p) + "]"


# ============================================================================== one frame case
def names_of(t):
    fn = sorted({k for c in t for k in c.values})
    dn = sorted({k for c in t for k, v in c.metadata.details.items() if v is not None})
    ln = sorted({k for c in t for k, v in c.metadata.loss_details.items() if v is not None})
    return fn, dn, ln


def expected_rows(t, long):
    n = 0
    for c in t:
        sizes = {v.size for v in c.values.values() if isinstance(v, np.ndarray) and v.size > 1}
        k = max(sizes) if sizes else 1
        n += k * (len([v for v in c.values.values() if v is not None]) if long else 1)
    return n


def independent_csv_check(path, t, long, fn, problems):
    """an independent reader (csv module): every number of the triangle is found in exactly one row"""
    with open(path, newline="") as fh:
        rd = list(csv.DictReader(fh))
    if len(rd) != expected_rows(t, long):
        problems.append(f"csv has {len(rd)} rows, expected {expected_rows(t, long)}")
    core = {"period_start", "period_end", "evaluation_date", "prev_evaluation_date", "scenario", "field", "value"}

    def row_matches(r, c):
        if r["period_start"][:10] != c.period_start.isoformat() or r["period_end"][:10] != c.period_end.isoformat() \
                or r["evaluation_date"][:10] != c.evaluation_date.isoformat():
            return False
        if "prev_evaluation_date" in r and r["prev_evaluation_date"][:10] != c.prev_evaluation_date.isoformat():
            return False
        flat = c.metadata.as_flat_dict()
        for k in r:
            if k in core or k in fn:
                continue
            v = flat.get(k)
            cellv = r.get(k, "")
            if v is None:
                if cellv != "":
                    return False
            elif isinstance(v, str):
                if cellv != v:
                    return False
            else:
                try:
                    if float(cellv) != float(v):
                        return False
                except ValueError:
                    return False
        return True

    for c in t:
        rows = [r for r in rd if row_matches(r, c)]
        for f, v in c.values.items():
            want = [float(x) for x in v.tolist()] if isinstance(v, np.ndarray) and v.size > 1 else [float(v)]
            if long:
                frows = [r for r in rows if r["field"] == f]
                if len(want) > 1:
                    frows.sort(key=lambda r: float(r.get("scenario") or 0))
                got = [float(r["value"]) for r in frows]
            else:
                rr = list(rows)
                if len(rr) > 1:
                    rr.sort(key=lambda r: float(r.get("scenario") or 0))
                got = [float(r[f]) for r in rr if r.get(f, "") != ""]
            if got != want:
                problems.append(f"independent csv reader: field {f} of cell {c.period_start}/{c.evaluation_date} "
                                f"reads {got}, triangle has {want}")
                return


def run_frame_case(ctx, t, rng, tmp, tag):
    """returns (coq_record_text, problems(list of str), data_for_replay)"""
    import pandas as pd
    from bermuda import Triangle

    _, dfi, dfo, _, _ = B()
    fn, dn, ln = names_of(t)
    problems = []
    want = canon_tri(t)
    want_merged = canon_tri(t, merge_loss=True)

    # writers
    def wide_df():
        return dfo.triangle_to_wide_data_frame(t)

    def long_df():
        return dfo.triangle_to_long_data_frame(t)

    try:
        wdf = wide_df()
        wtxt = ctable(wdf)
    except ct.NotRepresentable:
        raise
    except Exception as ex:  # noqa: BLE001
        wdf, wtxt = None, f"(Err {ct.cerr(ex)})"
    try:
        ldf = long_df()
        ltxt = ctable(ldf)
    except ct.NotRepresentable:
        raise
    except Exception as ex:  # noqa: BLE001
        ldf, ltxt = None, f"(Err {ct.cerr(ex)})"
    if wdf is not None and len(wdf) != expected_rows(t, False):
        problems.append(f"wide frame has {len(wdf)} rows, expected one per cell and scenario = {expected_rows(t, False)}")
    if ldf is not None and len(ldf) != expected_rows(t, True):
        problems.append(f"long frame has {len(ldf)} rows, expected one per cell, field and scenario = {expected_rows(t, True)}")

    pw = list(range(len(wdf))) if wdf is not None else []
    pl = list(range(len(ldf))) if ldf is not None else []
    rng.shuffle(pw)
    rng.shuffle(pl)

    def check_back(back, ex, what, merged=False, strict=False):
        if ex is not None:
            problems.append(f"{what}: raised {type(ex).__name__}: {str(ex)[:120]}")
            return
        pr = []
        got = sorted((canon_cell(c, strict_float=strict, merge_loss=False, problems=pr) for c in back), key=repr)
        w = want_merged if merged else want
        if got != w:
            diff = [x for x in w if x not in got][:1] + [x for x in got if x not in w][:1]
            problems.append(f"{what}: round trip differs ({len(got)} cells back, {len(w)} expected); first difference {diff}")
        if pr:
            problems.append(f"{what}: {pr[0]}")
        if len(back.slices) != len(t.slices):
            problems.append(f"{what}: {len(back.slices)} slices back, {len(t.slices)} written")

    # readers through data frames (rows shuffled: the scenario column carries the sample order)
    rw_txt, rw, ex = cresult_cells_fl(lambda: dfi.wide_data_frame_to_triangle(
        long_fix(wdf.iloc[pw].reset_index(drop=True)), field_cols=list(fn), loss_detail_cols=list(ln)))
    check_back(rw, ex, "wide data frame (shuffled rows)")
    rl_txt, rl, ex = cresult_cells_fl(lambda: dfi.long_data_frame_to_triangle(
        long_fix(ldf.iloc[pl].reset_index(drop=True)), loss_detail_cols=list(ln)))
    check_back(rl, ex, "long data frame (shuffled rows)")
    rlc_txt, rlc, ex = cresult_cells_fl(lambda: dfi.long_data_frame_to_triangle(
        long_fix(ldf.iloc[pl].reset_index(drop=True))))
    check_back(rlc, ex, "long data frame without loss_detail_cols", merged=True)
    # unshuffled too (python only)
    for what, thunk, merged in [
        ("wide data frame", lambda: dfi.wide_data_frame_to_triangle(long_fix(wide_df()), field_cols=list(fn), loss_detail_cols=list(ln)), False),
        ("long data frame", lambda: dfi.long_data_frame_to_triangle(long_fix(long_df()), loss_detail_cols=list(ln)), False),
    ]:
        try:
            check_back(thunk(), None, what, merged)
        except Exception as ex:  # noqa: BLE001
            check_back(None, ex, what, merged)

    # real CSV files
    wp, lp = str(tmp / f"{tag}_w.csv"), str(tmp / f"{tag}_l.csv")
    for what, write, read, path, merged, is_long in [
        ("wide CSV", lambda p: t.to_wide_csv(p),
         lambda p: Triangle.from_wide_csv(p, field_cols=list(fn), loss_detail_cols=list(ln)), wp, False, False),
        ("long CSV", lambda p: t.to_long_csv(p), lambda p: Triangle.from_long_csv(p), lp, True, True),
    ]:
        try:
            write(path)
            back = read(path)
            check_back(back, None, what, merged)
        except ct.NotRepresentable:
            raise
        except Exception as ex:  # noqa: BLE001
            check_back(None, ex, what, merged)
        try:
            independent_csv_check(path, t, is_long, fn, problems)
            # the model's assumption: pandas hands bermuda the table that was written (up to int->float)
            table_assumption(path, wdf if not is_long else ldf, problems, what)
        except Exception as ex:  # noqa: BLE001
            problems.append(f"{what}: independent reader / table assumption machinery raised {type(ex).__name__}: {ex}")
    in_hyps = "true"
    rec = (f"(mkF {ct.ccells(t.cells)}\n  {cstrs(fn)} {cstrs(dn)} {cstrs(ln)}\n  {wtxt}\n  {ltxt}\n  {rw_txt}\n  {rl_txt}\n"
           f"  {rlc_txt}\n  {cstrs(sorted(set(dn) | set(ln)))} {cperm(pw)} {cperm(pl)} {in_hyps})")
    return rec, problems


def long_fix(df):
    """the long frame carries evaluation_date as a PeriodIndex (the CSV layer turns it into text and back into
    timestamps); the reader wants datetimes"""
    import pandas as pd

    df = df.copy()
    for col in ("evaluation_date", "prev_evaluation_date"):
        if col in df.columns and isinstance(df[col].dtype, pd.PeriodDtype):
            df[col] = df[col].dt.to_timestamp()
    return df


def table_assumption(path, df, problems, what):
    """read the CSV back the way bermuda does and compare with the written frame cell by cell (numbers by
    value, NaN = NaN, dates by day)"""
    import pandas as pd

    raw = pd.read_csv(path, nrows=1)
    pdates = [c for c in ["period_start", "period_end", "evaluation_date", "prev_evaluation_date"] if c in raw.columns]
    rd = pd.read_csv(path, parse_dates=pdates)
    if list(rd.columns) != [str(c) for c in df.columns] or len(rd) != len(df):
        problems.append(f"{what}: table read by pandas has another shape than the table written")
        return
    for col in df.columns:
        for a, b in zip(df[col].tolist(), rd[col].tolist()):
            ta, tb = ctval_py(a), ctval_py(b)
            if ta != tb:
                problems.append(f"{what}: table assumption fails in column {col}: wrote {a!r}, pandas read {b!r}")
                return


def ctval_py(v):
    import pandas as pd

    if v is None or v is pd.NaT:
        return ("nan",)
    if isinstance(v, pd.Period):
        v = v.to_timestamp()
    if isinstance(v, (pd.Timestamp, datetime.date)):
        return ("date", (v.date() if isinstance(v, pd.Timestamp) else v).isoformat())
    if isinstance(v, str):
        return ("str", v)
    if isinstance(v, (float, np.floating)) and math.isnan(v):
        return ("nan",)
    if isinstance(v, (int, float, np.integer, np.floating)) and not isinstance(v, (bool, np.bool_)):
        return ("num", float(v))
    return ("other", repr(v))


# ============================================================================== array / matrix cases
def run_array_case(ctx, t, info, rng):
    from bermuda import Triangle

    _, _, _, arr, _ = B()
    problems = []
    field = rng.choice(info["fields"])
    m = t.cells[0].metadata
    res = info["rp"]
    pass_res = rng.random() < 0.5 or len(t.periods) < 2
    try:
        df = arr.triangle_to_array_data_frame(t, field)
        lags = [int(c) for c in df.columns[1:]]
        rows = []
        for tup in df.itertuples(index=False, name=None):
            vals = ["None" if (v is None or (isinstance(v, float) and math.isnan(v))) else f"(Some {zl(n1024(v))})" for v in tup[1:]]
            rows.append(f"({tup[0].toordinal()}, [{';'.join(vals)}])")
        ftxt = f"(Ok (mkAF [{';'.join(zl(x) for x in lags)}] [{';'.join(rows)}]))"
    except ct.NotRepresentable:
        raise
    except Exception as ex:  # noqa: BLE001
        df, ftxt = None, f"(Err {ct.cerr(ex)})"
    with warnings.catch_warnings():
        warnings.simplefilter("ignore")
        btxt, back, ex = cresult_cells_fl(lambda: arr.array_data_frame_to_triangle(
            df.copy(), field, period_resolution=res if pass_res else None, metadata=m))
    want_t = Triangle([c.replace(values={field: c.values[field]}) for c in t if field in c.values])
    single = all(list(c.values) == [field] for c in t)
    contiguous = pass_res or mid(t.periods[1][0]) - mid(t.periods[0][0]) == res
    in_hyps = single and contiguous
    if ex is not None:
        problems.append(f"array frame: raised {type(ex).__name__}: {str(ex)[:100]}")
    elif contiguous:
        got, w = canon_tri(back), canon_tri(want_t)
        if got != w:
            diff = [x for x in w if x not in got][:1] + [x for x in got if x not in w][:1]
            problems.append(f"array frame round trip differs: {diff}")
    rec = (f"(mkA {ct.ccells(t.cells)} {ct.cstr(field)} {('(Some %d)' % res) if pass_res else 'None'} {ct.cmeta(m)}\n"
           f"  {ftxt}\n  {btxt} {'true' if in_hyps else 'false'})")
    return rec, problems


def gcd_diffs(xs):
    xs = sorted(set(xs))
    g = 0
    for a, b in zip(xs, xs[1:]):
        g = math.gcd(g, b - a)
    return g


def matrix_class(t):
    """None if the triangle lies inside the hypotheses of the Matrix theorem, 'single_eval' if the code
    refuses it by design, else the finding class of the hypothesis it breaks."""
    starts = [mid(c.period_start) for c in t]
    nexts = [mid(c.period_end) + 1 for c in t]
    lens = {mid(c.period_end) - mid(c.period_start) + 1 for c in t}
    evs = {mid(c.evaluation_date) for c in t}
    if len(evs) < 2:
        return "single_eval"
    er, dr = gcd_diffs(starts + nexts), gcd_diffs(evs)
    if lens != {er}:
        return {"kind": "matrix_period_gap"}
    if dr % er and er % dr:
        return {"kind": "matrix_resolutions_not_nested"}
    if t.is_incremental:
        step = min(er, dr)
        origin = min(mid(c.evaluation_date) - mid(c.period_end) for c in t)
        for c in t:
            lag = mid(c.evaluation_date) - mid(c.period_end)
            k = (lag - origin) // step
            want = c.period_start - datetime.timedelta(days=1) if k == 0 else me(mid(c.period_end) + origin + (k - 1) * step)
            if c.prev_evaluation_date != want:
                return {"kind": "matrix_incremental_prev_from_empty_column"}
    return None


def run_matrix_case(ctx, t, info):
    _, _, _, _, mx = B()
    problems = []
    fields = sorted(t.fields)
    mat = None
    try:
        with warnings.catch_warnings():
            warnings.simplefilter("ignore")
            mat = mx.triangle_to_matrix(t)
        ix = mat.index
        ents = []
        it = np.argwhere(~np.isnan(mat.data))
        for i, f, p, d in it.tolist():
            ents.append(f"(({i},{f},{p},{d}),{zl(n1024(float(mat.data[i, f, p, d])))})")
        sh = mat.data.shape
        mtxt = (f"(Ok (mkMI {zl(ix._exp_origin)} {zl(ix._exp_resolution)} {zl(ix._dev_origin)} {zl(ix._dev_resolution)} "
                f"{sh[0]} {sh[1]} {sh[2]} {sh[3]} [{';'.join(ents)}]))")
    except ct.NotRepresentable:
        raise
    except Exception as ex:  # noqa: BLE001
        mtxt = f"(Err {ct.cerr(ex)})"
    btxt, back, ex = cresult_cells_fl(lambda: mx.matrix_to_triangle(mat))
    cls = matrix_class(t)
    single_eval = cls == "single_eval"
    in_hyps = cls is None
    info["class"] = cls
    if mat is None:
        if not single_eval:
            problems.append("triangle_to_matrix refused a month-aligned semi-regular triangle with >= 2 evaluation dates")
    elif ex is not None:
        problems.append(f"matrix_to_triangle raised {type(ex).__name__}: {str(ex)[:100]}")
    else:
        got, w = canon_tri(back), canon_tri(t)
        if got != w:
            diff = [x for x in w if x not in got][:1] + [x for x in got if x not in w][:1]
            problems.append(f"Matrix round trip differs ({len(got)} cells back, {len(w)} expected): {diff}")
        elif len(back.slices) != len(t.slices):
            problems.append(f"Matrix round trip: {len(back.slices)} slices back, {len(t.slices)} before")
    if in_hyps and not info["inc"]:
        rp_ = rich_matrix_problems(t)
        if rp_:
            problems.append(rp_[0])
    info["pre1970"] = any(c.period_start.year < 1970 for c in t)
    rec = f"(mkM {ct.ccells(t.cells)} {cstrs(fields)}\n  {mtxt}\n  {btxt} {'true' if in_hyps else 'false'})"
    return rec, problems


# ============================================================================== replay encoding
def tri_to_data(t):
    from bermuda.io import json as bjson  # noqa: F401

    return t.to_dict()


def tri_from_data(d):
    from bermuda import Triangle

    return Triangle.from_dict(d)


# ============================================================================== directed probes
def mkc(ps_, pe_, ev_, vals, m=None, prev=None):
    from bermuda import CumulativeCell, IncrementalCell, Metadata

    m = m or Metadata()
    if prev is not None:
        return IncrementalCell(period_start=ps_, period_end=pe_, evaluation_date=ev_, prev_evaluation_date=prev,
                               values=vals, metadata=m)
    return CumulativeCell(period_start=ps_, period_end=pe_, evaluation_date=ev_, values=vals, metadata=m)


def csv_roundtrip_problems(t, tmp, tag, wide=True, long=True):
    """strict direct oracle through real CSV files; returns list of problem strings"""
    from bermuda import Triangle

    fn, dn, ln = names_of(t)
    out = []
    want = canon_tri(t)
    wantm = canon_tri(t, merge_loss=True)
    todo = []
    if wide:
        todo.append(("wide CSV", lambda p: t.to_wide_csv(p),
                     lambda p: Triangle.from_wide_csv(p, field_cols=list(fn), loss_detail_cols=list(ln)), want))
    if long:
        todo.append(("long CSV", lambda p: t.to_long_csv(p), lambda p: Triangle.from_long_csv(p), wantm))
    for what, wr, rd, w in todo:
        p = str(tmp / f"{tag}_{what[:4]}.csv")
        try:
            wr(p)
            back = rd(p)
        except Exception as ex:  # noqa: BLE001
            out.append(f"{what}: raised {type(ex).__name__}: {str(ex)[:100]}")
            continue
        got = canon_tri(back)
        if got != w:
            diff = [x for x in w if x not in got][:1] + [x for x in got if x not in w][:1]
            out.append(f"{what}: {len(back)} cells / {len(back.slices)} slices back, {len(t)} / {len(t.slices)} written; "
                       f"first difference {diff}")
        elif len(back.slices) != len(t.slices):
            out.append(f"{what}: {len(back.slices)} slices back, {len(t.slices)} written")
        else:
            # "numeric values as floats": ONE number written (Python / NumPy scalar, 0-d array) is one number back, not a
            # 1-element sample vector (the canonical form above identifies the two because a written 1-element vector
            # legitimately comes back as a scalar; the converse is a change of the value's kind)
            kw = {"merge_loss": True} if w is wantm and w is not want else {}
            a = sorted(t, key=lambda c: repr(canon_cell(c, **kw)))
            b = sorted(back, key=lambda c: repr(canon_cell(c, **kw)))
            for ca, cb in zip(a, b):
                for k_, va in ca.values.items():
                    vb = cb.values.get(k_)
                    if not (isinstance(va, np.ndarray) and va.ndim >= 1) and isinstance(vb, np.ndarray) and vb.ndim >= 1:
                        out.append(f"{what}: field {k_} held the single number {va!r} ({type(va).__name__}) and came back as the "
                                   f"{vb.shape} array {vb!r}")
                        break
                else:
                    continue
                break
    return out


def matrix_roundtrip_problems(t):
    _, _, _, _, mx = B()
    try:
        with warnings.catch_warnings():
            warnings.simplefilter("ignore")
            back = mx.matrix_to_triangle(mx.triangle_to_matrix(t))
    except Exception as ex:  # noqa: BLE001
        return [f"Matrix round trip raised {type(ex).__name__}: {str(ex)[:100]}"]
    got, w = canon_tri(back), canon_tri(t)
    if got != w:
        diff = [x for x in w if x not in got][:1] + [x for x in got if x not in w][:1]
        return [f"Matrix round trip differs ({len(got)} cells back, {len(w)} expected); first difference {diff}"]
    return []


def rich_matrix_problems(t):
    """triangle_to_rich_matrix / rich_matrix_to_triangle on a cumulative triangle inside the Matrix hypotheses"""
    from bermuda.io import rich_matrix as rmx

    try:
        with warnings.catch_warnings():
            warnings.simplefilter("ignore")
            back = rmx.rich_matrix_to_triangle(rmx.triangle_to_rich_matrix(t))
    except Exception as ex:  # noqa: BLE001
        return [f"rich Matrix round trip raised {type(ex).__name__}: {str(ex)[:100]}"]
    got, w = canon_tri(back), canon_tri(t)
    if got != w:
        diff = [x for x in w if x not in got][:1] + [x for x in got if x not in w][:1]
        return [f"rich Matrix round trip differs ({len(got)} cells back, {len(w)} expected); first difference {diff}"]
    return []


def array_explicit_problems(t, res):
    _, _, _, arr, _ = B()
    f = t.fields[0]
    try:
        with warnings.catch_warnings():
            warnings.simplefilter("ignore")
            back = arr.array_data_frame_to_triangle(arr.triangle_to_array_data_frame(t, f), f, period_resolution=res,
                                                    metadata=t.cells[0].metadata)
    except Exception as ex:  # noqa: BLE001
        return [f"array frame (period_resolution={res}) raised {type(ex).__name__}: {str(ex)[:100]}"]
    got, w = canon_tri(back), canon_tri(t)
    if got != w:
        diff = [x for x in w if x not in got][:1] + [x for x in got if x not in w][:1]
        return [f"array frame (period_resolution={res}): round trip differs; first difference {diff}"]
    return []


def array_default_problems(t):
    """array frame round trip with the DEFAULT period_resolution (inferred from the first two periods)"""
    _, _, _, arr, _ = B()
    f = t.fields[0]
    try:
        with warnings.catch_warnings():
            warnings.simplefilter("ignore")
            back = arr.array_data_frame_to_triangle(arr.triangle_to_array_data_frame(t, f), f, metadata=t.cells[0].metadata)
    except Exception as ex:  # noqa: BLE001
        return [f"array frame with inferred period resolution raised {type(ex).__name__}: {str(ex)[:100]}"]
    got, w = canon_tri(back), canon_tri(t)
    if got != w:
        diff = [x for x in w if x not in got][:1] + [x for x in got if x not in w][:1]
        return [f"array frame with inferred period resolution: round trip differs; first difference {diff}"]
    return []


def directed_probes(ctx, tmp):
    """fixed findings F8 / F12 / F15 (a recurrence is a VIOLATION) and known findings G1-G4."""
    from bermuda import Metadata, Triangle

    a = np.array([3.0, 1.0, 2.0])
    P = (D(2020, 1, 1), D(2020, 3, 31))
    probes = []
    # F8: slices differing only in one of country/currency/reinsurance_basis/loss_definition
    for attr in ("country", "currency", "reinsurance_basis", "loss_definition"):
        t = Triangle([mkc(*P, D(2020, 3, 31), {"paid_loss": 1.0 + i}, Metadata(**{attr: v})) for i, v in enumerate(("US", "DE"))])
        probes.append((f"F8/{attr}", t, "csv", {"kind": "frame_groupby_missing_metadata_columns"}))
        t2 = Triangle([mkc(*P, D(2020, 3, 31), {"paid_loss": a + i}, Metadata(**{attr: v})) for i, v in enumerate(("US", "DE"))])
        probes.append((f"F8/{attr}/samples", t2, "csv", {"kind": "frame_groupby_missing_metadata_columns"}))
    # F15: sample-valued cells with mixed field coverage
    t = Triangle([mkc(*P, D(2020, 3, 31), {"paid_loss": a, "reported_loss": a + 1}), mkc(*P, D(2020, 6, 30), {"paid_loss": a + 2})])
    probes.append(("F15", t, "csv", {"kind": "wide_missing_sample_field_array_of_none"}))
    # F12: holey triangle (evaluation gap larger than the period length)
    t = Triangle([mkc(D(2020, 1, 1), D(2020, 12, 31), D(2020, 12, 31) if k == 0 else D(2022, 12, 31), {"paid_loss": 1.0 + k}) for k in range(2)])
    probes.append(("F12", t, "matrix", {"kind": "matrix_inverse_step"}))
    t = Triangle([mkc(ms(600 + 3 * p), me(602 + 3 * p), me(602 + 3 * p + lag), {"paid_loss": 1.0 + p + lag})
                  for p in range(3) for lag in (0, 12, 24)])
    probes.append(("F12/quarterly-annual", t, "matrix", {"kind": "matrix_inverse_step"}))
    # known findings
    t = Triangle([mkc(ms(600 + s), me(600 + s + 11), me(600 + s + 11 + lag), {"paid_loss": 1.0}) for s in (0, 18) for lag in (0, 12)])
    probes.append(("G1", t, "matrix", {"kind": "matrix_period_gap"}))
    t = Triangle([mkc(ms(600 + s), me(600 + s + 1), me(605 + 3 * j), {"paid_loss": 1.0}) for s in (0, 2, 4) for j in (0, 1)])
    probes.append(("G2", t, "matrix", {"kind": "matrix_resolutions_not_nested"}))
    t = Triangle([mkc(*P, D(2020, 3, 31), {"paid_loss": 1.0}, Metadata(risk_basis=None)),
                  mkc(*P, D(2020, 3, 31), {"paid_loss": 2.0}, Metadata(risk_basis="Accident"))])
    probes.append(("G3", t, "csv", {"kind": "frame_risk_basis_none"}))
    t = Triangle([mkc(*P, D(2020, 3, 31), {"paid_loss": 1.0}, Metadata(risk_basis=None))])
    probes.append(("G3/single", t, "csv", {"kind": "frame_risk_basis_none"}))
    t = Triangle([mkc(*P, D(2020, 3, 31), {"paid_loss": 1.0}, Metadata(country="NA")),
                  mkc(*P, D(2020, 3, 31), {"paid_loss": 2.0}, Metadata(country=None))])
    probes.append(("G4", t, "csv", {"kind": "csv_na_token_string"}))
    t = Triangle([mkc(D(2003, 4, 1), D(2003, 6, 30), D(2003, 6, 30), {"paid_loss": 1.0}),
                  mkc(D(2003, 7, 1), D(2003, 9, 30), D(2003, 9, 30), {"paid_loss": 2.0})])
    probes.append(("G5", t, "array-default", {"kind": "array_inferred_period_resolution"}))
    t = Triangle([mkc(D(2020, 2, 1), D(2020, 2, 29), D(2020, 2, 29), {"paid_loss": 1.0}),
                  mkc(D(2020, 3, 1), D(2020, 3, 31), D(2020, 3, 31), {"paid_loss": 2.0})])
    probes.append(("G5/monthly", t, "array-default", {"kind": "array_inferred_period_resolution"}))
    cs = []
    for s_ in (600, 601):
        prev = ms(s_) - datetime.timedelta(days=1)
        for lag in (0, 3, 6):
            cs.append(mkc(ms(s_), me(s_), me(s_ + lag), {"paid_loss": 1.0 + lag}, prev=prev))
            prev = me(s_ + lag)
    probes.append(("G6", Triangle(cs), "matrix", {"kind": "matrix_incremental_prev_from_empty_column"}))
    # falsy detail / loss-detail values (0, 0.0) as the distinguishing and as a shared value
    zcls = {"kind": "frame_falsy_detail_dropped"}
    for nm, mk_m in [("details", lambda v: Metadata(details={"layer": v, "zone": 0})),
                     ("loss_details", lambda v: Metadata(loss_details={"layer": v, "w": 0.0}))]:
        for vals_name, mkv in [("scalar", lambda i: {"paid_loss": 1.0 + i}), ("samples", lambda i: {"paid_loss": a + i})]:
            t = Triangle([mkc(*P, D(2020, 3, 31), mkv(i), mk_m(v)) for i, v in enumerate((0, 1))])
            probes.append((f"Z/{nm}/{vals_name}", t, "csv", zcls))
        t = Triangle([mkc(*P, D(2020, 3, 31), {"paid_loss": 1.0 + i}, mk_m(v), prev=D(2019, 12, 31)) for i, v in enumerate((0.0, 2.5))])
        probes.append((f"Z/{nm}/incremental", t, "csv", zcls))
    def grid(s0, rp, re_, npd=3, nl=3):
        return Triangle([mkc(ms(s0 + p * rp), me(s0 + p * rp + rp - 1), me(s0 + p * rp + rp - 1 + j * re_), {"paid_loss": 1.0 + p + j})
                         for p in range(npd) for j in range(nl)])
    for nm, (s0, rp, re_) in [("monthly-1963", (-84, 1, 1)), ("quarterly-1965", (-60, 3, 3)), ("quarterly-1969", (-7, 3, 3)),
                              ("annual-straddle", (-14, 12, 12)), ("monthly-straddle", (-3, 1, 3))]:
        probes.append((f"PRE1970/matrix/{nm}", grid(s0, rp, re_), "matrix", {"kind": "matrix_pre1970_month_ids"}))
        probes.append((f"PRE1970/rich/{nm}", grid(s0, rp, re_), "rich", {"kind": "matrix_pre1970_month_ids"}))
    # family M: slices distinguished ONLY by values whose CPython hashes collide
    mcls = {"kind": "hash_colliding_slice_values"}
    for nm, mk_m, pairs in [
        ("detail", lambda v: Metadata(details={"layer": v}), [(-1, -2), (-1.0, -2.0), (0, 2 ** 61 - 1)]),
        ("loss_detail", lambda v: Metadata(loss_details={"layer": v}), [(-1, -2), (-2.0, -1.0)]),
        ("limit", lambda v: Metadata(per_occurrence_limit=v), [(-1, -2), (0, 2 ** 61 - 1), (-2, -1)]),
    ]:
        for va, vb in pairs:
            tag = f"{nm}/{va}|{vb}"
            tcsv = Triangle([mkc(*P, D(2020, 3, 31) if j == 0 else D(2020, 6, 30), {"paid_loss": 1.0 + i + 10 * j}, mk_m(v))
                             for i, v in enumerate((va, vb)) for j in range(2)])
            probes.append((f"HASH/csv/{tag}", tcsv, "csv", mcls))
            tsam = Triangle([mkc(*P, D(2020, 3, 31), {"paid_loss": a + i}, mk_m(v)) for i, v in enumerate((vb, va))])
            probes.append((f"HASH/csv-samples/{tag}", tsam, "csv", mcls))
            tmx = Triangle([mkc(ms(600 + 3 * p_), me(602 + 3 * p_), me(602 + 3 * p_ + 3 * j), {"paid_loss": 1.0 + i + p_ + 10 * j}, mk_m(v))
                            for i, v in enumerate((va, vb)) for p_ in range(2) for j in range(3)])
            probes.append((f"HASH/matrix/{tag}", tmx, "matrix", mcls))
            probes.append((f"HASH/rich/{tag}", tmx, "rich", mcls))
    # multi-slice triangles whose slices have different period sets: the slice that sorts first lacks its first / a
    # middle / its last period (Triangle.periods, is_semi_regular and the matrix sizes must look at ALL cells)
    scls = {"kind": "matrix_per_slice_period_sets"}
    for attr, va, vb in [("details", {"s": 1}, {"s": 2}), ("country", "AA", "ZZ"), ("loss_details", {"cov": "a"}, {"cov": "b"})]:
        for missing in (0, 1, 3):
            for holder in (0, 1):     # which of the two slices lacks the period
                cs = []
                for si, v in enumerate((va, vb)):
                    for p_ in range(4):
                        if si == holder and p_ == missing:
                            continue
                        for j in range(3):
                            cs.append(mkc(ms(600 + 3 * p_), me(602 + 3 * p_), me(602 + 3 * p_ + 3 * j), {"paid_loss": 1.0 + si + p_ + 10 * j},
                                          Metadata(**{attr: v})))
                tps = Triangle(cs)
                probes.append((f"SLICEPERIODS/matrix/{attr}/missing{missing}/slice{holder}", tps, "matrix", scls))
                probes.append((f"SLICEPERIODS/rich/{attr}/missing{missing}/slice{holder}", tps, "rich", scls))
    # family P: evaluation steps whose gcd is smaller than the smallest step; whole periods missing
    pcls = {"kind": "matrix_eval_gcd_smaller_than_step"}
    for nm, (s0, rp_, lags, starts) in [("annual+0+6+15", (576, 12, (0, 6, 15), (0, 12))), ("half-year+0+4+10", (600, 6, (0, 4, 10), (0, 6))),
                                        ("annual-2018-2020-without-2019", (576, 12, (0, 6, 15), (0, 24))),
                                        ("H1-only half-years", (600, 6, (0, 6, 18), (0, 12, 24))), ("monthly+0+9+15", (600, 1, (0, 9, 15), (0, 1, 2)))]:
        tp = Triangle([mkc(ms(s0 + st), me(s0 + st + rp_ - 1), me(s0 + st + rp_ - 1 + lag), {"paid_loss": 1.0 + st + lag})
                       for st in starts for lag in lags])
        probes.append((f"GCD/matrix/{nm}", tp, "matrix", pcls))
        probes.append((f"GCD/rich/{nm}", tp, "rich", pcls))
    fid = lambda y, m: (y - 1970) * 12 + m - 1  # noqa: E731
    fcls = {"kind": "century_february_month_length"}
    for nm, (s0, rp, re_) in [("2100-monthly", (fid(2099, 12), 1, 1)), ("2100-quarterly", (fid(2099, 9), 3, 3)),
                              ("2100-half", (fid(2099, 9), 6, 6)), ("2100-annual", (fid(2098, 3), 12, 12)),
                              ("2100-monthly-q-evals", (fid(2099, 11), 1, 3)),
                              ("2000-monthly", (fid(1999, 12), 1, 1)), ("2024-monthly", (fid(2023, 12), 1, 1)),
                              ("2023-monthly", (fid(2022, 12), 1, 1)), ("2200-monthly", (fid(2199, 12), 1, 1))]:
        g = grid(s0, rp, re_, 4, 4)
        probes.append((f"FEB/matrix/{nm}", g, "matrix", fcls))
        probes.append((f"FEB/rich/{nm}", g, "rich", fcls))
        probes.append((f"FEB/array/{nm}", g, f"array-explicit:{rp}", fcls))
        probes.append((f"FEB/array-default/{nm}", g, "array-default", fcls))
    probes.append(("PRE1970/array/quarterly-1965", grid(-60, 3, 3), "array-explicit:3", {"kind": "array_pre1970_add_months_f10"}))
    probes.append(("PRE1970/array/monthly-1963", grid(-84, 1, 1), "array-explicit:1", {"kind": "array_pre1970_add_months_f10"}))
    n = 0
    for name, t, how, cls in probes:
        n += 1
        if how == "csv":
            probs = csv_roundtrip_problems(t, tmp, "probe_" + re.sub(r"\W", "_", name))
        elif how == "array-default":
            probs = array_default_problems(t)
        elif how == "rich":
            probs = rich_matrix_problems(t)
        elif how.startswith("array-explicit:"):
            probs = array_explicit_problems(t, int(how.split(":")[1]))
        else:
            probs = matrix_roundtrip_problems(t)
        ctx.hist("probe:" + name.split("/")[0])
        listed = any(k_.get("property") == ctx.pid and k_.get("class") == cls for k_ in ctx.known)
        if probs and cls == {"kind": "array_pre1970_add_months_f10"} and not listed:
            # F10 (C12: add_months before 1970) surfacing inside array.py; reported to the lead, becomes a
            # KNOWN-FINDING / VIOLATION as soon as known_findings.json carries an entry of this class
            ctx.notes.append(f"UNLISTED FINDING {cls}: [{name}] {probs[0]}")
            ctx.log(f"UNLISTED FINDING (not in known_findings.json) {cls}: [{name}] {probs[0][:160]}")
            continue
        if probs:
            ctx.violation("impl-violation", f"[{name}] {probs[0]}",
                          {"kind": how, "probe": name, "triangle": tri_to_data(t), "problems": probs},
                          found_input=True, finding_class=cls)
    ctx.count(evaluations=n)


# ============================================================================== hardening stream (notes/HARDENING.md)
PENDING_CLASSES = [{"kind": "array_pre1970_add_months_f10"}, {"kind": "frame_flat_name_collision"}]


def _diff_msg(what, got, w):
    diff = [x for x in w if x not in got][:1] + [x for x in got if x not in w][:1]
    return f"{what}: {len(got)} cells back, {len(w)} expected; first difference {diff}"


def expect_tri(what, thunk, want):
    try:
        with warnings.catch_warnings():
            warnings.simplefilter("ignore")
            back = thunk()
    except Exception as ex:  # noqa: BLE001
        return [f"{what}: raised {type(ex).__name__}: {str(ex)[:100]}"]
    got = canon_tri(back)
    return [] if got == want else [_diff_msg(what, got, want)]


def expect_raises(what, thunk):
    try:
        with warnings.catch_warnings():
            warnings.simplefilter("ignore")
            thunk()
    except Exception:  # noqa: BLE001
        return []
    return [f"{what}: documented refusal no longer refuses"]


def hardening_cases(tmp):
    """small directed cases, one per input family of notes/HARDENING.md; each entry is
    (family, name, thunk -> list of problems, finding class or None)"""
    import pandas as pd
    from bermuda import CumulativeCell, Metadata, Triangle

    _, dfi, dfo, arr, mx = B()
    P = (D(2020, 1, 1), D(2020, 3, 31))
    E1, E2 = D(2020, 3, 31), D(2020, 6, 30)
    a3 = np.array([3.0, 1.0, 2.0])
    out = []

    def add(fam, name, thunk, cls=None):
        out.append((fam, name, thunk, cls))

    def csv(t, **kw):
        return lambda: csv_roundtrip_problems(t, tmp, "hard", **kw)

    def grid(s0, rp, re_, npd=3, nl=3, vals=None, m=None):
        return Triangle([mkc(ms(s0 + p * rp), me(s0 + p * rp + rp - 1), me(s0 + p * rp + rp - 1 + j * re_),
                             (vals(p, j) if vals else {"paid_loss": 1.0 + p + j}), m) for p in range(npd) for j in range(nl)])

    # ---- A: equal Metadata spelled differently inside one slice
    mA1 = Metadata(details={"a": 7, "b": "x"}, loss_details={"c": 1, "d": 2.5}, per_occurrence_limit=1000)
    mA2 = Metadata(details={"b": "x", "a": 7.0}, loss_details={"d": 2.5, "c": 1.0}, per_occurrence_limit=1000.0)
    tA = Triangle([mkc(*P, E1, {"paid_loss": 1.0}, mA1), mkc(*P, E2, {"paid_loss": 2.0}, mA2),
                   mkc(*P, E1, {"paid_loss": 3.0}, Metadata(details={"b": "y", "a": 7}))])
    add("A", "csv equal metadata spelled differently", csv(tA))
    add("A", "slices of equally spelled metadata", lambda: [] if len(tA.slices) == 2 else [f"{len(tA.slices)} slices, expected 2"])
    gA = Triangle([mkc(ms(600 + 3 * p), me(602 + 3 * p), me(602 + 3 * p + 3 * j), {"paid_loss": 1.0 + p + j}, mA1 if (p + j) % 2 else mA2)
                   for p in range(2) for j in range(3)])
    add("A", "matrix equal metadata spelled differently", lambda: matrix_roundtrip_problems(gA) + rich_matrix_problems(gA))
    # ---- B: distinct Metadata that flatten alike (H1, pending class) / only loss_details differ
    h1 = {"kind": "frame_flat_name_collision"}
    add("B", "detail vs loss_detail of the same name", csv(Triangle([mkc(*P, E1, {"paid_loss": 1.0}, Metadata(details={"k": "v"})),
                                                                      mkc(*P, E1, {"paid_loss": 2.0}, Metadata(loss_details={"k": "v"}))])), h1)
    add("B", "detail named like an attribute", csv(Triangle([mkc(*P, E1, {"paid_loss": 1.0}, Metadata(details={"currency": "USD"})),
                                                               mkc(*P, E1, {"paid_loss": 2.0}, Metadata(currency="USD"))])), h1)
    add("B", "single slice, detail named currency", csv(Triangle([mkc(*P, E1, {"paid_loss": 1.0}, Metadata(details={"currency": "USD"}))])), h1)
    for nm_, m_ in [("key in details and in loss_details", Metadata(details={"k": "v"}, loss_details={"k": "w"})),
                    ("detail named scenario", Metadata(details={"scenario": "base"})),
                    ("detail named field", Metadata(details={"field": "x"})),
                    ("detail named period_start", Metadata(details={"period_start": "x"}))]:
        add("B", "single slice, " + nm_, csv(Triangle([mkc(*P, E1, {"paid_loss": 1.0}, m_)])), h1)
    add("B", "detail None vs missing", csv(Triangle([mkc(*P, E1, {"paid_loss": 1.0}, Metadata(details={"k": None})),
                                                      mkc(*P, E1, {"paid_loss": 2.0}, Metadata())])), h1)
    add("B", "slices differing only in loss_details", csv(Triangle([mkc(*P, E1, {"paid_loss": 1.0 + i}, Metadata(loss_details={"cov": v}))
                                                                     for i, v in enumerate(("x", "y", "z"))])))
    # ---- C: calendar corners through the frames (dates are data there), 30/31-day ends, day before / after a month end
    tC = Triangle([mkc(D(2250, 2, 1), D(2250, 2, 28), D(2250, 3, 1), {"paid_loss": 1.0}),
                   mkc(D(1900, 2, 1), D(1900, 2, 28), D(1900, 3, 1), {"paid_loss": 2.0}),
                   mkc(D(2000, 2, 29), D(2000, 2, 29), D(2100, 2, 28), {"paid_loss": 3.0}),
                   mkc(D(1969, 12, 31), D(1970, 1, 1), D(1970, 1, 2), {"paid_loss": 4.0}),
                   mkc(D(2024, 4, 1), D(2024, 4, 30), D(2024, 4, 29), {"paid_loss": 5.0}),
                   mkc(D(2024, 4, 1), D(2024, 4, 30), D(2024, 5, 1), {"paid_loss": 6.0}),
                   mkc(D(2024, 1, 31), D(2024, 2, 29), D(2024, 3, 31), {"paid_loss": 7.0})])
    add("C", "csv calendar corners", csv(tC))
    tCi = Triangle([mkc(D(2100, 2, 1), D(2100, 2, 28), D(2100, 2, 28), {"paid_loss": 1.0}, prev=D(2100, 1, 31)),
                    mkc(D(2100, 2, 1), D(2100, 2, 28), D(2100, 3, 31), {"paid_loss": 2.0}, prev=D(2100, 2, 28))])
    add("C", "csv incremental around 2100-02-28", csv(tCi))
    # ---- D: coordinates given as datetime / Timestamp / datetime subclass with a time of day
    class _DT(datetime.datetime):
        pass
    for nm, mk in [("datetime", lambda y, m_, d: datetime.datetime(y, m_, d, 13, 45)),
                   ("Timestamp", lambda y, m_, d: pd.Timestamp(y, m_, d, 13, 45)), ("subclass", lambda y, m_, d: _DT(y, m_, d, 23, 59, 59))]:
        def tD(mk=mk):
            return Triangle([CumulativeCell(period_start=mk(2020, 1, 1), period_end=mk(2020, 3, 31), evaluation_date=mk(2020, 3 + 3 * j, 30 if j else 31),
                                            values={"paid_loss": 1.0 + j}) for j in range(2)])
        def plain(t):
            bad = [c for c in t if any(type(x) is not datetime.date for x in (c.period_start, c.period_end, c.evaluation_date))]
            return [f"cell holds {type(bad[0].period_start).__name__} coordinates"] if bad else []
        add("D", f"{nm} coordinates: plain dates, csv, matrix, array",
            lambda tD=tD, plain=plain: plain(tD()) + csv_roundtrip_problems(tD(), tmp, "hard") + matrix_roundtrip_problems(tD())
            + rich_matrix_problems(tD()) + array_explicit_problems(tD(), 3))
    # ---- E: falsy but valid values
    tE = Triangle([mkc(*P, E1, {"paid_loss": 0, "reported_loss": 0.0}, Metadata(per_occurrence_limit=0, details={"n": 0, "w": 0.0})),
                   mkc(*P, E2, {"paid_loss": np.array([0.0, 0.0, 0.0]), "reported_loss": np.array([0, 0, 0])},
                       Metadata(per_occurrence_limit=0, details={"n": 0, "w": 0.0}))])
    add("E", "csv zero values / limit / details", csv(tE))
    gE = grid(600, 3, 3, vals=lambda p, j: {"paid_loss": 0.0 if (p + j) % 2 else 0, "reported_loss": 0})
    add("E", "matrix / array zero values", lambda: matrix_roundtrip_problems(gE) + rich_matrix_problems(gE)
        + array_explicit_problems(gE.select(["paid_loss"]), 3))
    add("E", "matrix eval_resolution=0 means default",
        lambda: expect_tri("eval_resolution=0", lambda: mx.matrix_to_triangle(mx.triangle_to_matrix(gE, eval_resolution=0)), canon_tri(gE)))
    # ---- F: degenerate shapes
    # the empty triangle has no CSV form (KeyError 'scenario', modelled as Err KeyError; theorems carry t <> []): outside
    # C14's quantifier (triangles WITH cells) -- exercised, never flagged
    def empty():
        try:
            csv_roundtrip_problems(Triangle([]), tmp, "hard")
        except Exception:  # noqa: BLE001
            pass
        return []
    add("F", "empty triangle (not flagged)", empty)
    # a field whose value is None is not a number: it is not written and comes back absent
    tN = Triangle([mkc(*P, E1, {"paid_loss": 1.0, "reported_loss": None}), mkc(*P, E2, {"paid_loss": 2.0, "reported_loss": 4.0})])
    tNw = Triangle([mkc(*P, E1, {"paid_loss": 1.0}), mkc(*P, E2, {"paid_loss": 2.0, "reported_loss": 4.0})])

    def none_field():
        ph = str(tmp / "hard_none.csv")
        tN.to_wide_csv(ph)
        pr = expect_tri("wide CSV, None-valued field", lambda: Triangle.from_wide_csv(ph, field_cols=["paid_loss", "reported_loss"]), canon_tri(tNw))
        tN.to_long_csv(ph)
        return pr + expect_tri("long CSV, None-valued field", lambda: Triangle.from_long_csv(ph), canon_tri(tNw))
    add("F", "None-valued field is absent after the round trip", none_field)
    add("F", "one cell", csv(Triangle([mkc(*P, E1, {"paid_loss": 1.5})])))
    add("F", "one sample cell", csv(Triangle([mkc(*P, E1, {"paid_loss": a3})])))
    add("F", "field only at later evaluations", csv(Triangle([mkc(*P, E1, {"paid_loss": 1.0}), mkc(*P, E2, {"paid_loss": 2.0, "reported_loss": 3.0})])))
    add("F", "sample field missing in the first cell", csv(Triangle([mkc(*P, E1, {"paid_loss": a3}), mkc(*P, E2, {"paid_loss": a3 + 1, "reported_loss": a3 + 2})])))
    add("F", "scalar cell after sample cell", csv(Triangle([mkc(*P, E1, {"paid_loss": a3}), mkc(*P, E2, {"paid_loss": 5.0})])))
    g1 = grid(600, 3, 3, npd=1, nl=2)
    add("F", "matrix / array one period", lambda: matrix_roundtrip_problems(g1) + rich_matrix_problems(g1) + array_explicit_problems(g1, 3))
    gF = grid(600, 3, 3, vals=lambda p, j: ({"paid_loss": 1.0} if j == 0 else {"paid_loss": 2.0, "reported_loss": 3.0 + p}))
    add("F", "matrix field only at later evaluations", lambda: matrix_roundtrip_problems(gF) + rich_matrix_problems(gF))
    # ---- G: NumPy corner types
    tG = Triangle([mkc(*P, E1, {"paid_loss": np.float64(1.5), "reported_loss": np.int64(3)}),
                   mkc(*P, E2, {"paid_loss": np.array(2.5), "reported_loss": np.array([7])})])
    add("G", "csv numpy scalars, 0-d and size-1 arrays", csv(tG))
    tG2 = Triangle([mkc(*P, E1, {"paid_loss": np.array([1.5, 2.5, 4.0], dtype=np.float32), "reported_loss": np.array([3, 4, 5], dtype=np.int16)}),
                    mkc(*P, E2, {"paid_loss": np.arange(6.0)[::2], "reported_loss": np.asfortranarray(np.array([[1, 2, 3], [4, 5, 6]], dtype=np.int32))[1]})])
    add("G", "csv float32 / int16 / int32, strided arrays", csv(tG2))
    gG = grid(600, 3, 3, vals=lambda p, j: {"paid_loss": np.float64(1.5 + p), "reported_loss": np.int64(3 + j) if j else np.array(2.0)})
    add("G", "matrix numpy scalars and 0-d arrays", lambda: matrix_roundtrip_problems(gG))
    # ---- H: state between calls
    ta = Triangle([mkc(*P, E1, {"paid_loss": 1.0})])
    tb = Triangle([mkc(*P, E1, {"paid_loss": 9.0}, Metadata(country="DE")), mkc(*P, E2, {"paid_loss": 8.0}, Metadata(country="DE"))])

    def rewrite(write, read):
        ph = str(tmp / "hard_state.csv")
        getattr(ta, write)(ph)
        first = read(ph)
        getattr(tb, write)(ph)
        return expect_tri(f"{write} then rewritten", lambda: read(ph), canon_tri(tb)) + \
            ([] if canon_tri(first) == canon_tri(ta) else ["first load differs"])
    add("H", "path rewritten between loads (wide)", lambda: rewrite("to_wide_csv", lambda p_: Triangle.from_wide_csv(p_, field_cols=["paid_loss"])))
    add("H", "path rewritten between loads (long)", lambda: rewrite("to_long_csv", lambda p_: Triangle.from_long_csv(p_)))

    def twice():
        d1 = long_fix(dfo.triangle_to_wide_data_frame(tA))
        kw = dict(field_cols=["paid_loss"], loss_detail_cols=["c", "d"])
        r1 = dfi.wide_data_frame_to_triangle(d1, **kw)
        r2 = dfi.wide_data_frame_to_triangle(d1, **kw)
        d2 = long_fix(dfo.triangle_to_long_data_frame(tA))
        r3 = dfi.long_data_frame_to_triangle(d2, loss_detail_cols=["c", "d"])
        r4 = dfi.long_data_frame_to_triangle(d2, loss_detail_cols=["c", "d"])
        w = canon_tri(tA)
        return [f"call #{i} differs" for i, r in enumerate((r1, r2, r3, r4), 1) if canon_tri(r) != w]
    add("H", "same frame read twice", twice)
    add("H", "matrix twice", lambda: matrix_roundtrip_problems(gA) + matrix_roundtrip_problems(gA))
    # ---- I: restated cells (same coordinates twice, other values): never merged silently
    tI = Triangle([mkc(*P, E1, {"paid_loss": 1.0}), mkc(*P, E1, {"paid_loss": 2.0}), mkc(*P, E2, {"paid_loss": 3.0})])

    def restated():
        pr = []
        for what, wr, rd in [("wide", "to_wide_csv", lambda p_: Triangle.from_wide_csv(p_, field_cols=["paid_loss"])),
                             ("long", "to_long_csv", lambda p_: Triangle.from_long_csv(p_))]:
            ph = str(tmp / "hard_restated.csv")
            getattr(tI, wr)(ph)
            try:
                back = rd(ph)
            except Exception:  # noqa: BLE001
                continue            # loud refusal is fine
            if canon_tri(back) != canon_tri(tI):
                pr.append(f"{what} CSV: restated cells came back as {len(back)} cells without an error")
        return pr
    add("I", "restated cells refused or kept", restated)
    # ---- J: period layouts
    tJ = Triangle([mkc(D(2020, 1, 1), D(2020, 3, 31), E1, {"paid_loss": 1.0}), mkc(D(2020, 1, 1), D(2020, 12, 31), D(2020, 12, 31), {"paid_loss": 2.0}),
                   mkc(D(2020, 1, 16), D(2020, 1, 31), E1, {"paid_loss": 3.0}), mkc(D(2020, 1, 1), D(2020, 1, 15), E1, {"paid_loss": 3.5}),
                   mkc(D(2019, 7, 1), D(2020, 3, 31), E1, {"paid_loss": 4.0}), mkc(D(2019, 7, 1), D(2020, 3, 31), D(2020, 2, 29), {"paid_loss": 4.5})])
    add("J", "csv nested / overlapping / semi-monthly periods", csv(tJ))
    tJ2 = Triangle([mkc(*P, E1, {"paid_loss": 1.0}, Metadata(country="US")), mkc(*P, E2, {"paid_loss": 2.0}, Metadata(country="US")),
                    mkc(D(2021, 7, 1), D(2021, 7, 31), D(2022, 1, 31), {"paid_loss": 3.0}, Metadata(country="DE"))])
    add("J", "csv per-slice ragged rows", csv(tJ2))
    gJ = Triangle([mkc(ms(600 + s), me(600 + s + 2), me(600 + s + 2 + 3 * j), {"paid_loss": 1.0 + j}) for s in (0, 6, 15) for j in range(2)])
    add("J", "matrix / array periods with gaps, no two adjacent", lambda: matrix_roundtrip_problems(gJ) + rich_matrix_problems(gJ)
        + array_explicit_problems(gJ, 3))
    # ---- K: optional parameters at non-default values, positional spelling
    mK = Metadata(country="US", details={"lob": "auto", "n": 0}, loss_details={"cov": "x"})
    tK = Triangle([mkc(*P, E1, {"paid_loss": 1.0, "reported_loss": 2.0}, mK), mkc(*P, E2, {"paid_loss": 3.0}, mK)])
    wK, wKm = canon_tri(tK), canon_tri(tK, merge_loss=True)

    def kwide():
        ph = str(tmp / "hard_k.csv")
        tK.to_wide_csv(ph)
        fc = ["paid_loss", "reported_loss"]
        pr = expect_tri("detail_cols only", lambda: Triangle.from_wide_csv(ph, detail_cols=["lob", "n", "cov"], loss_detail_cols=["cov"]), wK)
        pr += expect_tri("field_cols and detail_cols", lambda: Triangle.from_wide_csv(ph, field_cols=fc, detail_cols=["lob", "n", "cov"], loss_detail_cols=["cov"]), wK)
        pr += expect_tri("positional", lambda: Triangle.from_wide_csv(ph, fc, None, ["cov"]), wK)
        pr += expect_tri("collapse_fields=[]", lambda: Triangle.from_wide_csv(ph, field_cols=fc, loss_detail_cols=["cov"], collapse_fields=[]), wK)
        pr += expect_tri("loss_detail_cols=[]", lambda: Triangle.from_wide_csv(ph, field_cols=fc, loss_detail_cols=[]), wKm)
        return pr
    add("K", "wide reader parameters", kwide)
    t2 = Triangle([mkc(*P, E1, {"paid_loss": 1.0}, Metadata(risk_basis="Policy", currency="EUR"))])
    dflt = Metadata(risk_basis="Policy", currency="EUR")
    add("K", "metadata= default (wide, long)", lambda: expect_tri(
        "wide metadata=", lambda: dfi.wide_data_frame_to_triangle(dfo.triangle_to_wide_data_frame(t2).drop(columns=["risk_basis", "currency"]),
                                                                  field_cols=["paid_loss"], metadata=dflt), canon_tri(t2))
        + expect_tri("long metadata=", lambda: dfi.long_data_frame_to_triangle(
            long_fix(dfo.triangle_to_long_data_frame(t2)).drop(columns=["risk_basis", "currency"]), metadata=dflt), canon_tri(t2)))
    t3 = Triangle([mkc(*P, E1, {"paid_loss": a3, "earned_premium": 5.0}), mkc(*P, E2, {"paid_loss": a3 + 1, "earned_premium": 6.0})])

    def kcollapse():
        ph = str(tmp / "hard_k3.csv")
        t3.to_wide_csv(ph)
        return expect_tri("collapse_fields", lambda: Triangle.from_wide_csv(ph, field_cols=["paid_loss", "earned_premium"],
                                                                           collapse_fields=["earned_premium"]), canon_tri(t3))
    add("K", "collapse_fields", kcollapse)
    gK = grid(600, 3, 3, vals=lambda p, j: {"paid_loss": 1.0 + p + j, "reported_loss": 2.0 + j})

    def kmatrix():
        def mt(**kw):
            return mx.matrix_to_triangle(mx.triangle_to_matrix(gK, **kw))
        return (expect_tri("fields subset", lambda: mt(fields=["paid_loss"]), canon_tri(gK.select(["paid_loss"])))
                + expect_tri("fields reordered", lambda: mt(fields=["reported_loss", "paid_loss"]), canon_tri(gK))
                + expect_tri("eval_resolution=3", lambda: mt(eval_resolution=3), canon_tri(gK))
                + expect_tri("eval_resolution=1 (finer)", lambda: mt(eval_resolution=1), canon_tri(gK))
                + expect_tri("positional", lambda: mx.matrix_to_triangle(mx.triangle_to_matrix(gK, None, ["paid_loss", "reported_loss"])), canon_tri(gK)))
    add("K", "matrix parameters", kmatrix)
    gKa = gK.select(["paid_loss"])

    def karray():
        def at(cols=None, **kw):
            df = arr.triangle_to_array_data_frame(gKa, "paid_loss")
            if cols:
                df.columns = cols
            return arr.array_data_frame_to_triangle(df, "paid_loss", metadata=gKa.cells[0].metadata, **kw)
        w = canon_tri(gKa)
        return (expect_tri("period_resolution=3", lambda: at(period_resolution=3), w)
                + expect_tri("eval_resolution=3", lambda: at(period_resolution=3, eval_resolution=3), w)
                + expect_tri("non-integer column names", lambda: at(cols=["period", "a", "b", "c"], period_resolution=3), w)
                + expect_tri("inferred", lambda: at(), w))
    add("K", "array parameters", karray)
    # ---- L: refusals both ways
    def refusals():
        ph = str(tmp / "hard_l.csv")
        tK.to_wide_csv(ph)
        dfw = dfo.triangle_to_wide_data_frame(tK)
        dfl = long_fix(dfo.triangle_to_long_data_frame(tK))
        one = Triangle([mkc(ms(600), me(602), me(605), {"paid_loss": 1.0}), mkc(ms(603), me(605), me(605), {"paid_loss": 2.0})])
        nm_ = Triangle([mkc(D(2020, 1, 1), D(2020, 3, 30), D(2020, 3, 31), {"paid_loss": 1.0}), mkc(D(2020, 1, 1), D(2020, 3, 30), D(2020, 6, 30), {"paid_loss": 1.0})])
        ov = Triangle([mkc(D(2020, 1, 1), D(2020, 3, 31), E1, {"paid_loss": 1.0}), mkc(D(2020, 1, 1), D(2020, 6, 30), E2, {"paid_loss": 1.0})])
        pr = []
        pr += expect_raises("wide: neither field_cols nor detail_cols", lambda: Triangle.from_wide_csv(ph))
        pr += expect_raises("wide: field_cols and detail_cols overlap", lambda: Triangle.from_wide_csv(ph, field_cols=["paid_loss", "lob"], detail_cols=["lob"]))
        pr += expect_raises("wide: loss_detail_cols not in detail_cols", lambda: Triangle.from_wide_csv(ph, field_cols=["paid_loss", "reported_loss"], detail_cols=["lob", "n"], loss_detail_cols=["cov"]))
        pr += expect_raises("wide: period_end column missing", lambda: dfi.wide_data_frame_to_triangle(dfw.drop(columns=["period_end"]), field_cols=["paid_loss", "reported_loss"]))
        pr += expect_raises("long: value column missing", lambda: dfi.long_data_frame_to_triangle(dfl.drop(columns=["value"])))
        pr += expect_raises("long: field column missing", lambda: dfi.long_data_frame_to_triangle(dfl.drop(columns=["field"])))
        pr += expect_raises("long: non-numeric value column", lambda: dfi.long_data_frame_to_triangle(dfl.assign(value="x")))
        pr += expect_raises("matrix: single evaluation date without eval_resolution", lambda: mx.triangle_to_matrix(one))
        pr += expect_raises("matrix: not month-aligned", lambda: mx.triangle_to_matrix(nm_))
        pr += expect_raises("matrix: overlapping periods", lambda: mx.triangle_to_matrix(ov))
        pr += expect_raises("array: several slices", lambda: arr.triangle_to_array_data_frame(tA, "paid_loss"))
        pr += expect_raises("array: incremental", lambda: arr.triangle_to_array_data_frame(tCi, "paid_loss"))
        pr += expect_raises("array: one period, resolution not given", lambda: arr.array_data_frame_to_triangle(
            arr.triangle_to_array_data_frame(g1, "paid_loss"), "paid_loss"))
        # valid inputs next to the boundary are NOT refused
        pr += expect_tri("matrix: single evaluation date WITH eval_resolution", lambda: mx.matrix_to_triangle(mx.triangle_to_matrix(one, eval_resolution=3)), canon_tri(one))
        pr += expect_tri("array: one period, resolution given", lambda: arr.array_data_frame_to_triangle(
            arr.triangle_to_array_data_frame(g1, "paid_loss"), "paid_loss", period_resolution=3, metadata=g1.cells[0].metadata), canon_tri(g1))
        pr += expect_tri("wide: loss_detail_cols inside detail_cols", lambda: Triangle.from_wide_csv(ph, field_cols=["paid_loss", "reported_loss"], detail_cols=["lob", "n", "cov"], loss_detail_cols=["cov"]), wK)
        return pr
    add("L", "refusals both ways", refusals)
    return out


def run_hardening_case(tmp, fam, name):
    for f, n, thunk, cls in hardening_cases(tmp):
        if f == fam and n == name:
            return thunk(), cls
    return [f"hardening case {fam}/{name} no longer exists"], None


def hardening_stream(ctx, tmp):
    n = 0
    for fam, name, thunk, cls in hardening_cases(tmp):
        n += 1
        ctx.hist("hardening:" + fam)
        try:
            probs = thunk()
        except Exception as ex:  # noqa: BLE001
            probs = [f"case raised {type(ex).__name__}: {str(ex)[:120]}"]
        if not probs:
            continue
        listed = any(k_.get("property") == ctx.pid and k_.get("class") == cls for k_ in ctx.known)
        if cls in PENDING_CLASSES and not listed:
            ctx.notes.append(f"UNLISTED FINDING {cls}: [HARD/{fam}/{name}] {probs[0]}")
            ctx.log(f"UNLISTED FINDING (not in known_findings.json) {cls}: [HARD/{fam}/{name}] {probs[0][:140]}")
            continue
        ctx.violation("impl-violation", f"[HARD/{fam}/{name}] {probs[0]}",
                      {"kind": "hardening", "family": fam, "case": name, "problems": probs[:5]}, found_input=True, finding_class=cls)
    ctx.count(evaluations=n)


# ============================================================================== large stream (family Q)
def large_cases(thorough):
    """big cases judged by the Python-side oracles only (no Coq literals: the theorems are size-independent, it is the
    correspondence that samples).  Each entry: (name, how, builder); the builder is deterministic, so a replay only
    records the name and the tier."""
    from bermuda import Metadata, Triangle

    B53 = 2 ** 53
    out = []

    def late_columns():
        # > 10,000 cells; the first 10,000 in Triangle order (metadata, period, evaluation) lack the attribute, detail,
        # loss detail and field that only the last slice carries
        npd, nev = (310, 100) if thorough else (104, 100)
        mA = Metadata()
        mB = Metadata(country="US", details={"lob": "x", "n": 3}, loss_details={"cov": "y"})
        cells = [mkc(ms(300 + p), me(300 + p), me(300 + p + j), {"paid_loss": float(p + j)}, mA) for p in range(npd) for j in range(nev)]
        cells += [mkc(ms(300 + p), me(300 + p), me(300 + p + j), {"paid_loss": 1.0, "reported_loss": 2.0 + j}, mB) for p in range(3) for j in range(4)]
        t = Triangle(cells)
        first = t.cells[:10000]
        assert len(t) > 10000 and all(c.metadata.country is None and "reported_loss" not in c.values for c in first)
        return t
    out.append(("late-columns-over-10000-cells", "csv", late_columns))

    def many_metadata():
        # > 2,100 (thorough > 4,200) distinct Metadata in one triangle, told apart only by integers beyond 2**53
        n = 4300 if thorough else 2200
        return Triangle([mkc(D(2020, 1, 1), D(2020, 3, 31), D(2020, 3, 31), {"paid_loss": float(i)},
                             Metadata(per_occurrence_limit=B53 + 1, details={"id": B53 + 1 + 2 * i}, loss_details={"layer": 9007199254740993 + 10 * (i % 7)}))
                         for i in range(n)])
    out.append(("many-metadata-integers-beyond-2**53", "csv", many_metadata))

    def big_limit():
        return Triangle([mkc(D(2020, 1, 1), D(2020, 3, 31), D(2020, 3 * (j + 1), 30 if j else 31), {"paid_loss": 1.0 + i + j},
                             Metadata(per_occurrence_limit=B53 + 1 + 2 * i, details={"n": -(B53 + 3)})) for i in range(2) for j in range(2)])
    out.append(("limit-and-detail-beyond-2**53", "csv", big_limit))

    def big_samples():
        n = 100000 if thorough else 4500
        base = np.arange(n, dtype=np.float64) / 8.0
        two_d = np.asfortranarray(np.stack([base * 3.0, base + 0.5], axis=1))
        return Triangle([mkc(D(2020, 1, 1), D(2020, 3, 31), D(2020, 3, 31), {"paid_loss": base[::-1], "reported_loss": two_d[:, 0]}),
                         mkc(D(2020, 1, 1), D(2020, 3, 31), D(2020, 6, 30), {"paid_loss": two_d[:, 1], "reported_loss": np.arange(n, dtype=np.int64)[::-1]}),
                         mkc(D(2020, 4, 1), D(2020, 6, 30), D(2020, 6, 30), {"paid_loss": base})])
    out.append(("sample-arrays-4500+-reversed-and-fortran-views", "csv", big_samples))

    def slices_256():
        # 3,100+ cells, slice boundaries at multiples of 256 in Triangle order
        sizes = [256, 512, 768, 1600]
        cells = []
        for si, n in enumerate(sizes):
            m = Metadata(country=f"C{si}", details={"n": si})
            cells += [mkc(ms(480 + k // 16), me(480 + k // 16), me(480 + k // 16 + k % 16), {"paid_loss": float(k), "reported_loss": k + 0.5}, m)
                      for k in range(n)]
        return Triangle(cells)
    out.append(("3100-cells-slice-boundaries-at-256", "csv", slices_256))

    def months_1100():
        # > 1,024 distinct months, single slice
        n = 4300 if thorough else 1100
        return Triangle([mkc(ms(p), me(p), me(p + j), {"paid_loss": float(p + j)}) for p in range(n) for j in range(2)])
    out.append(("more-than-1024-months", "grid:1", months_1100))

    def rows_70():
        # rows of 70 cells, 70+ distinct evaluation dates
        return Triangle([mkc(ms(600 + 3 * p), me(602 + 3 * p), me(602 + 3 * p + j), {"paid_loss": float(p * 100 + j)}) for p in range(5) for j in range(70)])
    out.append(("rows-of-70-cells-70-evaluation-dates", "grid:3", rows_70))
    return out


def run_large_case(name, thorough, tmp):
    for n, how, build in large_cases(thorough):
        if n == name:
            t = build()
            if how == "csv":
                return csv_roundtrip_problems(t, tmp, "large")
            res = int(how.split(":")[1])
            # the array-frame path goes through pandas Timestamps (limit 2262-04-11): keep that part inside
            # 1970-01 .. 2250-12; the Matrix parts take the whole triangle
            from bermuda import Triangle

            ta = Triangle([c for c in t if c.evaluation_date.year <= 2250 and c.period_start.year >= 1970])
            return matrix_roundtrip_problems(t) + rich_matrix_problems(t) + array_explicit_problems(ta, res)
    return [f"large case {name} no longer exists"]


def large_stream(ctx, tmp):
    thorough = not ctx.quick
    t00 = time.time()
    for name, how, _ in large_cases(thorough):
        t0 = time.time()
        try:
            probs = run_large_case(name, thorough, tmp)
        except Exception as ex:  # noqa: BLE001
            probs = [f"large case raised {type(ex).__name__}: {str(ex)[:120]}"]
        ctx.hist("large:" + name)
        ctx.log(f"large case {name}: {time.time() - t0:.1f}s, {len(probs)} problem(s)")
        if probs:
            ctx.violation("impl-violation", f"[LARGE/{name}] {probs[0][:600]}",
                          {"kind": "large", "case": name, "thorough": thorough, "problems": [p_[:600] for p_ in probs[:3]]}, found_input=True)
    # process-wide state (ring caches, pools): the earliest small cases must still hold AFTER the large work
    for fam, name, thunk, cls in hardening_cases(tmp):
        if cls is not None:
            continue
        try:
            probs = thunk()
        except Exception as ex:  # noqa: BLE001
            probs = [f"case raised {type(ex).__name__}: {str(ex)[:120]}"]
        if probs:
            ctx.violation("impl-violation", f"[RECHECK after large work: HARD/{fam}/{name}] {probs[0]}",
                          {"kind": "hardening", "family": fam, "case": name, "after_large": True, "problems": probs[:5]}, found_input=True)
    ctx.count(evaluations=len(large_cases(thorough)) + 40)
    ctx.notes.append("large stream (family Q): judged by the Python-side oracles only, no Coq literals (the theorems are "
                     "size-independent; the correspondence samples); followed by a re-check of the small directed cases")
    ctx.log(f"large stream: {time.time() - t00:.1f}s")


# ============================================================================== coq case files
def write_case_file(ctx, name, kind, recs):
    chk = {"F": ("fcase", "check_fcase"), "A": ("acase", "check_acase"), "M": ("mcase", "check_mcase")}[kind]
    body = ";\n".join(recs)
    txt = (CASE_HEADER + f"Definition cases : list {chk[0]} := [\n{body}].\n"
           f"Eval vm_compute in fails_of {chk[1]} cases.\n")
    f = ctx.build / f"{name}.v"
    f.write_text(txt)
    return f


def parse_fails(out):
    vals = parse_coq_eval(out)
    if not vals:
        return None
    return [int(x) for x in re.findall(r"(\d+)%nat", vals[-1])] if "%nat" in vals[-1] else \
        [int(x) for x in re.findall(r"\d+", vals[-1])]


FCHECKS = ["frame_hyps value", "to_wide_rows = impl wide frame", "to_long_rows = impl long frame",
           "from_wide_rows(impl table, shuffled) = impl result", "from_long_rows(impl table, shuffled) = impl result",
           "from_long_rows without loss cols = impl result", "model wide round trip = impl result",
           "model long round trip = impl result", "THEOREM wide: impl result = floatify t",
           "THEOREM long: impl result = floatify t", "THEOREM long CSV: impl result = floatify_merged t"]
ACHECKS = ["to_array = impl array frame", "from_array(impl frame) = impl result", "THEOREM array: impl result = floatify t"]
MCHECKS = ["triangle_to_matrix = impl matrix/index", "matrix_to_triangle(model matrix) = impl result",
           "THEOREM matrix: impl result = floatify t"]


# ============================================================================== run
def run(ctx):
    from translate import t_frame

    warnings.filterwarnings("ignore")
    tmp = ctx.build / "csv"
    shutil.rmtree(tmp, ignore_errors=True)
    tmp.mkdir(parents=True, exist_ok=True)
    ctx.rule = (
        "frame cases: FGen (harness/gen.py subclass) triangles, 1-4 slices differing in exactly one of the eight metadata "
        "attributes / a numeric detail / presence of a detail / several, layouts regular ragged holey irregular single_period "
        "single_lag daily, cumulative int/float/int64-array/float64-array values with full or mixed field coverage, scalar "
        "incremental; every case goes through triangle_to_{wide,long}_data_frame, the readers on row-shuffled frames, and "
        "real to_*_csv/from_*_csv files; array frames: single-slice month-aligned triangles over resolutions 1/3/6/12 "
        "(rect/ragged/holey/fixed evaluation dates); matrices: month-aligned semi-regular triangles on one period grid with "
        "nested resolutions, complete and holey, 1-3 slices, cumulative and complete incremental.  Non-trivial = distinct "
        "canonical triangle with >= 2 cells.")
    ctx.assumptions += [
        "pandas layer not modelled: CSV text, read_csv dtype inference, groupby(dropna=False), PeriodIndex; the model "
        "assumes the table pandas hands to bermuda equals the table written up to int->float (checked per case against "
        "the real CSV file)",
        "numpy array abstracted to a finite map with default NaN (Matrix); Calendar.addm/month_id tied to date_utils by C12",
        "translate/t_frame.py reads the Python AST faithfully (groupby key lists, constants, sort_values, step expressions)",
        "numbers in a table carry no int/float flag; metadata numbers are compared by value (int detail 1 may come back 1.0)",
    ]
    # ---------------------------------------------------------------- 1. translate
    gen_ok = False
    try:
        gen = t_frame.translate(REPO)
        ctx.obligation("T-frame translation (data_frame_input.py, matrix/index.py, io/matrix.py, io/rich_matrix.py)", True)
        gen_ok = True
    except t_frame.Unsupported as ex:
        ctx.obligation("T-frame translation (data_frame_input.py, matrix/index.py, io/matrix.py, io/rich_matrix.py)", False, str(ex))
        ctx.log(f"translator failed closed: {ex}")
    except Exception as ex:  # noqa: BLE001
        ctx.obligation("T-frame translation (data_frame_input.py, matrix/index.py, io/matrix.py, io/rich_matrix.py)", False, repr(ex))
    for f in list(ctx.build.glob("*.vo")) + list(ctx.build.glob("*.glob")) + list(ctx.build.glob("cases_*.v")) + \
            list(ctx.build.glob(".*.aux")) + list(ctx.build.glob("*.vos")) + list(ctx.build.glob("*.vok")):
        f.unlink()
    if not gen_ok:
        # keep the correspondence alive with the committed snapshot of the description (detection only)
        exp = COQ / "GenProps" / "C14_GenFrameExpected.v"
        gen = exp.read_text() if exp.exists() else None
    spec_ok = False
    if gen is not None:
        (ctx.build / "GenFrame.v").write_text(gen)
        exp = COQ / "GenProps" / "C14_GenFrameExpected.v"
        if gen_ok and exp.exists() and exp.read_text() != gen:
            import difflib

            d = "".join(difflib.unified_diff(exp.read_text().splitlines(1), gen.splitlines(1), "expected", "generated"))
            ctx.notes.append("generated GenFrame.v differs from the committed snapshot:\n" + d[:3000])
            ctx.extra["generated_diff"] = d[:6000]
        rc, out = ctx.coqc(ctx.build / "GenFrame.v", timeout=120)
        ctx.obligation("GenFrame.v compiles", rc == 0, out)
        for fn_ in ("C14_Base.v", "C14_Props.v"):
            src = COQ / "GenProps" / fn_
            if src.exists():
                shutil.copy(src, ctx.build / fn_)
        if rc == 0:
            rc, out = ctx.coqc(ctx.build / "C14_Base.v", timeout=300)
            ctx.obligation("C14_Base.v (correspondence records)", rc == 0, out)
            if (ctx.build / "C14_Props.v").exists() and gen_ok:
                ok, out = ctx.prove(ctx.build / "C14_Props.v", timeout=600)
                spec_ok = ok
    # static theorems
    if (COQ / "Props" / "C14.v").exists():
        ctx.prove_static("Props/C14.v", timeout=600)
    ctx.audit_tree(["Model/Frame.v", "Model/MatrixIx.v", "Props/C14.v"] +
                   [str(p.relative_to(COQ)) for p in sorted((COQ / "Proofs").glob("Frame*.v")) + sorted((COQ / "Proofs").glob("MatrixIx*.v"))])

    # ---------------------------------------------------------------- 2. cases
    rng = random.Random(ctx.seed * 7907 + 14)
    nF, nA, nM = (176, 96, 160) if ctx.quick else (1400, 600, 1200)
    recsF, recsA, recsM = [], [], []
    metaF, metaA, metaM = [], [], []
    py_fail = []

    def note_problems(kind, t, info, problems):
        py_fail.append((kind, t, info, problems))

    k = 0
    while len(recsF) < nF and k < nF * 3:
        k += 1
        try:
            t, info = gen_frame_case(rng, k)
            rec, problems = run_frame_case(ctx, t, rng, tmp, f"c{k}")
        except ct.NotRepresentable:
            ctx.hist("frame:skipped-not-representable")
            continue
        recsF.append(rec)
        metaF.append((t, info))
        ctx.hist(f"frame:{info['basis']}/{info['values']}/diff={info['slice_diff']}")
        ctx.hist(f"frame:slices={info['n_slices']}")
        if len(t) >= 2:
            ctx.nontriv(("F", tuple(canon_tri(t))))
        if problems:
            note_problems("frame", t, info, problems)
    k = 0
    while len(recsA) < nA and k < nA * 3:
        k += 1
        try:
            t, info = gen_grid_triangle(rng, k, False)
            rec, problems = run_array_case(ctx, t, info, rng)
        except ct.NotRepresentable:
            continue
        recsA.append(rec)
        metaA.append((t, info))
        ctx.hist(f"array:{info['layout']}/res={info['rp']}")
        if len(t) >= 2:
            ctx.nontriv(("A", tuple(canon_tri(t))))
        if problems:
            note_problems("array", t, info, problems)
    k = 0
    while len(recsM) < nM and k < nM * 3:
        k += 1
        try:
            t, info = gen_grid_triangle(rng, k, True)
            rec, problems = run_matrix_case(ctx, t, info)
        except ct.NotRepresentable:
            continue
        recsM.append(rec)
        metaM.append((t, info))
        ctx.hist(f"matrix:{info['layout']}/{'inc' if info['inc'] else 'cum'}/rp={info['rp']}/re={info['re']}")
        ctx.hist("matrix:pre-1970 periods" if info.get("pre1970") else "matrix:periods from 1970")
        if len(t) >= 2:
            ctx.nontriv(("M", tuple(canon_tri(t))))
        if problems:
            note_problems("matrix", t, info, problems)
    ctx.log(f"generated {len(recsF)} frame, {len(recsA)} array, {len(recsM)} matrix cases; python oracles failing: {len(py_fail)}")
    ctx.count(evaluations=len(recsF) * 9 + len(recsA) * 2 + len(recsM) * 2, traces=len(recsF) + len(recsA) + len(recsM))
    if metaF:
        t0, i0 = metaF[0]
        ctx.sample({"frame_case": i0, "cells": [repr(c) for c in t0.cells[:3]]})
    if metaM:
        t0, i0 = metaM[0]
        ctx.sample({"matrix_case": i0, "cells": [repr(c) for c in t0.cells[:3]]})

    # ---------------------------------------------------------------- 3. coq correspondence
    files = []
    if (ctx.build / "C14_Base.vo").exists():
        per = {"F": 11, "A": 24, "M": 20}
        for kind, recs, meta in (("F", recsF, metaF), ("A", recsA, metaA), ("M", recsM, metaM)):
            for j in range(0, len(recs), per[kind]):
                f = write_case_file(ctx, f"cases_{kind}{j // per[kind]}", kind, recs[j:j + per[kind]])
                files.append((f, kind, meta[j:j + per[kind]]))
        res = ctx.coqc_many([f for f, _, _ in files], jobs=16, timeout=900)
        corr_fail = []
        for f, kind, meta in files:
            rc, out = res[f]
            if rc != 0:
                corr_fail.append((kind, None, f"{f.name} failed to compile: {out[-400:]}", None))
                continue
            fails = parse_fails(out)
            if fails is None:
                corr_fail.append((kind, None, f"{f.name}: no output", None))
                continue
            names = {"F": FCHECKS, "A": ACHECKS, "M": MCHECKS}[kind]
            for code in fails:
                ci, chk = divmod(code, 100)
                corr_fail.append((kind, meta[ci], names[chk], chk))
                if len(corr_fail) < 40:
                    ctx.log(f"  corr fail {f.name} case {ci} check {chk} ({names[chk]}) info={meta[ci][1]}")
        ctx.obligation("correspondence model vs implementation (tables, cells, matrices) inside Coq",
                       not corr_fail, repr([(a, c) for a, _, c, _ in corr_fail[:6]]))
        ctx.log(f"coq correspondence: {len(files)} files, {len(corr_fail)} failing checks")
        import collections
        if corr_fail:
            ctx.log("failing checks by kind: " + repr(collections.Counter(c for _, _, c, _ in corr_fail).most_common(12)))
    else:
        corr_fail = [("-", None, "C14_Base.vo missing: correspondence not run", None)]
        ctx.obligation("correspondence model vs implementation (tables, cells, matrices) inside Coq", False, corr_fail[0][2])

    # ---------------------------------------------------------------- 4. directed probes + verdicts
    directed_probes(ctx, tmp)
    hardening_stream(ctx, tmp)
    large_stream(ctx, tmp)
    reported = 0
    for kind, t, info, problems in py_fail:
        cls = info.get("class") if isinstance(info.get("class"), dict) else None
        if cls is None and reported >= 5:
            continue
        ctx.violation("impl-violation", f"{kind} round trip on the implementation: {problems[0]}",
                      {"kind": {"frame": "csv", "array": "array", "matrix": "matrix"}[kind], "info": info,
                       "triangle": tri_to_data(t), "problems": problems[:5]}, found_input=True, finding_class=cls)
        reported += cls is None
    if corr_fail and not py_fail:
        real = [x for x in ctx.violations if x["found_input"]]
        if not real:
            kind, meta, what, chk = corr_fail[0]
            data = {"mismatches": [c for _, _, c, _ in corr_fail[:10]]}
            if meta is not None:
                data["triangle"] = tri_to_data(meta[0])
                data["info"] = meta[1]
            ctx.violation("correspondence", f"model and implementation disagree: {what}", data, found_input=False)
    shutil.rmtree(tmp, ignore_errors=True)


# ============================================================================== replay
def replay(ctx, data):
    warnings.filterwarnings("ignore")
    tmp = ctx.build / "replay_csv"
    tmp.mkdir(parents=True, exist_ok=True)
    if data.get("kind") == "large":
        probs = run_large_case(data["case"], bool(data.get("thorough")), tmp)
        shutil.rmtree(tmp, ignore_errors=True)
        print(f"large case {data['case']} (rebuilt by harness.c14.large_cases, thorough={bool(data.get('thorough'))})")
        for p_ in probs:
            print("PROPERTY FAILS:", p_[:400])
        if not probs:
            print("holds on this tree")
        return 1 if probs else 0
    if data.get("kind") == "hardening":
        probs, _ = run_hardening_case(tmp, data["family"], data["case"])
        shutil.rmtree(tmp, ignore_errors=True)
        print(f"hardening case {data['family']}/{data['case']} (built by harness.c14.hardening_cases)")
        for p_ in probs:
            print("PROPERTY FAILS:", p_)
        if not probs:
            print("holds on this tree")
        return 1 if probs else 0
    if "triangle" not in data:
        print("replay data has no concrete input:", data.get("what"))
        return 1
    t = tri_from_data(data["triangle"])
    print(f"input triangle: {len(t)} cells, {len(t.slices)} slices")
    for c in t:
        print("   ", c)
    kind = data.get("kind", "csv")
    if kind == "matrix":
        probs = matrix_roundtrip_problems(t)
    elif kind == "array-default":
        probs = array_default_problems(t)
    elif kind == "rich":
        probs = rich_matrix_problems(t)
    elif kind.startswith("array-explicit:"):
        probs = array_explicit_problems(t, int(kind.split(":")[1]))
    elif kind == "array":
        _, _, _, arr, _ = B()
        f = t.fields[0]
        try:
            back = arr.array_data_frame_to_triangle(arr.triangle_to_array_data_frame(t, f), f,
                                                    period_resolution=data.get("info", {}).get("rp"), metadata=t.cells[0].metadata)
            from bermuda import Triangle

            w = canon_tri(Triangle([c.replace(values={f: c.values[f]}) for c in t if f in c.values]))
            probs = [] if canon_tri(back) == w else [f"array frame round trip differs: {canon_tri(back)[:2]} vs {w[:2]}"]
        except Exception as ex:  # noqa: BLE001
            probs = [f"array frame raised {type(ex).__name__}: {ex}"]
    else:
        probs = csv_roundtrip_problems(t, tmp, "replay")
        if not probs:
            rng = random.Random(1)
            try:
                _, probs = run_frame_case(ctx, t, rng, tmp, "replay2")
            except ct.NotRepresentable:
                pass
    shutil.rmtree(tmp, ignore_errors=True)
    for p in probs:
        print("PROPERTY FAILS:", p)
    if not probs:
        print("round trip holds on this input")
    return 1 if probs else 0
