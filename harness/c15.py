"""C15 -- extension operators only add well-placed cells and never touch observed data.

Theorems: coq/Props/C15.v about coq/Model/Extend.v.
Tie (every run): generated month-aligned triangles (complete / upper-left / ragged-holey / single
period / single lag, 1-3 slices, cumulative and incremental) x operator parameters (lag lists, units,
evaluation-date lists, resolutions, minimum lags, static fields):
  (a) Coq compares the real operator's result with the model and evaluates the executable
      specifications on the implementation's output (coq/GenProps/C15_Tie.v, cases_k.v);
  (b) independent Python oracles on every case (no observed cell altered or dropped, no cell at an
      occupied coordinate, placement, metadata, lag completeness, chain continuity, carried values);
  (c) directed probes for the repaired defects F7 (fill_forward_gaps per slice) and F16
      (make_right_triangle on a complete incremental triangle).
"""
from __future__ import annotations

import datetime
import random
import shutil
import warnings

import numpy as np

from harness import coqterm as ct
from harness.acc_common import (CellPrinter, cbool, clist, copt, cz, czlist, mend, mid, month_aligned,
                                parse_nat_list, same_meta, tri_from_json, tri_to_json)
from harness.common import COQ, REPO, parse_coq_eval
from harness.gen import Gen

D = datetime.date
ONE = datetime.timedelta(days=1)
CHECKS = ["model=impl", "spec1", "spec2", "spec3", "spec4"]
NCHECK = 5
SPEC_NAMES = {
    "rt": ["model=impl", "spec:new-cells-placement", "spec:lags-exact", "spec:chain", "spec:no-duplicate-coordinates"],
    "rd": ["model=impl", "spec:new-cells-placement", "spec:chain", "spec:no-duplicate-coordinates", "-"],
    "ff": ["model=impl", "spec:keeps-observed", "spec:no-duplicate-coordinates", "-", "-"],
    "bf": ["model=impl", "spec:keeps-observed", "spec:no-duplicate-coordinates", "-", "-"],
}


# ------------------------------------------------------------------ running the real operators
def forms(op):
    """Every public way of asking for the same thing: the Triangle METHOD wrappers of bermuda/factory.py
    (with as many defaults left implicit as the request allows, positional and keyword) and the plain
    functions.  Returns [(name, callable(triangle))]; the first entry is the primary observation."""
    from bermuda import Triangle
    from bermuda.utils import extend
    from bermuda.utils.backfill import backfill
    from bermuda.utils.fill import fill_forward_gaps

    k = op["kind"]
    out = []
    if k == "rt":
        lags, unit = op["lags"], op["unit"]
        if unit == "timedelta" and lags is not None:  # requested lags are timedelta objects (recorded as days)
            lags = [datetime.timedelta(days=x) for x in lags]
        if lags is None and unit == "month":
            out.append(("method()", lambda t: t.make_right_triangle()))
            out.append(("function(t)", lambda t: extend.make_right_triangle(t)))
        if unit == "month":
            out.append(("method(lags)", lambda t: t.make_right_triangle(lags)))
            out.append(("function(t, lags)", lambda t: extend.make_right_triangle(t, lags)))
        out.append(("method(dev_lags=, dev_lag_unit=)", lambda t: t.make_right_triangle(dev_lags=lags, dev_lag_unit=unit)))
        out.append(("method(lags, unit)", lambda t: t.make_right_triangle(lags, unit)))
        out.append(("function(t, dev_lags=, dev_lag_unit=)", lambda t: extend.make_right_triangle(t, dev_lags=lags, dev_lag_unit=unit)))
    elif k == "rd":
        dates, hist = [D.fromisoformat(d) for d in op["dates"]], op["hist"]
        if not hist:
            out.append(("method(dates)", lambda t: t.make_right_diagonal(dates)))
            out.append(("function(t, dates)", lambda t: extend.make_right_diagonal(t, dates)))
            out.append(("method(evaluation_dates=)", lambda t: t.make_right_diagonal(evaluation_dates=dates)))
        out.append(("method(dates, include_historic=)", lambda t: t.make_right_diagonal(dates, include_historic=hist)))
        out.append(("method(dates, hist)", lambda t: t.make_right_diagonal(dates, hist)))
        out.append(("function(t, dates, include_historic=)", lambda t: extend.make_right_diagonal(t, dates, include_historic=hist)))
    elif k == "ff":
        res, none = op["res"], op["none"]
        if res is None and not none:
            out.append(("function(t)", lambda t: fill_forward_gaps(t)))
        if not none:
            out.append(("function(t, res)", lambda t: fill_forward_gaps(t, res)))
        out.append(("function(t, eval_resolution=, fill_with_none=)", lambda t: fill_forward_gaps(t, eval_resolution=res, fill_with_none=none)))
        out.append(("function(t, res, none)", lambda t: fill_forward_gaps(t, res, none)))
        if hasattr(Triangle, "fill_forward_gaps"):
            out.append(("method(eval_resolution=, fill_with_none=)", lambda t: t.fill_forward_gaps(eval_resolution=res, fill_with_none=none)))
    elif k == "bf":
        st, res, ml = list(op["statics"]), op["res"], op["min_lag"]
        if st == ["earned_premium"] and res is None and ml == 0:
            out.append(("function(t)", lambda t: backfill(t)))
        out.append(("function(t, static_fields=, eval_resolution=, min_dev_lag=)",
                    lambda t: backfill(t, static_fields=list(st), eval_resolution=res, min_dev_lag=ml)))
        out.append(("function(t, statics, res, min_lag)", lambda t: backfill(t, list(st), res, ml)))
        if hasattr(Triangle, "backfill"):
            out.append(("method(static_fields=, eval_resolution=, min_dev_lag=)",
                        lambda t: t.backfill(static_fields=list(st), eval_resolution=res, min_dev_lag=ml)))
    else:
        raise ValueError(k)
    return out


def call_form(t, f):
    from bermuda import Triangle

    with warnings.catch_warnings():
        warnings.simplefilter("ignore")
        return f(Triangle(list(t.cells)))  # fresh caches for every form


def apply_op(t, op):
    """The primary observation: the most implicit METHOD form available (exceptions propagate)."""
    return call_form(t, forms(op)[0][1])


class MyDateTime(datetime.datetime):
    """a user-defined datetime subclass"""


def retimed(t, kind):
    from bermuda import Triangle

    if kind == "timestamp":
        import pandas as pd

        mk = lambda x, h, m: pd.Timestamp(year=x.year, month=x.month, day=x.day, hour=h, minute=m)  # noqa: E731
    elif kind == "subclass":
        mk = lambda x, h, m: MyDateTime(x.year, x.month, x.day, h, m)  # noqa: E731
    else:
        mk = lambda x, h, m: datetime.datetime(x.year, x.month, x.day, h, m)  # noqa: E731
    metas = []
    out = []
    for c in t.cells:
        if not any(same_meta(c.metadata, m) for m in metas):
            metas.append(c.metadata)
        i = next(k for k, m in enumerate(metas) if same_meta(m, c.metadata))
        h, mi = [(0, 0), (17, 30), (9, 15)][i % 3]
        kw = {}
        if type(c).__name__ == "IncrementalCell":
            kw["prev_evaluation_date"] = mk(c.prev_evaluation_date, h, mi)
        out.append(type(c)(period_start=mk(c.period_start, h, mi), period_end=mk(c.period_end, h, mi),
                           evaluation_date=mk(c.evaluation_date, h, mi), values=c.values, metadata=c.metadata, **kw))
    return Triangle(out)


def reclassed(t):
    from bermuda import Cell, CumulativeCell, Triangle

    swap = {"Cell": CumulativeCell, "CumulativeCell": Cell}
    return Triangle([swap[type(c).__name__](period_start=c.period_start, period_end=c.period_end,
                                            evaluation_date=c.evaluation_date, values=c.values, metadata=c.metadata)
                     for c in t.cells])


def form_differences(t, op, res):
    """All public forms of the same request must agree with the primary observation (strict)."""
    def canon(r):
        return ("err", type(r).__name__) if isinstance(r, BaseException) else ("ok", ct.canon_tri(r, ordered=True))

    fs = forms(op)
    want = canon(res)
    bad = []
    extra = []
    cells = list(t.cells)
    if op.get("big"):  # large stream: the primary form, one function form and a second call only
        fs = fs[:2]
        cells = []
    cum_like = bool(cells) and type(cells[0]).__name__ != "IncrementalCell"
    # H: the same call twice on the SAME receiver object (cached properties populated by the first call)
    def twice(tt):
        fs[0][1](tt)
        return fs[0][1](tt)
    extra.append(("second call on the same receiver", twice))
    # K: unit spellings
    if op["kind"] == "rt" and op["unit"] in ("month", "day") and not op.get("big"):
        for sp in {"month": ["months", "Month", " MONTHS "], "day": ["days", "Day", " DAYS "]}[op["unit"]]:
            extra.append((f"method(dev_lag_unit={sp!r})", lambda tt, sp=sp: tt.make_right_triangle(dev_lags=op["lags"], dev_lag_unit=sp)))
    if op["kind"] == "rt" and op["unit"] == "timedelta" and not op.get("big"):
        tl = None if op["lags"] is None else [datetime.timedelta(days=x) for x in op["lags"]]
        extra.append(("method(dev_lag_unit='TimeDelta')", lambda tt: tt.make_right_triangle(dev_lags=tl, dev_lag_unit="TimeDelta")))
        # the timedelta unit is the day unit: same cells as asking in days
        extra.append(("method(dev_lag_unit='day') with the same lags in days",
                      lambda tt: tt.make_right_triangle(dev_lags=op["lags"], dev_lag_unit="day")))
    # D: the same triangle given with datetime / Timestamp / datetime-subclass coordinates carrying a time of day
    if cells:
        for kind_ in ("timestamp", "datetime", "subclass")[len(cells) % 3:][:1]:
            extra.append((f"receiver built from {kind_} coordinates", lambda tt, kind_=kind_: fs[0][1](retimed(tt, kind_))))
    # H: equal-but-differently-typed receiver (Cell <-> CumulativeCell); the new cells of the right triangle /
    # diagonal are CumulativeCell either way
    if cum_like and op["kind"] in ("rt", "rd"):
        extra.append(("receiver of the other cumulative cell class", lambda tt: fs[0][1](reclassed(tt))))
    for name, f in fs[1:] + extra:
        try:
            r = call_form(t, f)
        except Exception as ex:  # noqa: BLE001
            r = ex
        if canon(r) != want:
            def short(x):
                return f"raised {type(x).__name__}" if isinstance(x, BaseException) else f"{len(x)} cells"
            bad.append(f"calling forms disagree: {fs[0][0]} -> {short(res)}, {name} -> {short(r)}")
            break
    return bad


def cop(op):
    k = op["kind"]
    if k == "rt":
        if op["unit"] not in ("month", "day", "timedelta"):
            raise ct.NotRepresentable("unit outside the model")
        u = "UMonth" if op["unit"] == "month" else "UDay"      # timedelta = the day unit as timedelta objects
        return f"(OpRT {u} {copt(op['lags'], czlist)})"
    if k == "rd":
        return f"(OpRD {czlist(D.fromisoformat(d).toordinal() for d in op['dates'])} {cbool(op['hist'])})"
    if k == "ff":
        return f"(OpFF {copt(op['res'], cz)} {cbool(op['none'])})"
    if k == "bf":
        return f"(OpBF {clist(ct.cstr(s) for s in op['statics'])} {copt(op['res'], cz)} {cz(op['min_lag'])})"
    raise ValueError(k)


# ------------------------------------------------------------------ independent oracles
def coord(c):
    return (c.period_start, c.period_end, c.evaluation_date)


def lag_of(c, unit):
    if unit in ("day", "timedelta"):
        return (c.evaluation_date - c.period_end).days
    return mid(c.evaluation_date) - mid(c.period_end)


def rows(cells):
    """{(slice index, period): [cells sorted by evaluation date]}, slices by Python =="""
    metas, out = [], {}
    for c in cells:
        for i, m in enumerate(metas):
            if same_meta(m, c.metadata):
                break
        else:
            metas.append(c.metadata)
            i = len(metas) - 1
        out.setdefault((i, c.period_start, c.period_end), []).append(c)
    for r in out.values():
        r.sort(key=lambda c: c.evaluation_date.toordinal())
    return metas, out


def find_row(metas, rws, c):
    for i, m in enumerate(metas):
        if same_meta(m, c.metadata):
            return rws.get((i, c.period_start, c.period_end)), i
    return None, None


def oracle(t, op, res):
    """Property statement evaluated directly on (input, parameters, real result | exception).
    Returns list of messages (empty = holds)."""
    bad = form_differences(t, op, res)
    cells = list(t.cells)
    k = op["kind"]
    inc = bool(cells) and type(cells[0]).__name__ == "IncrementalCell"
    metas, rws = rows(cells)
    if isinstance(res, BaseException):
        expected = expected_exception(t, op)
        if expected is None or not isinstance(res, expected):
            bad.append(f"raised {type(res).__name__}: {res}")
        return bad
    out = list(res.cells)
    if not all(type(d) is datetime.date for c in out
               for d in (c.period_start, c.period_end, c.evaluation_date, getattr(c, "prev_evaluation_date", c.period_end))):
        bad.append("a result cell holds a period / evaluation date that is not a plain datetime.date")
    occupied = {}
    for c in cells:
        _, i = find_row(metas, rws, c)
        occupied[(i,) + coord(c)] = c
    if k in ("rt", "rd"):
        if k == "rd" and op["hist"]:
            return bad  # include_historic=True is outside the property's placement clause
        unit = op.get("unit", "month")
        seen = set()
        for c in out:
            row, i = find_row(metas, rws, c)
            if row is None:
                bad.append(f"new cell in a (slice, period) absent from the input: {coord(c)}")
                continue
            key = (i,) + coord(c)
            if key in occupied:
                bad.append(f"cell created at an occupied coordinate {coord(c)}")
            if key in seen:
                bad.append(f"two new cells at the same coordinate {coord(c)}")
            seen.add(key)
            if not c.evaluation_date > row[-1].evaluation_date:
                bad.append(f"new cell {coord(c)} not strictly after the period's latest observation {row[-1].evaluation_date}")
            if not same_meta(c.metadata, row[-1].metadata):  # the slice's metadata (==; spelling is tied by the model)
                bad.append("new cell does not carry its slice's metadata")
            if c.values != {}:
                bad.append(f"new cell has values {c.values}")
            if (type(c).__name__ == "IncrementalCell") != inc or (not inc and type(c).__name__ != "CumulativeCell"):
                bad.append(f"basis changed: {type(c).__name__}")
        ometas, orws = rows(out)
        # completeness / exactness of lags (right triangle), grid (diagonal)
        for (i, a, b), row in rws.items():
            edge = row[-1]
            new = [c for c in out if same_meta(c.metadata, metas[i]) and (c.period_start, c.period_end) == (a, b)]
            new.sort(key=lambda c: c.evaluation_date.toordinal())
            if k == "rt":
                if op["lags"] is None:
                    wanted = {lag_of(c, unit) for c in cells if same_meta(c.metadata, metas[i])}
                else:
                    wanted = set(op["lags"])
                want = sorted(x for x in wanted if x > lag_of(edge, unit))
                got = sorted(lag_of(c, unit) for c in new)
                if got != want:
                    bad.append(f"period {a}..{b} slice {i}: new lags {got}, wanted exactly {want} (edge lag {lag_of(edge, unit)})")
            else:
                mx = max(c.evaluation_date for c in cells if same_meta(c.metadata, metas[i]))
                want = sorted(D.fromisoformat(d) for d in op["dates"] if D.fromisoformat(d) > mx)
                got = [c.evaluation_date for c in new]
                if got != want:
                    bad.append(f"period {a}..{b} slice {i}: diagonal dates {got}, wanted {want}")
            if inc:
                prev = edge.evaluation_date
                for c in new:
                    if c.prev_evaluation_date != prev:
                        bad.append(f"incremental chain broken at {coord(c)}: prev {c.prev_evaluation_date}, expected {prev}")
                        break
                    prev = c.evaluation_date
        return bad
    # fill / backfill return the union
    out_keys = {}
    for c in out:
        row, i = find_row(metas, rws, c)
        key = (i,) + coord(c)
        if key in out_keys:
            bad.append(f"two result cells at the same coordinate {coord(c)}")
        out_keys[key] = c
    canon_out = {}
    for c in out:
        canon_out[ct.canon_cell(c, ordered=False)] = canon_out.get(ct.canon_cell(c, ordered=False), 0) + 1
    for c in cells:
        cc = ct.canon_cell(c, ordered=False)
        if canon_out.get(cc, 0) <= 0:
            bad.append(f"observed cell {coord(c)} (slice {find_row(metas, rws, c)[1]}) altered or dropped")
            if len(bad) > 3:
                return bad
        else:
            canon_out[cc] -= 1
    added = [c for key, c in out_keys.items() if key not in occupied]
    if k == "ff":
        res_m = op["res"] if op["res"] is not None else eval_res(cells)
        for c in added:
            row, i = find_row(metas, rws, c)
            if row is None:
                bad.append(f"filled cell in a (slice, period) absent from the input: {coord(c)}")
                continue
            if not same_meta(c.metadata, row[0].metadata) or type(c) is not type(row[0]):
                bad.append("filled cell does not carry its slice's metadata / class")
            first, last = lag_of(row[0], "month"), lag_of(row[-1], "month")
            lg = lag_of(c, "month")
            compatible = all((lag_of(x, "month") - first) % res_m == 0 for x in row)
            if not (first < lg and (lg - first) % res_m == 0):
                bad.append(f"filled lag {lg} is not on the row's grid {first}+k*{res_m}")
            if compatible and not lg < last:
                bad.append(f"filled lag {lg} is not inside a gap (row lags {[lag_of(x, 'month') for x in row]})")
            # carried forward from the RESULT row's cell one resolution step earlier (the grid predecessor;
            # with a resolution coarser than the observed spacing other observed cells may lie in between),
            # or all None
            orow = [x for x in out if same_meta(x.metadata, c.metadata) and (x.period_start, x.period_end) == (c.period_start, c.period_end)
                    and lag_of(x, "month") == lg - res_m]
            src = orow[-1] if orow else None
            if src is None:
                bad.append("filled cell has no earlier cell")
            elif ct.canon_meta(c.metadata, True) != ct.canon_meta(src.metadata, True):
                bad.append("filled cell's metadata is not the metadata object of the cell it was carried forward from")
            elif op["none"]:
                if set(c.values) != set(src.values) or any(v is not None for v in c.values.values()):
                    bad.append(f"fill_with_none cell holds {c.values}")
            elif ct.canon_cell(src)[6] != ct.canon_cell(c)[6]:
                bad.append(f"filled values {c.values} are not carried forward from {src.values}")
    if k == "bf":
        pres = period_res(cells)
        res_m = op["res"] if op["res"] is not None else eval_res(cells)
        for c in added:
            row, i = find_row(metas, rws, c)
            if row is None:
                bad.append(f"backfilled cell in a (slice, period) absent from the input: {coord(c)}")
                continue
            first = row[0]
            if ct.canon_meta(c.metadata, True) != ct.canon_meta(first.metadata, True) or type(c) is not type(first):
                bad.append("backfilled cell does not carry its slice's metadata / class")
            lg, fl = lag_of(c, "month"), lag_of(first, "month")
            if not (c.evaluation_date < first.evaluation_date and lg >= op["min_lag"] and lg >= -pres + 1
                    and (fl - lg) % res_m == 0 and c.evaluation_date >= c.period_start):
                bad.append(f"backfilled lag {lg} misplaced (first observed lag {fl}, min {op['min_lag']}, resolution {res_m})")
            for f, v in c.values.items():
                if f in op["statics"]:
                    if ct.canon_value(v) != ct.canon_value(first.values.get(f)):
                        bad.append(f"static field {f} = {v!r} differs from the first observation")
                elif not (type(v) is int and v == 0):
                    bad.append(f"backfilled {f} = {v!r} is not zero")
            if set(c.values) != set(first.values):
                bad.append("backfilled cell has other fields than the first observation")
    return bad


def eval_res(cells):
    import math

    ms = sorted(mid(d) for d in {c.evaluation_date for c in cells})
    g = 0
    for a, b in zip(ms[:-1], ms[1:]):
        g = math.gcd(g, b - a)
    return g if len(ms) > 1 else None


def period_res(cells):
    import math

    bs = sorted({mid(c.period_start) for c in cells} | {mid(c.period_end) + 1 for c in cells})
    g = 0
    for a, b in zip(bs[:-1], bs[1:]):
        g = math.gcd(g, b - a)
    return g


def expected_exception(t, op):
    """Exceptions the operators' documented preconditions allow (class)."""
    from bermuda.errors import TriangleError

    cells = list(t.cells)
    k = op["kind"]
    no_res = op.get("res", 0) is None and cells and eval_res(cells) is None
    if k == "ff" and no_res:
        return TypeError  # no evaluation resolution can be inferred from a single evaluation date
    if k == "bf":
        if not cells:
            return ValueError
        firsts = {}
        for c in sorted(cells):
            firsts.setdefault((c.period_start, c.period_end), c)
        order = sorted(firsts)
        if no_res:  # the first period row decides: its static fields are read before the lag arithmetic
            return KeyError if any(f not in firsts[order[0]].values for f in op["statics"]) else TypeError
        if any(f not in c.values for c in firsts.values() for f in op["statics"]):
            return KeyError
    if k in ("rt", "rd") and cells and type(cells[0]).__name__ == "IncrementalCell" and not convertible(cells):
        return TriangleError  # an incomplete incremental triangle cannot be put on a cumulative basis
    if k == "rt" and op["unit"] not in ("month", "day", "timedelta") and cells and (op["lags"] is None or op["lags"]):
        return ValueError  # unrecognised unit (L)
    if k == "rd" and op["hist"]:
        return ValueError
    return None


def convertible(cells):
    """to_cumulative's precondition: every (slice, period) chain starts the day before the period and
    is unbroken, with one field set."""
    metas, rws = rows(cells)
    for (_, a, _), row in rws.items():
        row = sorted(row, key=lambda c: (c.evaluation_date.toordinal(), c.prev_evaluation_date.toordinal()))
        if row[0].prev_evaluation_date + ONE != a:
            return False
        for p, n in zip(row[:-1], row[1:]):
            if n.prev_evaluation_date != p.evaluation_date or set(n.values) != set(p.values):
                return False
    return True


# ------------------------------------------------------------------ case generation
SHAPES = ["regular", "ragged", "holey", "single_period", "single_lag", "regular", "ragged"]


def respell(t, kind, rng):
    """Give some cells of ONE logical slice metadata that are Python-equal but differently represented
    (7 vs 7.0, 1 vs True, other dict insertion order): on the newest diagonal for the right triangle /
    diagonal, anywhere inside the rows for fill / backfill."""
    import dataclasses

    from bermuda import Triangle

    cells = list(t.cells)
    variant = rng.choice(["float", "bool", "order", "float+order"])

    def lim(m, f):
        x = m.per_occurrence_limit
        return x if x is None or isinstance(x, bool) else (float(x) if f else (int(x) if float(x).is_integer() else x))

    def base(m):
        d = dict(m.details)
        d["treaty_id"] = 7
        d["flag"] = 1
        ld = dict(m.loss_details)
        ld.update({"la": 1, "lb": "z"})
        return dataclasses.replace(m, details=d, loss_details=ld, per_occurrence_limit=lim(m, False))

    def alt(m):
        d = dict(m.details)
        d["treaty_id"] = 7.0 if "float" in variant else 7
        d["flag"] = True if variant == "bool" else 1
        ld = dict(m.loss_details)
        ld.update({"la": 1.0 if "float" in variant else 1, "lb": "z"})
        if "order" in variant:
            d = dict(reversed(list(d.items())))
            ld = dict(reversed(list(ld.items())))
        return dataclasses.replace(m, details=d, loss_details=ld, per_occurrence_limit=lim(m, "float" in variant))

    newest = {}
    for c in cells:
        newest[c.metadata] = max(newest.get(c.metadata, c.evaluation_date), c.evaluation_date)
    one = rng.choice(list(newest)) if rng.random() < 0.5 else None  # one slice or all of them
    out = []
    for c in cells:
        if kind in ("rt", "rd"):
            pick = c.evaluation_date == newest[c.metadata]
        else:
            pick = rng.random() < 0.4
        if one is not None and c.metadata != one:
            pick = False
        out.append(c.replace(metadata=alt(c.metadata) if pick else base(c.metadata)))
    with warnings.catch_warnings():
        warnings.simplefilter("ignore")
        return Triangle(out)


def collide(t, rng):
    """Family M: make the slices siblings that differ ONLY by a value whose CPython hash collides
    (-1 / -2, -1.0 / -2.0, 0 / 2**61 - 1) in a detail, a loss_detail or the limit."""
    import dataclasses

    from bermuda import Triangle

    cells = list(t.cells)
    metas = []
    for c in cells:
        if not any(same_meta(c.metadata, m) for m in metas):
            metas.append(c.metadata)
    vals = rng.choice([[-1, -2, 0], [-2, -1, 2**61 - 1], [-1.0, -2.0, 0.0], [0, 2**61 - 1, -1], [2**61 - 1, 0, -2]])
    where = rng.choice(["details", "loss_details", "per_occurrence_limit"])
    base = metas[0]
    sib = []
    for i in range(len(metas)):
        if where == "per_occurrence_limit":
            sib.append(dataclasses.replace(base, per_occurrence_limit=vals[i % 3]))
        else:
            sib.append(dataclasses.replace(base, **{where: {**getattr(base, where), "layer": vals[i % 3]}}))
    out = [c.replace(metadata=sib[next(k for k, m in enumerate(metas) if same_meta(m, c.metadata))]) for c in cells]
    rng.shuffle(out)
    with warnings.catch_warnings():
        warnings.simplefilter("ignore")
        return Triangle(out)


def gen_case(rng, g, i):
    shape = SHAPES[i % len(SHAPES)]
    basis = "inc" if (i // len(SHAPES)) % 3 == 2 else "cum"
    kind = ["rt", "rt", "rd", "ff", "bf", "rt", "ff", "bf", "rd"][i % 9]
    if kind == "ff" and rng.random() < 0.7:
        shape = "holey"
    n_slices = rng.choice([1, 1, 2, 3])
    res = rng.choice([1, 3, 3, 6, 12])
    with warnings.catch_warnings():
        warnings.simplefilter("ignore")
        t, info = g.triangle(layout=shape, basis=basis, n_slices=n_slices,
                             values=rng.choice(["int", "float", "int", "arr_int", "arr_float"]),
                             res=res, n_periods=rng.randint(1, 4), n_lags=rng.randint(1, 4),
                             same_fields=(basis == "inc" or rng.random() < 0.85),
                             fields=rng.sample(["paid_loss", "reported_loss", "earned_premium"], rng.randint(1, 3)))
    cells = list(t.cells)
    if not month_aligned(cells):
        return None
    if info["n_slices"] >= 2 and kind in ("rt", "rd") and rng.random() < 0.6:
        # per-slice ragged: the same period has a different latest observation in each slice
        # (dropping a suffix of a row keeps an incremental chain valid)
        from bermuda import Triangle

        groups = {}
        for c in cells:
            groups.setdefault((id(c.metadata), c.period_start, c.period_end), []).append(c)
        first_meta = id(cells[0].metadata)
        kept = []
        for (m, _, _), row in groups.items():
            row.sort(key=lambda c: c.evaluation_date.toordinal())
            keep = len(row) if m == first_meta and rng.random() < 0.5 else rng.randint(1, len(row))
            kept += row[:keep]
        with warnings.catch_warnings():
            warnings.simplefilter("ignore")
            t = Triangle(kept)
        cells = list(t.cells)
        shape = shape + "+slice_ragged"
    if info["n_slices"] >= 2 and rng.random() < 0.12:
        t = collide(t, rng)
        cells = list(t.cells)
        shape = shape + "+hash_colliding"
    elif rng.random() < 0.2:
        t = respell(t, kind, rng)
        cells = list(t.cells)
        shape = shape + "+respelled"
    evs = sorted({c.evaluation_date for c in cells})
    lags = sorted({mid(c.evaluation_date) - mid(c.period_end) for c in cells})
    if kind == "rt":
        unit = "month" if rng.random() < 0.7 else rng.choice(["day", "day", "timedelta"])
        if rng.random() < 0.5:
            ls = None
        elif unit == "month":
            pool = list(range(min(lags) - 2, max(lags) + 3 * res + 2)) if rng.random() < 0.5 else \
                [x * res for x in range(0, max(lags) // res + 5)]
            ls = rng.sample(pool, min(len(pool), rng.randint(0, 6)))
        else:
            ls = rng.sample(range(0, 900), rng.randint(0, 5))
        op = {"kind": "rt", "unit": unit, "lags": ls}
    elif kind == "rd":
        hi = mid(evs[-1])
        ds = sorted({mend(hi + rng.randint(-4, 8)) for _ in range(rng.randint(0, 5))})
        rng.shuffle(ds)
        hist = basis == "cum" and rng.random() < 0.15
        op = {"kind": "rd", "dates": [d.isoformat() for d in ds], "hist": hist}
    elif kind == "ff":
        er = eval_res(cells)
        choices = [None, None, er or 1]
        if er:
            choices += [d for d in (1, 2, 3, 6) if er % d == 0]
        # explicit resolutions that do NOT match the observed grid: coarser multiples and non-dividing ones
        # (observed cells off the requested grid must survive; placement beyond the last observation for a
        # non-dividing resolution is the separately classified known finding K1)
        choices += [(er or 1) * 2, (er or 1) * 3, 2, 3, 4, 5, 6, 12]
        op = {"kind": "ff", "res": rng.choice(choices), "none": rng.random() < 0.4}
    else:
        er = eval_res(cells)
        fields = list(cells[0].values)
        st = rng.choice([[], ["earned_premium"], [fields[0]], fields[:2]])
        op = {"kind": "bf", "statics": st, "res": rng.choice([None, None, er or 1, 1, 3]),
              "min_lag": rng.choice([0, 0, -1, -2, 1, 3, -12])}
    label = f"{kind}/{shape}/{basis}/{info['n_slices']}sl"
    return label, t, op


def directed():
    """F7 / F16 probes and boundary shapes (always part of the run)."""
    from bermuda import CumulativeCell, IncrementalCell, Metadata, Triangle

    out = []
    ms = [Metadata(details={"s": i}) for i in (1, 2)]
    cs = []
    for m in ms:
        for e in (D(2020, 3, 31), D(2020, 9, 30)):
            cs.append(CumulativeCell(period_start=D(2020, 1, 1), period_end=D(2020, 3, 31), evaluation_date=e,
                                     values={"paid_loss": 1}, metadata=m))
    out.append(("F7:fill-two-slices", Triangle(cs), {"kind": "ff", "res": 3, "none": False}))
    out.append(("F7:fill-two-slices-none", Triangle(cs), {"kind": "ff", "res": None, "none": True}))
    one = [IncrementalCell(period_start=D(2020, 1, 1), period_end=D(2020, 3, 31), prev_evaluation_date=D(2019, 12, 31),
                           evaluation_date=D(2020, 3, 31), values={"paid_loss": 1})]
    out.append(("F16:complete-incremental", Triangle(one), {"kind": "rt", "unit": "month", "lags": None}))
    out.append(("F16:complete-incremental-diag", Triangle(one), {"kind": "rd", "dates": [], "hist": False}))
    # complete cumulative: nothing missing
    sq = [CumulativeCell(period_start=D(2020, 1, 1), period_end=D(2020, 3, 31), evaluation_date=e, values={"paid_loss": 1})
          for e in (D(2020, 3, 31), D(2020, 6, 30))]
    out.append(("complete-single-period", Triangle(sq), {"kind": "rt", "unit": "month", "lags": None}))
    # requested lag equal to the edge lag must not create a cell (`>` vs `>=`)
    out.append(("lag-equal-edge", Triangle(sq), {"kind": "rt", "unit": "month", "lags": [3, 6]}))
    out.append(("lag-equal-edge-day", Triangle(sq), {"kind": "rt", "unit": "day", "lags": [91, 100]}))
    # upper-left incremental: chain across the observed / predicted boundary
    inc = []
    for ps, pe, evs in [(D(2020, 1, 1), D(2020, 3, 31), [D(2020, 3, 31), D(2020, 6, 30), D(2020, 9, 30)]),
                        (D(2020, 4, 1), D(2020, 6, 30), [D(2020, 6, 30), D(2020, 9, 30)]),
                        (D(2020, 7, 1), D(2020, 9, 30), [D(2020, 9, 30)])]:
        prev = ps - ONE
        for e in evs:
            inc.append(IncrementalCell(period_start=ps, period_end=pe, prev_evaluation_date=prev, evaluation_date=e,
                                       values={"paid_loss": 2.5}))
            prev = e
    out.append(("upper-left-incremental", Triangle(inc), {"kind": "rt", "unit": "month", "lags": None}))
    # two slices whose common periods end at DIFFERENT observations (slice A lags 0,3,6 ; slice B lags 0,3):
    # the first predicted increment of each (slice, period) must link to the edge of the SAME slice
    two = []
    for mi, m in enumerate([Metadata(details={"s": 1}), Metadata(details={"s": 2})]):
        for ps, pe, evs in [(D(2020, 1, 1), D(2020, 3, 31), [D(2020, 3, 31), D(2020, 6, 30), D(2020, 9, 30)]),
                            (D(2020, 4, 1), D(2020, 6, 30), [D(2020, 6, 30), D(2020, 9, 30)])]:
            prev = ps - ONE
            for e in (evs if mi == 0 else evs[:-1]):
                two.append(IncrementalCell(period_start=ps, period_end=pe, prev_evaluation_date=prev, evaluation_date=e,
                                           values={"paid_loss": 1.5}, metadata=m))
                prev = e
    out.append(("slice-ragged-incremental", Triangle(two), {"kind": "rt", "unit": "month", "lags": [0, 3, 6, 9, 12]}))
    out.append(("slice-ragged-incremental-default", Triangle(two), {"kind": "rt", "unit": "month", "lags": None}))
    out.append(("slice-ragged-incremental-diag", Triangle(two), {"kind": "rd", "dates": ["2020-12-31", "2021-03-31"], "hist": False}))
    out.append(("slice-ragged-incremental-day", Triangle(two), {"kind": "rt", "unit": "day", "lags": [400, 500]}))
    # observed lags off the requested (coarser) grid must survive a fill
    for nm, lags in [("fill-coarse-0-3-9-10-11-12", [0, 3, 9, 10, 11, 12]), ("fill-coarse-monthly-0-1-2-3-6", [0, 1, 2, 3, 6])]:
        cs = [CumulativeCell(period_start=D(2020, 1, 1), period_end=D(2020, 1, 31), evaluation_date=mend(600 + k),
                             values={"paid_loss": 10 + k}) for k in lags]
        out.append((nm, Triangle(cs), {"kind": "ff", "res": 3, "none": False}))
        out.append((nm + "-none", Triangle(cs), {"kind": "ff", "res": 3, "none": True}))
    # ONE logical slice whose newest diagonal spells a detail 7.0 where the older cells spell 7 (and a
    # variant with the other dict insertion order): == and hash agree, so this is one slice
    for nm, m_old, m_new in [
        ("respelled-7-vs-7.0", Metadata(details={"treaty_id": 7}), Metadata(details={"treaty_id": 7.0})),
        ("respelled-dict-order", Metadata(details={"a": 1, "treaty_id": 7}), Metadata(details={"treaty_id": 7.0, "a": True})),
    ]:
        ul = []
        for ps, pe, evs in [(D(2020, 1, 1), D(2020, 3, 31), [D(2020, 3, 31), D(2020, 6, 30), D(2020, 9, 30)]),
                            (D(2020, 4, 1), D(2020, 6, 30), [D(2020, 6, 30), D(2020, 9, 30)]),
                            (D(2020, 7, 1), D(2020, 9, 30), [D(2020, 9, 30)])]:
            for e in evs:
                ul.append(CumulativeCell(period_start=ps, period_end=pe, evaluation_date=e, values={"paid_loss": 3},
                                         metadata=m_new if e == D(2020, 9, 30) else m_old))
        out.append((nm + "-rt", Triangle(ul), {"kind": "rt", "unit": "month", "lags": None}))
        out.append((nm + "-rd", Triangle(ul), {"kind": "rd", "dates": ["2020-12-31", "2020-09-30", "2020-06-30"], "hist": False}))
        hol = [CumulativeCell(period_start=D(2020, 1, 1), period_end=D(2020, 1, 31), evaluation_date=mend(600 + k),
                              values={"paid_loss": 10 + k}, metadata=m_new if k == 3 else m_old) for k in (0, 3, 9)]
        out.append((nm + "-ff", Triangle(hol), {"kind": "ff", "res": 3, "none": False}))
        out.append((nm + "-bf", Triangle([c for c in hol if c.evaluation_date > mend(600)]),
                    {"kind": "bf", "statics": [], "res": 3, "min_lag": 0}))
    # a date list overlapping history, asked through the METHOD with its defaults
    out.append(("diag-overlapping-history", Triangle(inc), {"kind": "rd", "dates": ["2020-03-31", "2020-06-30", "2020-09-30", "2020-12-31"], "hist": False}))
    out.append(("diag-overlapping-history-cum", Triangle(sq), {"kind": "rd", "dates": ["2020-03-31", "2020-06-30", "2020-09-30"], "hist": False}))
    out.append(("upper-left-incremental-diag", Triangle(inc), {"kind": "rd", "dates": ["2020-12-31", "2021-03-31", "2020-06-30"], "hist": False}))
    return out


def inc_cells(t):
    """the incremental cells of a cumulative triangle with empty / constant values, built by the harness
    itself (no library conversion inside a generator)"""
    from bermuda import IncrementalCell
    from harness.acc_common import meta_key

    groups = {}
    for c in t.cells:
        groups.setdefault((meta_key(c.metadata), c.period_start, c.period_end), []).append(c)
    out = []
    for row in groups.values():
        row.sort(key=lambda c: c.evaluation_date.toordinal())
        prev = row[0].period_start - ONE
        for c in row:
            out.append(IncrementalCell(period_start=c.period_start, period_end=c.period_end, prev_evaluation_date=prev,
                                       evaluation_date=c.evaluation_date, values=dict(c.values), metadata=c.metadata))
            prev = c.evaluation_date
    return out


def hardening():
    """Directed stream for the input families of notes/HARDENING.md (runs on every quick run)."""
    from bermuda import Cell, CumulativeCell, IncrementalCell, Metadata, Triangle

    def mk(ps, pe, ev, vals=None, m=None, cls=CumulativeCell):
        return cls(period_start=ps, period_end=pe, evaluation_date=ev,
                   values=dict(vals) if vals is not None else {"paid_loss": 1, "earned_premium": 10}, metadata=m or Metadata())

    def upper_left(y, m0, n, res=1, metas=(None,), vals=None, holes=(), cls=CumulativeCell):
        """n periods of `res` months from (y, m0); period p observed at lags 0, res, .. up to the common last
        diagonal; `holes` = set of (p, k) dropped"""
        start = (y - 1970) * 12 + m0 - 1
        cells = []
        for m in metas:
            for p in range(n):
                a, b = start + p * res, start + (p + 1) * res - 1
                for k in range(n - p):
                    if (p, k) in holes:
                        continue
                    cells.append(mk(acc_mstart(a), mend(b), mend(b + k * res), vals, m, cls))
        return Triangle(cells)

    from harness.acc_common import mstart as acc_mstart

    OPS = [{"kind": "rt", "unit": "month", "lags": None}, {"kind": "rt", "unit": "day", "lags": [0, 45, 400]},
           {"kind": "rd", "dates": [], "hist": False}, {"kind": "ff", "res": 1, "none": False},
           {"kind": "bf", "statics": ["earned_premium"], "res": 1, "min_lag": -1}]

    def with_dates(t, op):
        if op["kind"] != "rd":
            return op
        hi = max(c.evaluation_date for c in t.cells) if len(t.cells) else D(2020, 1, 31)
        return dict(op, dates=[mend(mid(hi) + k).isoformat() for k in (-1, 0, 1, 3)])

    out = []

    def add(label, t, ops=OPS):
        for op in ops:
            out.append((f"hardening:{label}:{op['kind']}", t, with_dates(t, op)))

    # B: distinct metadata that flatten alike (2 slices each)
    for nm, ms in [("B:details-vs-loss_details", [Metadata(details={"k": "v"}), Metadata(loss_details={"k": "v"})]),
                   ("B:detail-named-like-attribute", [Metadata(details={"currency": "USD"}), Metadata(currency="USD")]),
                   ("B:none-vs-empty-string", [Metadata(country=None), Metadata(country="")]),
                   ("B:only-loss_details-differ", [Metadata(loss_details={"c": "a"}), Metadata(loss_details={"c": "b"}), Metadata()])]:
        add(nm, upper_left(2021, 1, 3, 3, ms, holes={(0, 1)}))
    # M: sibling slices differing ONLY by a hash-colliding value (detail / loss_detail / limit)
    for nm, ms in [("M:detail--1/-2", [Metadata(details={"layer": -1}), Metadata(details={"layer": -2})]),
                   ("M:loss_detail--1.0/-2.0", [Metadata(loss_details={"layer": -2.0}), Metadata(loss_details={"layer": -1.0})]),
                   ("M:limit-0/2**61-1", [Metadata(per_occurrence_limit=2**61 - 1), Metadata(per_occurrence_limit=0)])]:
        ul = upper_left(2021, 1, 3, 3, ms, holes={(0, 1)})
        # the second slice is observed one diagonal less than the first: its rows end earlier
        ragged = Triangle([c for c in ul.cells if not (c.metadata is ms[1] and c.evaluation_date == max(x.evaluation_date for x in ul.cells))])
        add(nm, ragged)
        add(nm + "-inc", Triangle(inc_cells(upper_left(2021, 1, 3, 3, ms))), OPS[:3])
    # P: whole periods missing; evaluation steps whose gcd (3) is smaller than the smallest step (6)
    add("P:annual-2018-2020-no-2019", Triangle([mk(D(y, 1, 1), D(y, 12, 31), D(y + k, 12, 31)) for y in (2018, 2020) for k in (0, 1, 3)]),
        OPS + [{"kind": "ff", "res": None, "none": False}, {"kind": "bf", "statics": [], "res": None, "min_lag": -11}])
    add("P:eval-steps-0-6-15", Triangle([mk(D(2020, 1, 1), D(2020, 3, 31), mend(602 + k)) for k in (0, 6, 15)]
                                        + [mk(D(2020, 4, 1), D(2020, 6, 30), mend(605 + k)) for k in (3, 12)]),
        OPS + [{"kind": "ff", "res": None, "none": False}, {"kind": "ff", "res": 3, "none": True},
               {"kind": "bf", "statics": [], "res": None, "min_lag": -2}, {"kind": "rt", "unit": "month", "lags": [0, 6, 15, 21]}])
    # C: calendar corners (monthly periods around February; add_months results stay after 1970: F10 is C12's)
    for y in (2000, 2096, 2100, 2023, 2240):
        add(f"C:feb-{y}", upper_left(y - 1, 12, 4, 1, holes={(0, 2)}))
    # E: falsy but valid values
    add("E:falsy-values", upper_left(2022, 1, 3, 3, vals={"paid_loss": 0, "earned_premium": 0.0, "x": None}, holes={(0, 1)}),
        OPS + [{"kind": "bf", "statics": ["earned_premium", "x"], "res": 3, "min_lag": -2},
               {"kind": "ff", "res": 3, "none": True}, {"kind": "rt", "unit": "month", "lags": [0]},
               {"kind": "rt", "unit": "month", "lags": []}, {"kind": "bf", "statics": [], "res": 3, "min_lag": 0}])
    add("E:falsy-metadata", upper_left(2022, 1, 2, 3, [Metadata(per_occurrence_limit=0, details={"k": 0}),
                                                         Metadata(per_occurrence_limit=0.5, details={"k": False, "s": ""})]))
    # F: degenerate shapes
    add("F:empty", Triangle([]))
    add("F:one-cell", upper_left(2022, 4, 1, 3))
    t = upper_left(2022, 1, 3, 3)
    add("F:field-missing-in-first-cell",
        Triangle([c.replace(values={"paid_loss": 5} if c.evaluation_date == c.period_end else dict(c.values, late=1.5)) for c in t.cells]))
    add("F:all-None-field", upper_left(2022, 1, 3, 3, vals={"paid_loss": None, "earned_premium": 3}, holes={(0, 1)}))
    add("F:plain-Cell-class", upper_left(2022, 1, 3, 3, cls=Cell, holes={(0, 1)}))
    # G: NumPy corner types carried / zeroed by the operators
    gv = {"paid_loss": np.array([1, 2, 3], dtype=np.int64), "earned_premium": np.array([1.5, 2.5, 3.5]),
          "f32": np.array([1, 2, 3], dtype=np.float32), "size1": np.array([7]), "big": np.int64(2**53 + 1), "f64": np.float64(0.5)}
    add("G:numpy-values", upper_left(2022, 1, 3, 3, vals=gv, holes={(0, 1)}))
    # J: period layouts: nested / overlapping periods, periods sharing a start, gaps and no two adjacent
    q = upper_left(2022, 1, 2, 3)
    add("J:nested-periods", Triangle(list(q.cells) + [mk(D(2022, 1, 1), D(2022, 6, 30), e) for e in (D(2022, 6, 30), D(2022, 12, 31))]))
    add("J:gaps-none-adjacent", Triangle([mk(acc_mstart(a), mend(a), mend(a + k)) for a in (624, 626, 630) for k in (0, 1, 3) if a + k <= 633]))
    semi = [(D(2021, 1, 1), D(2021, 1, 15)), (D(2021, 1, 16), D(2021, 1, 31)), (D(2021, 2, 1), D(2021, 2, 15))]
    add("J:semi-monthly", Triangle([mk(a, b, e) for a, b in semi for e in (D(2021, 2, 15), D(2021, 3, 2)) if e >= b]),
        [{"kind": "rt", "unit": "day", "lags": None}, {"kind": "rt", "unit": "day", "lags": [0, 15, 31, 60]},
         {"kind": "rd", "dates": ["2021-02-15", "2021-03-02", "2021-03-03", "2021-04-01"], "hist": False}])
    # K: boundary values of the optional parameters
    t = upper_left(2022, 1, 3, 3)        # period resolution 3 -> min allowed lag -2 ; first lags 0
    add("K:min-lag-boundaries", t, [{"kind": "bf", "statics": [], "res": 1, "min_lag": ml} for ml in (-2, -3, -1, 0, 1)]
        + [{"kind": "bf", "statics": [], "res": 2, "min_lag": -2}, {"kind": "bf", "statics": [], "res": 3, "min_lag": -3}])
    t = upper_left(2022, 1, 3, 3, holes={(0, 1)})
    add("K:lag-boundaries", t, [{"kind": "rt", "unit": "month", "lags": ls} for ls in ([3], [6], [7], [5, 6], [-1, 0])]
        + [{"kind": "ff", "res": r, "none": False} for r in (3, 6, 1)])
    # K: the timedelta unit (F29): default lags and requested timedelta lags, on cumulative and incremental input
    t = upper_left(2022, 1, 3, 3, holes={(0, 1)})
    tdops = [{"kind": "rt", "unit": "timedelta", "lags": ls} for ls in (None, [92], [0, 91, 92, 400], [])]
    add("K:timedelta-unit", t, tdops)
    add("K:timedelta-unit-inc", Triangle(inc_cells(upper_left(2022, 1, 3, 3))), tdops)
    # L: refusals both ways
    inc = inc_cells(upper_left(2022, 1, 3, 3))
    add("L:valid-incremental", Triangle(inc), OPS[:3])
    broken = [c.replace(prev_evaluation_date=c.prev_evaluation_date - ONE) if i == 1 else c for i, c in enumerate(inc)]
    add("L:broken-chain", Triangle(broken), OPS[:3])
    first_off = [c.replace(prev_evaluation_date=c.period_start - datetime.timedelta(days=5)) if i == 0 else c for i, c in enumerate(inc)]
    add("L:first-prev-not-period-start", Triangle(first_off), OPS[:3])
    add("L:unknown-unit", upper_left(2022, 1, 3, 3), [{"kind": "rt", "unit": "fortnight", "lags": None},
                                                      {"kind": "rt", "unit": "fortnight", "lags": [5]},
                                                      {"kind": "rt", "unit": "fortnight", "lags": []}])
    return out


class Big:
    """a large triangle together with the parameters that rebuild it (replays record the parameters)"""

    def __init__(self, tri, params):
        self.tri, self.params, self.cells = tri, params, tri.cells

    def __len__(self):
        return len(self.cells)


def big15(p):
    """Large C15 inputs from a few parameters (recorded in replays instead of the cells).
    kind row:        n_periods monthly periods, each observed at lags 0..n_lags-1 minus every `hole`-th lag (rows > 65 cells)
    kind upper_left: n x n monthly upper-left triangle (about n*n/2 missing cells -> that many distinct add_months calls)"""
    from bermuda import CumulativeCell, Metadata, Triangle

    start = (p.get("year", 1985) - 1970) * 12
    from harness.acc_common import mstart as ms_

    cells = []
    metas = [Metadata(details={"s": j}) for j in range(p.get("slices", 1))]
    if p["kind"] == "row":
        for m in metas:
            for a in range(p["n_periods"]):
                for k in range(p["n_lags"]):
                    if p.get("hole") and k % p["hole"] == p["hole"] - 1 and k != p["n_lags"] - 1:
                        continue
                    cells.append(CumulativeCell(period_start=ms_(start + a), period_end=mend(start + a), evaluation_date=mend(start + a + k),
                                                values={"paid_loss": 1000 * a + k, "earned_premium": 5.5}, metadata=m))
    else:
        n = p["n"]
        for m in metas:
            for a in range(n):
                for k in range(n - a):
                    cells.append(CumulativeCell(period_start=ms_(start + a), period_end=mend(start + a), evaluation_date=mend(start + a + k),
                                                values={"paid_loss": a + k}, metadata=m))
    cells = cells if not p.get("inc") else inc_cells(Triangle(cells))
    random.Random(p.get("seed", 0)).shuffle(cells)
    with warnings.catch_warnings():
        warnings.simplefilter("ignore")
        return Triangle(cells)


def big_cases(quick):
    """(label, params, op): sizes cross rows of > 65 cells, > 64 evaluation dates, > 4096 distinct (date, lag) pairs in one
    process, > 2100 / 4200 cells"""
    row = {"kind": "row", "n_periods": 3, "n_lags": 80, "hole": 7}
    hi = mend((1985 - 1970) * 12 + 2 + 79)
    out = [("big:row80", row, {"kind": "rt", "unit": "month", "lags": None}),
           ("big:row80", row, {"kind": "rt", "unit": "day", "lags": [0, 3000, 4000]}),
           ("big:row80", row, {"kind": "rd", "dates": [mend(mid(hi) + k).isoformat() for k in (-2, 0, 1, 5)], "hist": False}),
           ("big:row80", row, {"kind": "ff", "res": 1, "none": False}),
           ("big:row80", row, {"kind": "bf", "statics": ["earned_premium"], "res": 1, "min_lag": 0}),
           ("big:row70-inc-2sl", {"kind": "row", "n_periods": 2, "n_lags": 70, "slices": 2, "inc": True},
            {"kind": "rt", "unit": "month", "lags": None}),
           ("big:row66-late-first-lag", {"kind": "row", "n_periods": 2, "n_lags": 66, "hole": 5, "year": 1999},
            {"kind": "bf", "statics": [], "res": 1, "min_lag": 0}),
           ("big:upper-left-92", {"kind": "upper_left", "n": 92}, {"kind": "rt", "unit": "month", "lags": None})]
    if not quick:
        out += [("big:upper-left-130", {"kind": "upper_left", "n": 130}, {"kind": "rt", "unit": "month", "lags": None}),
                ("big:upper-left-70-inc-2sl", {"kind": "upper_left", "n": 70, "slices": 2, "inc": True}, {"kind": "rt", "unit": "month", "lags": None}),
                ("big:upper-left-92-diag", {"kind": "upper_left", "n": 92},
                 {"kind": "rd", "dates": [mend((1985 - 1970) * 12 + 91 + k).isoformat() for k in range(-3, 60)], "hist": False}),
                ("big:row300", {"kind": "row", "n_periods": 4, "n_lags": 300, "hole": 11}, {"kind": "ff", "res": 1, "none": True})]
    return [(lab, p, dict(op, big=True)) for lab, p, op in out]


def known_class(ctx, kind):
    return any(k.get("property") == "C15" and k.get("status") == "known" and k.get("class") == {"kind": kind}
               for k in ctx.known)


def k2_probe(ctx):
    """Known finding K2: restated cells (same coordinates twice, accepted with a warning) -- fill_forward_gaps
    keys a row by lag, so only the last of the restated observations survives."""
    from bermuda import CumulativeCell, Triangle
    from bermuda.utils.fill import fill_forward_gaps

    mk = lambda e, v: CumulativeCell(period_start=D(2020, 1, 1), period_end=D(2020, 3, 31), evaluation_date=e,  # noqa: E731
                                      values={"paid_loss": v})
    with warnings.catch_warnings():
        warnings.simplefilter("ignore")
        t = Triangle([mk(D(2020, 3, 31), 1), mk(D(2020, 3, 31), 2), mk(D(2020, 9, 30), 3)])
        out = fill_forward_gaps(t, eval_resolution=3)
    kept = sorted(c.values["paid_loss"] for c in out if c.evaluation_date == D(2020, 3, 31))
    if kept != [1, 2]:
        ctx.violation("impl-violation",
                      f"fill_forward_gaps on restated cells keeps {kept} of the two observations at 2020-03-31 (an observed cell is dropped)",
                      {"cells": tri_to_json(t), "op": {"kind": "ff", "res": 3, "none": False}},
                      found_input=True, finding_class={"kind": "fill_drops_restated_cell"})


def candidate_probes(ctx):
    """Behaviour at the edge of the property text, reported as notes (or as KNOWN-FINDING if the lead
    lists the class): an eval_resolution that does not divide a row's lag span makes fill_forward_gaps
    add a cell beyond the row's last observation."""
    from bermuda import CumulativeCell, Triangle
    from bermuda.utils.fill import fill_forward_gaps

    cs = [CumulativeCell(period_start=D(2020, 1, 1), period_end=D(2020, 1, 31), evaluation_date=e, values={"paid_loss": 1})
          for e in (D(2020, 1, 31), D(2020, 8, 31))]
    out = fill_forward_gaps(Triangle(cs), eval_resolution=3)
    beyond = [c for c in out if c.evaluation_date > D(2020, 8, 31)]
    if beyond:
        what = ("fill_forward_gaps(eval_resolution=3) on observed lags [0, 7] adds lag 9, beyond the last observation "
                "(resolution does not divide the row's lag span)")
        if known_class(ctx, "fill_beyond_last_incompatible_resolution"):
            ctx.violation("impl-violation", what, {"cells": tri_to_json(cs), "op": {"kind": "ff", "res": 3, "none": False}},
                          found_input=True, finding_class={"kind": "fill_beyond_last_incompatible_resolution"})
        else:
            ctx.notes.append("candidate finding (not flagged; the theorem carries the hypothesis that the resolution "
                             "divides each row's lag span): " + what)


# ------------------------------------------------------------------ run
HEADER = ct.COQ_HEADER + "From Bermuda Require Import Model.Accessors Model.Extend.\nFrom Gen Require Import C15_Tie.\n"


def run_cases(ctx, cases):
    per_file = 110
    files, ofail, mism = [], [], []
    chunk, pr = [], None

    def flush():
        nonlocal chunk, pr
        if not chunk:
            return
        f = ctx.build / f"cases_{len(files)}.v"
        f.write_text(HEADER + "\n".join(pr.defs) + "\nDefinition cases : list (list cell * op * result (list cell)) := [\n"
                     + ";\n".join(txt for _, txt in chunk) + "].\nEval vm_compute in run cases.\n")
        files.append((f, [i for i, _ in chunk]))
        chunk, pr = [], None

    n_ok = 0
    early = []
    for i, (label, t, op) in enumerate(cases):
        before = ct.canon_tri(t, ordered=True)
        try:
            res = apply_op(t, op)
        except Exception as ex:  # noqa: BLE001
            res = ex
        if ct.canon_tri(t, ordered=True) != before:
            ofail.append((i, label, t, op, "the operator changed its input triangle"))
        ctx.hist("op:" + label.split("/")[0])
        ctx.hist("shape:" + "/".join(label.split("/")[1:3]))
        ctx.hist("result:" + ("raised " + type(res).__name__ if isinstance(res, BaseException) else
                              ("empty" if len(res) == 0 else "cells")))
        for msg in oracle(t, op, res)[:2]:
            ofail.append((i, label, t, op, msg))
        if i < 10:
            early.append((label, t, op, ("err", type(res).__name__) if isinstance(res, BaseException) else ct.canon_tri(res, ordered=True)))
        if op.get("big"):
            ctx.hist("big:python-oracles-only")
            ctx.nontriv((label, repr(sorted(op.items(), key=str))))
            continue  # no Coq literals for the large stream (the theorems are size-independent)
        if pr is None:
            pr = CellPrinter(f"k{len(files)}_")
        save = (list(pr.defs), dict(pr.names))
        try:
            if isinstance(res, BaseException):
                rtxt = f"(Err {ct.cerr(res)})"
            else:
                rtxt = f"(Ok {pr.cells(res.cells)})"
            txt = f"({pr.cells(t.cells)},\n {cop(op)},\n {rtxt})"
        except ct.NotRepresentable:
            pr.defs, pr.names = save
            ctx.hist("skipped:not-representable")
            continue
        chunk.append((i, txt))
        n_ok += 1
        ctx.nontriv((ct.canon_tri(t), repr(sorted(op.items(), key=str))))
        if i % 97 == 5:
            ctx.sample({"label": label, "op": op, "input_cells": len(t),
                        "result": type(res).__name__ if isinstance(res, BaseException) else len(res)})
        if len(chunk) >= per_file:
            flush()
    flush()
    # process-wide state (memo rings, pools): the earliest small cases are run again AFTER all the large work
    for label, t, op, first in early:
        try:
            res = apply_op(t, op)
        except Exception as ex:  # noqa: BLE001
            res = ex
        again = ("err", type(res).__name__) if isinstance(res, BaseException) else ct.canon_tri(res, ordered=True)
        op2 = dict(op, after_large=True)   # the replay repeats the large work first
        if again != first:
            ofail.append((0, label, t, op2, "re-check after the large stream: the same call on the same input now gives another result"))
        for msg in oracle(t, op, res)[:1]:
            ofail.append((0, label, t, op2, "(re-check after the large stream) " + msg))
    out = ctx.coqc_many([f for f, _ in files], jobs=16, timeout=900)
    for f, idxs in files:
        rc, txt = out[f]
        if rc != 0 and not txt.strip():  # killed without a message (memory pressure on a loaded host): once more, alone
            rc, txt = ctx.coqc(f, timeout=900)
        vals = parse_coq_eval(txt)
        if rc != 0 or not vals:
            mism.append((None, f.name, None, None, "coqc failed: " + txt[-800:]))
            continue
        for j in parse_nat_list(vals[-1]):
            ci = idxs[j // NCHECK]
            label, t, op = cases[ci]
            mism.append((ci, label, t, op, SPEC_NAMES[op["kind"]][j % NCHECK]))
    ctx.count(evaluations=n_ok * NCHECK, traces=n_ok)
    return ofail, mism


def translate_and_prove(ctx):
    """Decision tokens (`dev_lag > cell.dev_lag(unit)`, `row[-1]`) regenerated from source."""
    from translate import t_acc

    name = "T-acc translation (_make_right_triangle_slice comparison, right_edge row index)"
    try:
        gen = t_acc.translate_c15(REPO)
    except t_acc.Unsupported as ex:
        ctx.obligation(name, False, str(ex))
        ctx.log(f"translator failed closed: {ex}")
        return False
    except Exception as ex:  # noqa: BLE001
        ctx.obligation(name, False, repr(ex))
        return False
    ctx.obligation(name, True)
    (ctx.build / "GenExt.v").write_text(gen)
    rc, out = ctx.coqc(ctx.build / "GenExt.v", timeout=300)
    ctx.obligation("GenExt.v compiles", rc == 0, out)
    if rc != 0:
        return False
    shutil.copy(COQ / "GenProps" / "C15_Gen.v", ctx.build / "C15_Gen.v")
    ok, _ = ctx.prove(ctx.build / "C15_Gen.v", timeout=600)
    return ok


def run(ctx):
    warnings.simplefilter("ignore")
    ctx.rule = (
        "month-aligned triangles from harness.gen (complete, upper-left/ragged, holey, single period, single lag; "
        "1-3 slices; cumulative and incremental; int and dyadic-float values; resolutions 1/3/6/12) x operator and "
        "parameters: make_right_triangle (slice lags or explicit lag lists on and off the grid, month and day units), "
        "make_right_diagonal (date lists before/at/after the latest evaluation, include_historic on cumulative "
        "triangles), fill_forward_gaps (inferred or given resolution, carry-forward or None), backfill (static field "
        "lists incl. missing fields, inferred or given resolution, minimum lags -12..3); plus directed probes for F7, "
        "F16, lag == edge lag, complete triangles and the incremental chain. Every case: the real operator runs, Coq "
        "compares the result with the model position by position and evaluates the executable specs on the "
        "implementation's output, independent Python oracles check the property text. Non-trivial = distinct "
        "(triangle, parameters).")
    ctx.assumptions += [
        "month arithmetic is Calendar.addm / lag_months: equal to the source's float-based add_months / dev_lag_months "
        "only where the C12 bridge theorems say so (month-aligned dates, results in 1970-2100; F10 before 1970); the "
        "month-unit theorems themselves hold for every date of year >= 1 (Proofs/CalendarP.v, unbounded, axiom-free)",
        "result order: the model emits slices in the order of the input's distinct metadata, which is the sorted "
        "order for a canonical input (C01; C13_metadata_canonical); the new cells are proved to be a legal constructor "
        "argument (C15_results_constructible), the position-by-position order of the model's list is tied by "
        "correspondence",
        "to_incremental + _fix_prev_evaluation_date are modelled by the chain they produce; the tie runs the real pipeline",
        "make_right_diagonal(include_historic=True) is outside the placement clause (it is asked to re-create "
        "historic diagonals); it is tied to the model only",
    ]
    ctx.audit_tree(["Model/Extend.v", "Proofs/Extend.v", "Proofs/AccessorsCal.v", "Proofs/AccessorsOrder.v", "Props/C15.v",
                    "GenProps/C15_Tie.v", "GenProps/C15_Gen.v"])
    ctx.prove_static("Props/C15.v", timeout=900)
    translate_and_prove(ctx)
    for f in ctx.build.glob("cases_*.v*"):
        f.unlink()
    shutil.copy(COQ / "GenProps" / "C15_Tie.v", ctx.build / "C15_Tie.v")
    rc, out = ctx.coqc(ctx.build / "C15_Tie.v", timeout=300)
    ctx.obligation("C15_Tie.v compiles", rc == 0, out)
    rng = random.Random(ctx.seed * 7368787 + 15)
    g = Gen(rng)
    cases = list(directed())
    with warnings.catch_warnings():
        warnings.simplefilter("ignore")
        cases += hardening()
    n = 1300 if ctx.quick else 9000
    i = 0
    while len(cases) < n:
        c = gen_case(rng, g, i)
        i += 1
        if c is not None:
            cases.append(c)
    built = {}
    for lab, p, op in big_cases(ctx.quick):
        key = repr(sorted(p.items()))
        if key not in built:
            built[key] = big15(p)
        cases.append((lab, Big(built[key], p), op))
    ctx.notes.append("large stream: %d big (triangle, operator) cases (rows of 66-80+ cells, a 92x92 upper-left triangle with 4186 "
                     "missing cells) judged by the Python-side oracles only, no Coq literals for them (the theorems are "
                     "size-independent; the correspondence samples); the earliest small cases are run again after the large work"
                     % len(big_cases(ctx.quick)))
    ofail, mism = run_cases(ctx, cases)
    ctx.log(f"{len(cases)} cases: {len(ofail)} oracle failures, {len(mism)} model/spec mismatches")
    ctx.obligation("correspondence model = implementation and specs hold on implementation outputs", not mism,
                   repr([(m[1], m[4]) for m in mism[:8]]))
    for probe, pdata in ((candidate_probes, {"op": {"kind": "ff", "res": 3, "none": False}, "probe": "K1 input (lags 0 and 7)"}),
                         (k2_probe, {"op": {"kind": "ff", "res": 3, "none": False}, "probe": "K2 input (restated cell)"})):
        try:
            probe(ctx)
        except Exception as ex:  # noqa: BLE001  the operator refused a valid probe input (e.g. corrupted process-wide state)
            ofail.append((0, "probe:" + pdata["probe"], [], pdata["op"],
                          f"raised {type(ex).__name__}: {ex} on the {pdata['probe']} after the streams ran"))
    report(ctx, ofail, mism)


def fails_on(cells, op):
    from bermuda import Triangle

    try:
        with warnings.catch_warnings():
            warnings.simplefilter("ignore")
            t = Triangle(cells)
            try:
                res = apply_op(t, op)
            except Exception as ex:  # noqa: BLE001
                res = ex
            return bool(oracle(t, op, res))
    except Exception:  # noqa: BLE001
        return False


def shrink(t, op):
    import time

    cells = list(t.cells)
    t0 = time.time()
    changed = True
    while changed and len(cells) > 1 and time.time() - t0 < 20:
        changed = False
        for i in range(len(cells)):
            cand = cells[:i] + cells[i + 1:]
            if fails_on(cand, op):
                cells, changed = cand, True
                break
    return cells


def report(ctx, ofail, mism):
    seen = set()
    for i, label, t, op, msg in ofail:
        key = (op["kind"], "".join(ch for ch in msg[:28] if not ch.isdigit()))
        if key in seen:
            continue
        seen.add(key)
        if isinstance(t, Big):
            ctx.violation("impl-violation", f"{op['kind']}: {msg} [{label}]",
                          {"label": label, "op": op, "big_params": t.params, "cells": "generated from big_params"}, found_input=True)
            continue
        small = shrink(t, op) if not isinstance(t, list) else t
        ctx.violation("impl-violation", f"{op['kind']}: {msg} [{label}]",
                      {"label": label, "op": op, "cells": tri_to_json(small)}, found_input=True)
        if len(seen) >= 4:
            break
    if mism and not ofail:
        for i, label, t, op, chk in mism:
            if t is not None and chk.startswith("spec:"):
                ctx.violation("impl-violation", f"executable specification {chk} fails on the implementation's output [{label}]",
                              {"label": label, "op": op, "cells": tri_to_json(t)}, found_input=True)
                return
        i, label, t, op, chk = mism[0]
        ctx.violation("correspondence", f"model and implementation disagree ({chk}) [{label}]; no oracle failed",
                      {"label": label, "op": op, "cells": tri_to_json(t) if t is not None else None,
                       "all": [(m[1], m[4]) for m in mism[:20]]}, found_input=False)


def replay(ctx, data):
    if not data.get("cells"):
        print("replay: no concrete input recorded:", data.get("what"))
        return 1
    warnings.simplefilter("ignore")
    t = big15(data["big_params"]) if data.get("big_params") else tri_from_json(data["cells"])
    op = dict(data["op"])
    first = None
    if op.pop("after_large", False):
        try:
            r0 = apply_op(t, op)
            first = ct.canon_tri(r0, ordered=True)
        except Exception as ex:  # noqa: BLE001
            first = ("err", type(ex).__name__)
        built = {}
        for lab, p, bop in big_cases(True):
            key = repr(sorted(p.items()))
            built.setdefault(key, big15(p))
            try:
                apply_op(built[key], bop)
            except Exception:  # noqa: BLE001
                pass
        print("(the large stream was run first, in this process)")
    try:
        res = apply_op(t, op)
    except Exception as ex:  # noqa: BLE001
        res = ex
    print(f"{op} on a triangle with {len(t)} cells ->",
          f"raised {type(res).__name__}: {res}" if isinstance(res, BaseException) else f"{len(res)} cells")
    msgs = oracle(t, op, res)
    if first is not None:
        again = ("err", type(res).__name__) if isinstance(res, BaseException) else ct.canon_tri(res, ordered=True)
        if again != first:
            msgs.append("the same call on the same input gives another result after the large work than before it")
    for m in msgs:
        print("  FAILS:", m)
    if not msgs:
        print("  every C15 oracle holds on this input")
    return 1 if msgs else 0
