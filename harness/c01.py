"""C01 -- A Triangle is a canonical sorted set."""
from __future__ import annotations

import datetime
import itertools
import random
import shutil
import warnings

from harness import coqterm as ct
from harness.common import COQ, REPO, parse_coq_eval
from harness.gen import ATTRS, Gen

warnings.simplefilter("ignore")


def translate_and_prove(ctx, gen_file: str, static_file: str):
    """Shared by C01 and C02: regenerate GenOrder.v, compile it and the property files."""
    from translate import t_order

    ok = True
    try:
        txt, feats, fb = t_order.translate(REPO)
    except t_order.Unsupported as ex:
        ctx.obligation("T-order/T-eqhash/T-funnel translation", False, str(ex))
        ctx.log(f"translator failed closed: {ex}")
        return False, None
    except Exception as ex:  # noqa: BLE001
        ctx.obligation("T-order/T-eqhash/T-funnel translation", False, repr(ex))
        return False, None
    ctx.obligation("T-order/T-eqhash/T-funnel translation", True)
    for f in list(ctx.build.glob("*.vo")) + list(ctx.build.glob("*.glob")):
        f.unlink()
    (ctx.build / "GenOrder.v").write_text(txt)
    exp = COQ / "GenExpected" / "GenOrder.v"
    if exp.exists() and exp.read_text() != txt:
        import difflib

        d = "".join(difflib.unified_diff(exp.read_text().splitlines(1), txt.splitlines(1), "expected", "generated"))
        ctx.extra["generated_diff"] = d[:6000]
    if fb:
        ctx.notes.append(f"T-funnel: statements touching a _cells list outside the constructor: {fb}")
        ctx.extra["funnel_violations"] = fb
    rc, out = ctx.coqc(ctx.build / "GenOrder.v", timeout=300)
    ctx.obligation("GenOrder.v compiles", rc == 0, out)
    if rc != 0:
        return False, feats
    shutil.copy(COQ / "GenProps" / gen_file, ctx.build / gen_file)
    ok1, _ = ctx.prove(ctx.build / gen_file, timeout=300)
    ok2, _ = ctx.prove_static(static_file, timeout=600)
    ctx.audit_tree(["Model/Base.v", "Model/Order.v", "Model/Eq.v", "Proofs/OrderP.v", "Proofs/EqP.v",
                    "Proofs/TriangleP.v", "Props/C01.v", "Props/C02.v", "GenProps/C01_gen.v", "GenProps/C02_gen.v"])
    return ok and ok1 and ok2, feats


# ------------------------------------------------------------------------------------------------
def strict_seq(t):
    return ct.canon_tri(t, ordered=True)


def canonical_violations(t):
    """Direct oracle: is the exposed cell sequence in canonical form?  Uses only the public
    comparison operators of the implementation plus structural facts."""
    from bermuda import IncrementalCell

    cells = list(t.cells)
    probs = []
    if len({type(c).__name__ for c in cells}) > 1:
        # nothing else can be compared meaningfully (cross-class < and == are not defined)
        return ["mixed cell classes: " + ", ".join(sorted({type(c).__name__ for c in cells}))]
    if any(a is not b for a, b in zip(iter(t), cells)) or any(t[i] is not cells[i] for i in range(len(cells))):
        probs.append("iter()/indexing disagree with .cells")
    for a, b in zip(cells, cells[1:]):
        if b < a:
            probs.append(f"not sorted: {b.coordinates} < {a.coordinates}")
            break
    # slices contiguous and ascending by Metadata <
    seen, last = [], None
    for c in cells:
        if last is None or c.metadata != last:
            if any(c.metadata == m for m in seen):
                probs.append("slice not contiguous")
                break
            if last is not None and not (last < c.metadata):
                probs.append("slices do not ascend by Metadata <")
                break
            seen.append(c.metadata)
            last = c.metadata
    # inside a slice ascending coordinates
    for a, b in zip(cells, cells[1:]):
        if a.metadata == b.metadata:
            ka = (a.period_start, a.period_end, a.evaluation_date) + ((a.prev_evaluation_date,) if isinstance(a, IncrementalCell) else ())
            kb = (b.period_start, b.period_end, b.evaluation_date) + ((b.prev_evaluation_date,) if isinstance(b, IncrementalCell) else ())
            if kb < ka:
                probs.append(f"coordinates descend inside a slice: {ka} then {kb}")
                break
    for c in cells:
        if c.period_end < c.period_start or c.evaluation_date < c.period_start:
            probs.append("cell violates the constructor's date rules")
            break
        if isinstance(c, IncrementalCell) and not (c.evaluation_date > c.prev_evaluation_date):
            probs.append("incremental cell with evaluation_date <= prev_evaluation_date")
            break
    return probs


def meta_universe(g: Gen, n=40):
    from bermuda import Metadata

    base = g.base_meta_kwargs()
    ms = [Metadata(**base)]
    for a in ATTRS:
        for i in range(1, 4):
            ms.append(Metadata(**g.vary(base, a, i)))
    # None vs "" / numeric representation / dict order variants
    import math

    ms += [Metadata(country=None), Metadata(country=""), Metadata(country="A"),
           Metadata(risk_basis=None), Metadata(risk_basis=""), Metadata(currency=""), Metadata(loss_definition=""),
           Metadata(reinsurance_basis=""), Metadata(per_occurrence_limit=math.inf), Metadata(per_occurrence_limit=-1),
           Metadata(per_occurrence_limit=None), Metadata(per_occurrence_limit=0), Metadata(per_occurrence_limit=1e9),
           Metadata(details={"a": 1, "b": 2}), Metadata(details={"b": 2, "a": 1}), Metadata(details={"a": 1}),
           Metadata(details={"a": 1, "b": 3}), Metadata(loss_details={"a": 1}), Metadata(details={"a": 1.0}),
           Metadata(details={"a": True}),
           # values whose CPython hashes collide (hash(-1) == hash(-2), hash(0) == hash(2**61 - 1)): distinct metadata
           Metadata(details={"a": -1}), Metadata(details={"a": -2}), Metadata(details={"a": -1.0}), Metadata(details={"a": -2.0}),
           Metadata(loss_details={"a": -1}), Metadata(loss_details={"a": -2}), Metadata(per_occurrence_limit=-2),
           Metadata(details={"a": 0}), Metadata(details={"a": 2**61 - 1}),
           # integers beyond 2**53: distinct as ints, equal after a conversion to float
           Metadata(per_occurrence_limit=2**53), Metadata(per_occurrence_limit=2**53 + 1), Metadata(per_occurrence_limit=10**17 + 3),
           Metadata(per_occurrence_limit=10**17 + 5), Metadata(details={"a": 2**53}), Metadata(details={"a": 2**53 + 1}),
           # round 8: ==-equal metadata whose loss_details / details were WRITTEN in different key orders (e.g. a key added
           # later by derive_metadata), with a distinct metadata that sorts between the two spellings if order leaks
           Metadata(loss_details={"peril": "wind", "zone": "A"}), Metadata(loss_details={"zone": "A", "peril": "wind"}),
           Metadata(loss_details={"peril": "wind", "zone": "B"}), Metadata(loss_details={"zone": "0", "peril": "wind"}),
           Metadata(details={"x": 1}, loss_details={"b": 2, "a": 1}), Metadata(details={"x": 1}, loss_details={"a": 1, "b": 2}),
           Metadata(details={"x": 1}, loss_details={"a": 1, "b": 3}), Metadata(details={"x": 1}, loss_details={"b": 0, "a": 2})]
    return ms[: max(n, len(ms))]


def meta_order_oracle(ctx, ms):
    """Strict-total-order axioms of the implementation's Metadata `<` over a universe."""
    bad = []
    n = len(ms)
    lt = [[ms[i] < ms[j] for j in range(n)] for i in range(n)]
    eq = [[ms[i] == ms[j] for j in range(n)] for i in range(n)]
    for i in range(n):
        if lt[i][i]:
            bad.append(("irreflexive", i, i))
        for j in range(n):
            if lt[i][j] and lt[j][i]:
                bad.append(("asymmetric", i, j))
            if not eq[i][j] and not lt[i][j] and not lt[j][i]:
                bad.append(("total-on-distinct", i, j))
            if eq[i][j] and (lt[i][j] or lt[j][i]):
                bad.append(("equal-but-ordered", i, j))
            if eq[i][j] and hash(ms[i]) != hash(ms[j]):
                bad.append(("equal-but-hash-differs", i, j))
    for i, j, k in itertools.product(range(n), repeat=3):
        if lt[i][j] and lt[j][k] and not lt[i][k]:
            bad.append(("transitive", i, j, k))
            break
    ctx.count(evaluations=n * n)
    return bad


def op_sequence(ctx, g: Gen, t, length, forced=None):
    """Apply a random chain of public operations (or the `forced` ones, in order); return (trace, first problem or None)."""
    from bermuda.utils import merge, coalesce  # noqa: F401

    r = g.r
    trace = []
    for _step in range(length):
        ops = ["filter", "clip", "select", "right_edge", "slice", "index_slice", "add", "to_incremental",
               "to_cumulative", "aggregate", "summarize", "merge", "coalesce", "derive_fields", "derive_metadata",
               "replace", "make_right_triangle", "make_right_diagonal", "split", "period_merge", "add_statics",
               "thin", "fill_forward_gaps", "backfill", "convert_currency", "binary_roundtrip", "json_roundtrip",
               "blend", "remove_static_details", "shift_origin", "add_cross_basis_after", "add_cross_basis_after",
               "wide_frame_roundtrip", "long_frame_roundtrip", "unlimit_one_slice", "replace_prev", "replace_dates"]
        op = forced[_step] if forced else r.choice(ops)
        forced_cross = op == "add_cross_basis_after"
        if forced_cross:
            op = "add"
        if len(t) > 300:      # keep chains small: sizes can grow geometrically under + / fills / right triangles
            break
        before = strict_seq(t)
        try:
            if op == "filter":
                k = r.randint(0, 3)
                t2 = t.filter(lambda c: (c.evaluation_date.toordinal() + c.period_start.toordinal()) % 4 != k)
            elif op == "clip":
                evs = t.evaluation_dates or [datetime.date(2020, 1, 1)]
                t2 = t.clip(max_eval=r.choice(evs)) if r.random() < 0.5 else t.clip(min_eval=r.choice(evs))
            elif op == "select":
                fs = t.fields
                t2 = t.select(r.sample(fs, r.randint(1, len(fs)))) if fs else t
            elif op == "right_edge":
                t2 = t.right_edge
            elif op == "slice":
                sl = list(t.slices.values())
                t2 = r.choice(sl) if sl else t
            elif op == "index_slice":
                a = r.randint(0, max(0, len(t) - 1))
                step = r.choice([None, 1, 2, 3, -1, -2])
                if step is not None and step < 0:
                    t2 = t[a::step] if r.random() < 0.5 else t[::step]
                else:
                    t2 = t[a: a + r.randint(0, 8): step]
            elif op == "add":
                same = "inc" if t.is_incremental else "cum"
                flip = "cum" if t.is_incremental else "inc"
                # mostly the same basis; sometimes the other one (must be refused: a Triangle holds one class),
                # with periods strictly after / before t's so that no reordering is needed
                u = 0.9 if (forced_cross and len(t)) else r.random()
                if u < 0.6 or len(t) == 0:
                    other, _ = g.triangle(basis=same, n_slices=r.randint(1, 2))
                elif u < 0.8:
                    other, _ = g.triangle(basis=flip, n_slices=r.randint(1, 2))
                else:
                    # the other basis, one cell that sorts strictly AFTER every cell of t (same metadata as
                    # t's last cell, later period): nothing needs re-sorting, but the classes are mixed
                    from bermuda import CumulativeCell, IncrementalCell, Triangle as _T

                    last = t.cells[-1]
                    ps = last.period_start + datetime.timedelta(days=800)
                    pe = ps + datetime.timedelta(days=30)
                    if flip == "inc":
                        oc = IncrementalCell(period_start=ps, period_end=pe, prev_evaluation_date=ps - datetime.timedelta(days=1),
                                             evaluation_date=pe, values=dict(last.values), metadata=last.metadata)
                    else:
                        oc = CumulativeCell(period_start=ps, period_end=pe, evaluation_date=pe,
                                            values=dict(last.values), metadata=last.metadata)
                    other = _T([oc])
                t2 = (t + other) if r.random() < 0.7 else sum([t, other])
            elif op == "to_incremental":
                t2 = t.to_incremental()
            elif op == "to_cumulative":
                t2 = t.to_cumulative()
            elif op == "aggregate":
                t2 = t.aggregate(period_resolution=(r.choice([3, 6, 12]), "month"))
            elif op == "summarize":
                t2 = t.summarize()
            elif op == "merge":
                t2 = t.merge(t.select(t.fields[:1]).derive_fields(extra=1)) if t.fields else t
            elif op == "coalesce":
                t2 = t.coalesce([t.right_edge])
            elif op == "derive_fields":
                t2 = t.derive_fields(new_field=r.randint(1, 9))
            elif op == "derive_metadata":
                if r.random() < 0.5:
                    t2 = t.derive_metadata(country=r.choice(["ZZ", "AA"]))
                else:
                    t2 = t.derive_metadata(tag=lambda c: "x" if c.evaluation_date.month % 2 else "w")
            elif op == "replace":
                t2 = t.replace(values=lambda c: {k: v for k, v in list(c.values.items())[::-1]})
            elif op == "make_right_triangle":
                t2 = t.make_right_triangle()
            elif op == "make_right_diagonal":
                ev = max(t.evaluation_dates) if len(t) else datetime.date(2020, 1, 31)
                from bermuda.date_utils import add_months

                dates = [add_months(ev, 3)]
                if r.random() < 0.5 and len(t):
                    dates = sorted(set(dates + r.sample(t.evaluation_dates, min(2, len(t.evaluation_dates)))))
                u = r.random()
                if u < 0.4:
                    t2 = t.make_right_diagonal(dates)
                elif u < 0.7:
                    t2 = t.make_right_diagonal(dates, include_historic=True)
                else:
                    from bermuda.utils import make_right_diagonal as mrd

                    t2 = mrd(t, dates, include_historic=r.random() < 0.5)
            elif op == "split":
                parts = list(t.split(["lob"]).values()) if len(t) else []
                t2 = r.choice(parts) if parts else t
            elif op == "period_merge":
                t2 = t.period_merge(t.right_edge.select(t.fields[:1]), suffix="_edge") if t.fields else t
            elif op == "add_statics":
                t2 = t.add_statics(t.right_edge, statics=t.fields[:1]) if t.fields else t
            elif op == "thin":
                t2 = t.thin(max(1, t.num_samples - 1), seed=r.randint(0, 5))
            elif op == "fill_forward_gaps":
                from bermuda.utils.fill import fill_forward_gaps

                # month-aligned triangles with a positive evaluation resolution only (the operator
                # loops over month lags; day-level triangles make it run away)
                if not (len(t) and t.eval_date_resolution and t.eval_date_resolution > 0 and t.is_disjoint):
                    raise ValueError("not applicable")
                t2 = fill_forward_gaps(t)
            elif op == "backfill":
                from bermuda.utils.backfill import backfill

                if not (len(t) and t.eval_date_resolution and t.eval_date_resolution > 0 and t.is_disjoint):
                    raise ValueError("not applicable")
                t2 = backfill(t, static_fields=t.fields[:1])
            elif op == "convert_currency":
                from bermuda.utils import convert_currency

                t2 = convert_currency(t.derive_metadata(currency="EUR"), "USD", {"EUR": 2.0})
            elif op == "binary_roundtrip":
                import os

                pth = f"/verif/build/C01/op_{os.getpid()}.trib"
                t.to_binary(pth)
                t2 = type(t).from_binary(pth)
                os.unlink(pth)
            elif op == "json_roundtrip":
                t2 = type(t).from_dict(t.to_dict())
            elif op == "blend":
                t2 = t.blend([t], method="linear")
            elif op == "remove_static_details":
                t2 = t.remove_static_details()
            elif op == "wide_frame_roundtrip":
                lds = sorted({k for m in t.metadata for k in m.loss_details})
                t2 = type(t).from_wide_data_frame(t.to_wide_data_frame(), field_cols=list(t.fields), loss_detail_cols=lds)
            elif op == "long_frame_roundtrip":
                import os

                lds = sorted({k for m in t.metadata for k in m.loss_details})
                pth = f"/verif/build/C01/op_{os.getpid()}.csv"
                if r.random() < 0.5:
                    t.to_wide_csv(pth)
                    t2 = type(t).from_wide_csv(pth, field_cols=list(t.fields), loss_detail_cols=lds)
                else:
                    t.to_long_csv(pth)
                    t2 = type(t).from_long_csv(pth)
                os.unlink(pth)
            elif op == "unlimit_one_slice":
                # one slice becomes unlimited (per_occurrence_limit None) next to limited ones
                ms = t.metadata
                if not ms:
                    raise ValueError("not applicable")
                import dataclasses as _dc

                m0 = r.choice(ms)
                lim = r.choice([None, None, 1000000, 250000.0])
                t2 = t.replace(metadata=lambda c: _dc.replace(c.metadata, per_occurrence_limit=lim) if c.metadata == m0 else
                               (_dc.replace(c.metadata, per_occurrence_limit=500000) if r.random() < 0.0 else c.metadata))
            elif op == "replace_prev":
                # Cell.replace must re-validate whatever it replaces: an invalid prev_evaluation_date is refused
                if not t.is_incremental:
                    raise ValueError("not applicable")
                how = r.choice(["equal-to-evaluation", "after-evaluation", "one-day-earlier"])
                delta = {"equal-to-evaluation": 0, "after-evaluation": 5, "one-day-earlier": None}[how]
                if delta is None:
                    t2 = t.replace(prev_evaluation_date=lambda c: c.prev_evaluation_date - datetime.timedelta(days=1))
                else:
                    t2 = t.replace(prev_evaluation_date=lambda c: c.evaluation_date + datetime.timedelta(days=delta))
            elif op == "replace_dates":
                how = r.choice(["end-before-start", "evaluation-before-start", "later-evaluation"])
                if how == "end-before-start":
                    t2 = t.replace(period_end=lambda c: c.period_start - datetime.timedelta(days=1))
                elif how == "evaluation-before-start":
                    t2 = t.replace(evaluation_date=lambda c: c.period_start - datetime.timedelta(days=1))
                else:
                    t2 = t.replace(evaluation_date=lambda c: c.evaluation_date + datetime.timedelta(days=3650))
            elif op == "shift_origin":
                from bermuda.utils import shift_origin as so

                t2 = so.shift_origin(t, t.right_edge)
        except Exception as ex:  # noqa: BLE001  -- refusals are fine, a chain simply continues
            trace.append(f"{op}!{type(ex).__name__}")
            ctx.hist("op:refused")
            continue
        if not hasattr(t2, "cells"):
            return trace + [op], (op, [f"operation returned {type(t2).__name__}, not a Triangle"], t)
        # the triangle the operation was applied to is still the same canonical triangle
        if strict_seq(t) != before:
            return trace + [op], (op, ["the operand triangle is no longer the triangle it was (cells changed in place): "
                                        + "; ".join(canonical_violations(t) or ["still sorted, but contents differ"])], t)
        trace.append(op)
        ctx.hist(f"op:{op}")
        probs = canonical_violations(t2)
        # duplicates (equal metadata and coordinates, e.g. after derive_metadata collapsed two slices) keep
        # their input order by stability: outside the property (cells are then not distinct)
        keys = [(ct.canon_meta(c.metadata), c.coordinates) for c in t2.cells]
        if not probs and len(set(keys)) == len(keys):
            rebuilt = type(t2)(list(t2.cells)[::-1]) if type(t2).__name__ == "Triangle" else None
            if rebuilt is not None and strict_seq(rebuilt) != strict_seq(t2):
                probs.append("result is not a fixed point of the constructor")
        if probs:
            return trace, (op, probs, t2, t)
        t = t2
    return trace, None


def run(ctx):
    from bermuda import Triangle

    ctx.rule = ("cell multisets from the structured generator (1-4 slices differing in one metadata attribute incl. "
                "only loss_details, or several; regular/ragged/holey/irregular/daily layouts; three cell classes) x "
                "random permutations x {list, tuple, generator, iterator}; Metadata order axioms over a universe of "
                "single-attribute edits; random chains of public operations. Non-trivial = distinct multiset with >= 2 cells.")
    ctx.assumptions += [
        "translate/t_order.py reads the comparison tuples / constructor shape from the AST faithfully",
        "Python tuple comparison, sorted(), dict == and str ordering as stated in Model/Order.v (validated by correspondence)",
        "operation chains: every public operation funnels through Triangle(...) (T-funnel screen + op-sequence oracle)",
    ]
    ok, feats = translate_and_prove(ctx, "C01_gen.v", "Props/C01.v")
    ctx.prove_static("Props/C01b.v", timeout=300)      # order / equality ignore the key order in which details were written
    ctx.audit_tree(["Proofs/MetaKeyOrder.v", "Props/C01b.v"])
    g = Gen(random.Random(ctx.seed * 1000003 + 1))
    n_sets = 240 if ctx.quick else 2400
    n_perm = 5 if ctx.quick else 12
    cases = []  # (input cells in base order, impl output)
    fails = []
    for i in range(n_sets):
        cells, info = g.cells(n_periods=g.r.randint(1, 4), n_lags=g.r.randint(1, 4))
        if len(cells) > 24:
            cells = cells[:24]
        ctx.hist("layout:" + info["layout"])
        ctx.hist("slice_diff:" + str(info["slice_diff"]))
        ctx.hist("slices:%d" % info["n_slices"])
        base = None
        for p in range(n_perm):
            perm = cells[:]
            g.r.shuffle(perm)
            kind = ["list", "tuple", "generator", "iterator"][p % 4]
            arg = {"list": list(perm), "tuple": tuple(perm), "generator": (c for c in perm), "iterator": iter(perm)}[kind]
            try:
                t = Triangle(arg)
            except Exception as ex:  # noqa: BLE001
                fails.append(("constructor-raised", repr(ex), perm, None, kind))
                break
            seq = strict_seq(t)
            ctx.count(evaluations=1, traces=1)
            if base is None:
                base = (seq, perm, kind, t)
                probs = canonical_violations(t)
                if probs:
                    fails.append(("not-canonical", probs, perm, None, kind))
            elif seq != base[0]:
                fails.append(("order-depends-on-input", f"{base[2]} vs {kind}", base[1], perm, kind))
                break
        if base is not None:
            if len(cells) >= 2:
                ctx.nontriv(base[0])
            try:
                cases.append((ct.ccells(cells), ct.ccells(base[3].cells), info))
            except ct.NotRepresentable:
                pass
        if len(fails) > 5:
            break
    # directed (round 9): incremental cells of ONE slice at the same period and evaluation date that differ only in
    # prev_evaluation_date (accepted with a DuplicateCellWarning), every cell carrying its OWN Metadata object, equal to the
    # others (as derive_metadata / from_* hand them out): the tie-break must not depend on object identity or input order
    from bermuda import IncrementalCell as _IncR, Metadata as _MetaR
    import itertools as _it

    for variant in range(3):
        mk_meta = [lambda: _MetaR(country="DE", details={"lob": "motor", "seg": 1}),
                   lambda: _MetaR(loss_details={"peril": "wind"}, per_occurrence_limit=1000),
                   lambda: _MetaR()][variant]
        ps, pe, ev = datetime.date(2021, 1, 1), datetime.date(2021, 3, 31), datetime.date(2021, 6, 30)
        prevs = [datetime.date(2019, 12, 31), datetime.date(2020, 12, 31), datetime.date(2021, 3, 31)]
        rest = [_IncR(period_start=ps, period_end=pe, evaluation_date=ev, prev_evaluation_date=p, values={"paid_loss": i}, metadata=mk_meta())
                for i, p in enumerate(prevs)]
        rest.append(_IncR(period_start=ps, period_end=pe, evaluation_date=datetime.date(2021, 9, 30), prev_evaluation_date=ev,
                          values={"paid_loss": 9}, metadata=mk_meta()))
        ctx.hist("layout:directed-restated-incremental-distinct-metadata-objects")
        base = None
        with warnings.catch_warnings():
            warnings.simplefilter("ignore")
            for perm in _it.permutations(rest):
                perm = list(perm)
                try:
                    t = Triangle(perm)
                except Exception as ex:  # noqa: BLE001
                    fails.append(("constructor-raised", repr(ex), perm, None, "list"))
                    break
                ctx.count(evaluations=1, traces=1)
                seq = strict_seq(t)
                if base is None:
                    base = (seq, perm)
                    got = [c.prev_evaluation_date for c in t.cells]
                    if got != sorted(got):
                        fails.append(("not-canonical", [f"prev_evaluation_date not ascending inside (period, evaluation date): {got}"], perm, None, "list"))
                        break
                elif seq != base[0]:
                    fails.append(("order-depends-on-input", "list vs list", base[1], perm, "list"))
                    break
    # directed: periods that share a start (or an end) inside ONE slice, with evaluation dates that conflict with
    # the period order -- the key (start, end, evaluation) and any other arrangement of it disagree here only
    from bermuda import Cell as _Cell, CumulativeCell as _Cum, IncrementalCell as _Inc

    for i in range(40 if ctx.quick else 400):
        ms, _sd = g.metas(g.r.choice([1, 1, 2]), None)
        y = g.r.randint(1995, 2030)
        ps = datetime.date(y, g.r.choice([1, 4, 7]), 1)
        ends = sorted({ps + datetime.timedelta(days=d) for d in g.r.sample([14, 30, 59, 89, 180, 364, 729], g.r.randint(2, 4))})
        kind = g.r.choice(["Cell", "CumulativeCell", "IncrementalCell"])
        cells = []
        for m in ms:
            evs = [ends[-1] + datetime.timedelta(days=30 * k) for k in range(len(ends), 0, -1)]   # shorter period, LATER evaluation
            for pe, ev in zip(ends, evs):
                kw = dict(period_start=ps, period_end=pe, evaluation_date=ev, values={"paid_loss": g.num("int")}, metadata=m)
                if kind == "IncrementalCell":
                    cells.append(_Inc(prev_evaluation_date=ps - datetime.timedelta(days=g.r.randint(1, 3)), **kw))
                else:
                    cells.append((_Cell if kind == "Cell" else _Cum)(**kw))
                if g.r.random() < 0.3:     # a second period with another start and the same end
                    kw2 = dict(kw, period_start=ps - datetime.timedelta(days=31))
                    cells.append(_Inc(prev_evaluation_date=kw2["period_start"] - datetime.timedelta(days=1), **kw2)
                                 if kind == "IncrementalCell" else (_Cell if kind == "Cell" else _Cum)(**kw2))
        ctx.hist("layout:directed-shared-start")
        base = None
        for p in range(3):
            perm = cells[:]
            g.r.shuffle(perm)
            try:
                t = Triangle(perm)
            except Exception as ex:  # noqa: BLE001
                fails.append(("constructor-raised", repr(ex), perm, None, "list"))
                break
            ctx.count(evaluations=1, traces=1)
            seq = strict_seq(t)
            if base is None:
                base = (seq, perm)
                probs = canonical_violations(t)
                if probs:
                    fails.append(("not-canonical", probs, perm, None, "list"))
                    break
            elif seq != base[0]:
                fails.append(("order-depends-on-input", "list vs list", base[1], perm, "list"))
                break
        if base is not None:
            ctx.nontriv(base[0])
            try:
                cases.append((ct.ccells(cells), ct.ccells(Triangle(cells).cells), {"layout": "directed-shared-start"}))
            except (ct.NotRepresentable, Exception):  # noqa: BLE001
                pass
    # directed families (notes/HARDENING.md): A respelled equal metadata inside a slice, B distinct metadata that
    # flatten alike as sibling slices, D datetime-like coordinates with a time of day, J semi-monthly periods
    import pandas as _pd
    from bermuda import Metadata as _Meta

    class _DT(datetime.datetime):
        pass

    def _respell(m):
        fl = lambda v: float(v) if isinstance(v, int) and not isinstance(v, bool) else v  # noqa: E731
        return _Meta(risk_basis=m.risk_basis, country=m.country, currency=m.currency, reinsurance_basis=m.reinsurance_basis,
                     loss_definition=m.loss_definition, per_occurrence_limit=fl(m.per_occurrence_limit),
                     details={k: fl(v) for k, v in reversed(list(m.details.items()))},
                     loss_details={k: fl(v) for k, v in reversed(list(m.loss_details.items()))})

    def _rebuild(c, **over):
        kw = dict(period_start=c.period_start, period_end=c.period_end, evaluation_date=c.evaluation_date,
                  values=dict(c.values), metadata=c.metadata)
        if type(c).__name__ == "IncrementalCell":
            kw["prev_evaluation_date"] = c.prev_evaluation_date
        kw.update(over)
        return type(c)(**kw)

    def _as_kind(d, kind, h, mi):
        if kind == "datetime":
            return datetime.datetime(d.year, d.month, d.day, h, mi)
        if kind == "Timestamp":
            return _pd.Timestamp(year=d.year, month=d.month, day=d.day, hour=h, minute=mi)
        return _DT(d.year, d.month, d.day, h, mi)

    B_PAIRS = [(dict(details={"k": "v"}), dict(loss_details={"k": "v"})),
               (dict(details={"currency": "USD"}), dict(currency="USD")),
               (dict(loss_details={"peril": "fire"}), dict(loss_details={"peril": "wind"})),
               (dict(country=None), dict(country="")), (dict(details={"k": None}), dict()),
               (dict(details={"layer": -1}), dict(details={"layer": -2})), (dict(loss_details={"layer": -1.0}), dict(loss_details={"layer": -2.0})),
               (dict(per_occurrence_limit=-1), dict(per_occurrence_limit=-2)), (dict(details={"n": 0}), dict(details={"n": 2**61 - 1})),
               (dict(per_occurrence_limit=2**53), dict(per_occurrence_limit=2**53 + 1)), (dict(details={"n": 10**17 + 3}), dict(details={"n": 10**17 + 5})),
               (dict(details={"a": 1, "b": 2}, loss_details={"a": 1}), dict(details={"a": 1}, loss_details={"a": 1, "b": 2}))]
    for i in range(60 if ctx.quick else 600):
        fam = ["A-respelled", "B-flatten-alike", "D-datetime-coords", "J-semi-monthly", "C-far-dates"][i % 5]
        ctx.hist("layout:directed-" + fam)
        ref = None
        if fam == "A-respelled":
            cells, info = g.cells(n_periods=g.r.randint(1, 3), n_lags=g.r.randint(1, 3), values="int")
            cells = [(_rebuild(c, metadata=_respell(c.metadata)) if g.r.random() < 0.5 else c) for c in cells[:20]]
        elif fam == "B-flatten-alike":
            ka, kb = g.r.choice(B_PAIRS)
            base_cells, info = g.cells(n_slices=1, n_periods=g.r.randint(1, 2), n_lags=g.r.randint(1, 3), values="int")
            cells = [_rebuild(c, metadata=_Meta(**ka)) for c in base_cells[:8]] + [_rebuild(c, metadata=_Meta(**kb)) for c in base_cells[:8]]
        elif fam == "D-datetime-coords":
            base_cells, info = g.cells(n_periods=g.r.randint(1, 3), n_lags=g.r.randint(1, 3), values="int", basis="cum")
            base_cells = base_cells[:16]
            kind = g.r.choice(["datetime", "Timestamp", "subclass"])
            cells = []
            for c in base_cells:
                if g.r.random() < 0.6:
                    h, mi = g.r.choice([(0, 0), (17, 30), (23, 59)])
                    cells.append(_rebuild(c, period_start=_as_kind(c.period_start, kind, 0, 0), period_end=_as_kind(c.period_end, kind, h, mi),
                                          evaluation_date=_as_kind(c.evaluation_date, kind, h, mi)))
                else:
                    cells.append(c)
            ref = strict_seq(Triangle(list(base_cells)))
        elif fam == "C-far-dates":
            # dates far outside the range of nanosecond timestamps / 32-bit day counts, next to ordinary ones
            from bermuda import CumulativeCell as _CumF

            ms, _sd = g.metas(g.r.choice([1, 2, 3]), None)
            far = [datetime.date(2262, 4, 12), datetime.date(2300, 12, 31), datetime.date(2999, 12, 31), datetime.date(9999, 12, 30),
                   datetime.date(1677, 9, 20), datetime.date(1, 1, 2), datetime.date(1600, 2, 29)]
            cells = []
            for m in ms:
                ps = datetime.date(g.r.randint(2000, 2030), g.r.choice([1, 7]), 1)
                pe = ps + datetime.timedelta(days=180)
                evs = [pe, pe + datetime.timedelta(days=365)] + [d_ for d_ in g.r.sample(far, 3) if d_ >= ps]
                for ev in evs:
                    cells.append(_CumF(period_start=ps, period_end=pe, evaluation_date=ev, values={"paid_loss": g.num("int")}, metadata=m))
                if g.r.random() < 0.5:      # an open-ended period / a very old one
                    cells.append(_CumF(period_start=ps, period_end=datetime.date.max, evaluation_date=g.r.choice([pe, datetime.date(9999, 12, 30)]),
                                       values={"paid_loss": 1}, metadata=m))
                if g.r.random() < 0.5:
                    old_ps = g.r.choice([d_ for d_ in far if d_.year < 1700])
                    cells.append(_CumF(period_start=old_ps, period_end=old_ps + datetime.timedelta(days=30), evaluation_date=pe,
                                       values={"paid_loss": 2}, metadata=m))
        else:
            ms, _sd = g.metas(g.r.choice([1, 2]), None)
            y, mo = g.r.randint(1995, 2030), g.r.randint(1, 12)
            halves = []
            for k in range(g.r.randint(1, 3)):
                yy, mm = y + (mo - 1 + k) // 12, (mo - 1 + k) % 12 + 1
                last = (datetime.date(yy + (mm == 12), mm % 12 + 1, 1) - datetime.timedelta(days=1)).day
                halves += [(datetime.date(yy, mm, 1), datetime.date(yy, mm, 15)), (datetime.date(yy, mm, 16), datetime.date(yy, mm, last))]
            from bermuda import CumulativeCell as _Cum2

            cells = [_Cum2(period_start=a, period_end=b, evaluation_date=b + datetime.timedelta(days=30 * j), values={"paid_loss": g.num("int")}, metadata=m)
                     for m in ms for (a, b) in halves for j in range(g.r.randint(1, 2))]
        if not cells:
            continue
        base = None
        for p in range(3):
            perm = cells[:]
            g.r.shuffle(perm)
            try:
                t = Triangle(perm)
            except Exception as ex:  # noqa: BLE001
                fails.append(("constructor-raised", repr(ex), perm, None, "list"))
                break
            ctx.count(evaluations=1, traces=1)
            seq = strict_seq(t)
            if base is None:
                base = (seq, perm)
                probs = canonical_violations(t)
                if not probs and any(type(x) is not datetime.date for c in t.cells for x in (c.period_start, c.period_end, c.evaluation_date)):
                    probs = ["a cell holds a coordinate that is not a plain datetime.date"]
                if not probs and ref is not None and seq != ref:
                    probs = ["cells built from datetime-like coordinates are not the cells (in the order) built from the dates"]
                if not probs and fam == "B-flatten-alike" and len(t.slices) != 2:
                    probs = [f"two distinct metadata give {len(t.slices)} slice(s)"]
                if not probs and fam == "A-respelled" and len(t.slices) != len({ct.canon_meta(_respell(_respell(c.metadata))) for c in t.cells}):
                    probs = ["equal metadata spelled differently are split into several slices"]
                if probs:
                    fails.append(("not-canonical", probs, list(base_cells) if fam == "D-datetime-coords" else perm, None,
                                  "list+" + kind if fam == "D-datetime-coords" else "list"))
                    break
            elif seq != base[0]:
                fails.append(("order-depends-on-input", "list vs list", base[1], perm, "list"))
                break
        if base is not None and len(cells) >= 2:
            ctx.nontriv(base[0])
    # large multisets (hundreds to thousands of cells, many slices, many distinct detail values): size-triggered fast
    # paths, chunked / vectorised sorts and bounded caches only engage here; judged by the Python-side oracles only
    for i in range(6 if ctx.quick else 30):
        ns = g.r.choice([2, 9, 17, 40])
        cells, info = g.cells(n_slices=min(ns, 4), n_periods=g.r.randint(8, 14), n_lags=g.r.randint(8, 14), values="int",
                              layout=g.r.choice(["regular", "ragged"]))
        if ns > 4:      # many more slices: re-tag copies of the cells with distinct details
            from bermuda import Metadata as _M2

            base_cells, cells = cells, []
            for k in range(ns):
                for c in base_cells[: max(20, [1200, 2300, 3200][i % 3] // ns)]:
                    m = c.metadata
                    cells.append(_rebuild(c, metadata=_M2(risk_basis=m.risk_basis, country=m.country, currency=m.currency,
                                                           reinsurance_basis=m.reinsurance_basis, loss_definition=m.loss_definition,
                                                           per_occurrence_limit=m.per_occurrence_limit,
                                                           details={**m.details, "tag": k if k % 3 else float(k), "name": "s%03d" % (ns - k)},
                                                           loss_details=dict(m.loss_details))))
        if i % 3 == 2:
            # incremental: monthly increments plus catch-up increments that END at the same evaluation date
            # (same period and evaluation date, another prev_evaluation_date) -- the last component of the order
            from bermuda import IncrementalCell as _IncL

            cells = []
            for m in g.metas(2, "loss_details")[0]:
                for yy in range(2000, 2000 + g.r.choice([9, 26])):
                    ps, pe = datetime.date(yy, 1, 1), datetime.date(yy, 12, 31)
                    evs = [pe + datetime.timedelta(days=30 * k) for k in range(1, 24)]
                    prev = ps - datetime.timedelta(days=1)
                    for k, ev in enumerate(evs):
                        cells.append(_IncL(period_start=ps, period_end=pe, prev_evaluation_date=prev, evaluation_date=ev,
                                           values={"paid_loss": k}, metadata=m))
                        if k >= 2:
                            cells.append(_IncL(period_start=ps, period_end=pe, prev_evaluation_date=evs[k - 2], evaluation_date=ev,
                                               values={"paid_loss": -k}, metadata=m))
                        prev = ev
        ctx.hist("layout:large(%d+ cells)" % (100 * (len(cells) // 100)))
        base = None
        for p in range(3):
            perm = cells[:]
            g.r.shuffle(perm)
            try:
                t = Triangle(perm if p else iter(perm))
            except Exception as ex:  # noqa: BLE001
                fails.append(("constructor-raised", repr(ex), perm[:40], None, "list"))
                break
            ctx.count(evaluations=1, traces=1)
            seq = strict_seq(t)
            if base is None:
                base = (seq, perm)
                probs = canonical_violations(t)
                if not probs and len(t) != len(cells):
                    probs = [f"{len(cells)} cells supplied, {len(t)} kept"]
                if probs:
                    fails.append(("not-canonical", probs, perm, None, "list"))
                    break
            elif seq != base[0]:
                fails.append(("order-depends-on-input", "list vs list (large multiset)", base[1], perm, "list"))
                break
        if base is not None:
            ctx.nontriv(("large", len(cells), base[0][:3]))
    # multisets with exact duplicates: every supplied cell is kept (a Triangle is built from a multiset)
    for i in range(40 if ctx.quick else 400):
        cells, info = g.cells(n_periods=g.r.randint(1, 3), n_lags=g.r.randint(1, 3), values=g.r.choice(["int", "float"]))
        if not cells:
            continue
        dup = cells + [g.r.choice(cells) for _ in range(g.r.randint(1, 3))]
        g.r.shuffle(dup)
        try:
            t = Triangle(dup)
        except Exception as ex:  # noqa: BLE001
            fails.append(("constructor-raised", repr(ex), dup, None, "list"))
            continue
        ctx.count(evaluations=1, traces=1)
        ctx.hist("multiset:with-exact-duplicates")
        if len(t) != len(dup) or sorted(map(repr, strict_seq(t))) != sorted(repr(ct.canon_cell(c, ordered=True)) for c in dup):
            fails.append(("cells-lost-or-invented", f"{len(dup)} cells supplied (with exact duplicates), {len(t)} kept", dup, None, "list"))
    for s in cases[:2]:
        ctx.sample({"info": s[2], "cells_coq": s[0][:600]})
    # metadata order axioms on the implementation
    universe = meta_universe(g)
    bad = meta_order_oracle(ctx, universe)
    # operation chains
    seq_fail = None
    n_seq = 150 if ctx.quick else 1500
    for i in range(n_seq):
        t, info = g.triangle(n_periods=g.r.randint(1, 4), n_lags=g.r.randint(1, 4), values=g.r.choice(["int", "float"]))
        if len(t) and i % 6 == 5:
            # a restated cell: the same coordinates twice with different values (accepted with a warning); whatever
            # an operation does with it, the result must hold only cells that satisfy the date rules, in order
            c0 = g.r.choice(list(t.cells))
            t = Triangle(list(t.cells) + [c0.replace(values={k: (v + 1 if isinstance(v, (int, float)) and not isinstance(v, bool) else v)
                                                            for k, v in c0.values.items()})])
            ctx.hist("op:start-with-restated-cell")
        trace, prob = op_sequence(ctx, g, t, g.r.randint(1, 6 if ctx.quick else 12))
        ctx.count(evaluations=len(trace), traces=1)
        if prob:
            seq_fail = (trace, prob, t)
            break
    # long chains (25-40 operations): state that only goes wrong after many steps
    if seq_fail is None:
        for i in range(6 if ctx.quick else 40):
            t, info = g.triangle(n_periods=g.r.randint(2, 4), n_lags=g.r.randint(2, 4), values=g.r.choice(["int", "float"]))
            trace, prob = op_sequence(ctx, g, t, g.r.randint(25, 40))
            ctx.count(evaluations=len(trace), traces=1)
            ctx.hist("op:long-chain")
            if prob:
                seq_fail = (trace, prob, t)
                break
    # directed: every argument-free / fixed-argument operation once on multi-slice triangles whose slices differ in
    # details (operand must stay the triangle it was, result canonical) -- independent of the random chains' luck
    if seq_fail is None:
        fixed_ops = ["summarize", "aggregate", "to_incremental", "to_cumulative", "right_edge", "make_right_triangle",
                     "merge", "coalesce", "period_merge", "add_statics", "blend", "remove_static_details", "json_roundtrip",
                     "binary_roundtrip", "derive_fields", "replace", "split", "slice", "select", "convert_currency"]
        for i in range(12 if ctx.quick else 120):
            t, info = g.triangle(n_slices=g.r.randint(2, 3), slice_diff=g.r.choice(["details", "loss_details", "several"]),
                                 n_periods=g.r.randint(1, 3), n_lags=g.r.randint(1, 3), values=g.r.choice(["int", "float"]),
                                 layout=g.r.choice(["regular", "ragged"]))
            for op in fixed_ops + ["replace_dates", "replace_dates", "to_incremental", "replace_prev", "replace_prev", "replace_prev"]:
                if op == "replace_prev" and not t.is_incremental:
                    try:
                        t = t.to_incremental()
                    except Exception:  # noqa: BLE001
                        break
                trace, prob = op_sequence(ctx, g, t, 1, forced=[op])
                ctx.count(evaluations=1, traces=1)
                if prob:
                    seq_fail = (trace, prob, t)
                    break
            if seq_fail:
                break
            # the same with one restated cell (same coordinates twice, other values) in a cumulative triangle
            t0, info = g.triangle(n_slices=g.r.randint(1, 2), basis="cum", n_periods=g.r.randint(1, 3), n_lags=g.r.randint(2, 3),
                                  values=g.r.choice(["int", "float"]), layout="regular")
            if len(t0):
                c0 = g.r.choice(list(t0.cells))
                tr = Triangle(list(t0.cells) + [c0.replace(values={k: (v + 1 if isinstance(v, (int, float)) and not isinstance(v, bool) else v)
                                                                 for k, v in c0.values.items()})])
                for op in ["to_incremental", "to_cumulative", "summarize", "aggregate", "right_edge", "merge", "coalesce",
                           "json_roundtrip", "binary_roundtrip", "select", "derive_fields"]:
                    trace, prob = op_sequence(ctx, g, tr, 1, forced=[op])
                    ctx.count(evaluations=1, traces=1)
                    ctx.hist("op:directed-on-restated-cell")
                    if prob:
                        seq_fail = (trace, prob, tr)
                        break
            if seq_fail:
                break
    # directed: positional slicing with every kind of step, followed by filter / clip
    if seq_fail is None:
        for i in range(60 if ctx.quick else 600):
            t, info = g.triangle(n_periods=g.r.randint(2, 4), n_lags=g.r.randint(2, 4), values="int")
            if len(t) < 3:
                continue
            n = len(t)
            for sl in (slice(None, None, -1), slice(None, None, -2), slice(n - 1, 0, -1), slice(1, None, 2),
                       slice(n // 2, None, -1), slice(None, n // 2, 3)):
                try:
                    t2 = t[sl]
                    chain = [f"t[{sl.start}:{sl.stop}:{sl.step}]"]
                    probs = canonical_violations(t2)
                    if not probs:
                        t3 = t2.filter(lambda c: True).clip(min_eval=min(t.evaluation_dates))
                        chain.append("filter(all).clip(min_eval=first)")
                        probs = canonical_violations(t3)
                        if not probs and strict_seq(t3) != strict_seq(Triangle(list(t2.cells))):
                            probs = ["slice/filter/clip result differs from Triangle(list(cells))"]
                        t2 = t3
                except Exception as ex:  # noqa: BLE001
                    continue
                ctx.count(evaluations=1, traces=1)
                ctx.hist("op:directed-slice")
                if probs:
                    seq_fail = (chain, ("index_slice", probs, t2), t)
                    break
            if seq_fail:
                break
    # directed: table readers on triangles where ONE slice is unlimited (blank per_occurrence_limit column entries)
    if seq_fail is None:
        import dataclasses as _dc
        import os as _os

        for i in range(24 if ctx.quick else 240):
            t, info = g.triangle(n_slices=g.r.randint(2, 3), slice_diff="per_occurrence_limit", basis="cum",
                                 n_periods=g.r.randint(1, 3), n_lags=g.r.randint(1, 3), values=g.r.choice(["int", "float"]))
            ms = t.metadata
            if len(ms) < 2:
                continue
            m0 = g.r.choice(ms)
            t = t.replace(metadata=lambda c: _dc.replace(c.metadata, per_occurrence_limit=None) if c.metadata == m0 else c.metadata)
            lds = sorted({k for m in t.metadata for k in m.loss_details})
            pth = f"/verif/build/C01/dir_{_os.getpid()}.csv"
            readers = [("wide_frame_roundtrip", lambda: Triangle.from_wide_data_frame(t.to_wide_data_frame(), field_cols=list(t.fields), loss_detail_cols=lds)),
                       ("wide_csv_roundtrip", lambda: (t.to_wide_csv(pth), Triangle.from_wide_csv(pth, field_cols=list(t.fields), loss_detail_cols=lds))[1]),
                       ("long_csv_roundtrip", lambda: (t.to_long_csv(pth), Triangle.from_long_csv(pth))[1])]
            for nm, fn in readers:
                try:
                    t2 = fn()
                except Exception:  # noqa: BLE001  -- refusals / reader limits are C14's business
                    ctx.hist("op:refused")
                    continue
                ctx.count(evaluations=1, traces=1)
                ctx.hist("op:directed-" + nm)
                probs = canonical_violations(t2)
                if not probs and strict_seq(Triangle(list(t2.cells)[::-1])) != strict_seq(t2):
                    probs = ["result is not a fixed point of the constructor"]
                if not probs and len(t2.slices) != len({ct.canon_meta(m) for m in t2.metadata}):
                    probs = ["slices are split"]
                if probs:
                    seq_fail = (["unlimit_one_slice", nm], (nm, probs, t2, t), t)
                    break
            if seq_fail:
                break
    # model vs implementation inside Coq
    mism = []
    if (ctx.build / "GenOrder.vo").exists() or True:
        per = 60
        files = []
        for k in range(0, len(cases), per):
            chunk = cases[k:k + per]
            body = ";\n".join(
                f"(let inp := {c[0]} in let out := {c[1]} in\n"
                f"  result_eqb (list_eqb cell_seqb) (mk_triangle inp) (Ok out) && wf_triangle out)" for c in chunk)
            f = ctx.build / f"cases_{k // per}.v"
            f.write_text(ct.COQ_HEADER + "From Bermuda Require Import Model.Order.\n"
                         "Definition cases : list bool := [\n" + body + "].\nEval vm_compute in failing cases.\n")
            files.append((f, chunk))
        res = ctx.coqc_many([f for f, _ in files], jobs=16, timeout=900)
        for f, chunk in files:
            rc, out = res[f]
            vals = parse_coq_eval(out)
            if rc != 0 or not vals:
                mism.append(("coqc-failed", f.name, out[-500:]))
                continue
            idx = [int(x) for x in vals[-1].strip("[]").replace("%nat", "").split(";") if x.strip()]
            for i in idx:
                mism.append(("model!=impl", chunk[i][2], chunk[i][0][:300]))
        # Metadata `<` and `==`: model vs implementation on all pairs of the universe
        try:
            rep = []
            for m in universe:
                try:
                    rep.append((m, ct.cmeta(m)))
                except ct.NotRepresentable:
                    pass           # e.g. an infinite limit: outside the model's number domain
            terms = [t for _, t in rep]
            uni2 = [m for m, _ in rep]
            n = len(uni2)
            rows = []
            for i in range(n):
                for j in range(n):
                    lt, eq = uni2[i] < uni2[j], uni2[i] == uni2[j]
                    rows.append(f"(meta_pair_ok (nth {i} U default_meta) (nth {j} U default_meta) {str(lt).lower()} {str(eq).lower()})")
            f = ctx.build / "meta_pairs.v"
            f.write_text(ct.COQ_HEADER + "From Bermuda Require Import Model.Order.\n"
                         "Definition U : list meta := [\n" + ";\n".join(terms) + "].\n"
                         "Definition meta_pair_ok (a b : meta) (lt eq : bool) : bool :=\n"
                         "  match meta_lt a b with Some r => Bool.eqb r lt | None => false end && Bool.eqb (meta_pyeq a b) eq.\n"
                         "Definition cases : list bool := [\n" + ";\n".join(rows) + "].\nEval vm_compute in failing cases.\n")
            rc, out = ctx.coqc(f, timeout=600)
            vals = parse_coq_eval(out)
            if rc != 0 or not vals:
                mism.append(("coqc-failed", f.name, out[-500:]))
            else:
                for i in [int(x) for x in vals[-1].strip("[]").replace("%nat", "").split(";") if x.strip()]:
                    mism.append(("meta `<`/`==` model!=impl", repr(uni2[i // n]), repr(uni2[i % n])))
            ctx.count(evaluations=n * n, traces=n * n)
        except ct.NotRepresentable as ex:
            ctx.notes.append(f"metadata universe not representable: {ex}")
        ctx.obligation("correspondence: mk_triangle model = Triangle(...), wf_triangle(impl output), Metadata </== on all universe pairs",
                       not mism, repr(mism[:3]))
    # report
    for kind, what, p1, p2, it in fails[:3]:
        ctx.violation("impl-violation", f"{kind}: {what}",
                      {"kind": kind, "iterable": it, "cells": [ct.cell_to_obj(c) for c in p1],
                       "cells_other_order": [ct.cell_to_obj(c) for c in p2] if p2 else None}, found_input=True)
    for b in bad[:3]:
        ctx.violation("impl-violation", f"Metadata `<` violates {b[0]} on {[repr(universe[i]) for i in b[1:]]}",
                      {"kind": "meta-order", "axiom": b[0], "metadata": [ct.meta_to_obj(universe[i]) for i in b[1:]]},
                      found_input=True)
    if seq_fail:
        trace, (op, probs, t2, *operand), t0 = seq_fail
        data = {"kind": "op-chain", "trace": trace, "op": op, "start": [ct.cell_to_obj(c) for c in t0.cells],
                "result": [ct.cell_to_obj(c) for c in t2.cells][:40]}
        if operand and hasattr(operand[0], "cells"):
            try:
                data["operand"] = [ct.cell_to_obj(c) for c in operand[0].cells]
            except Exception:  # noqa: BLE001
                pass
        ctx.violation("impl-violation", f"operation chain {trace} returned a non-canonical triangle: {probs}",
                      data, found_input=True)
    if mism and not ctx.violations:
        ctx.violation("correspondence", "model and implementation disagree on the constructor's result",
                      {"mismatches": [repr(m) for m in mism[:5]]}, found_input=False)


def replay(ctx, data):
    from bermuda import Triangle

    if data.get("kind") == "cells-lost-or-invented":
        a = [ct.cell_from_obj(o) for o in data["cells"]]
        t1 = Triangle(list(a))
        print(f"{len(a)} cells supplied, {len(t1)} kept")
        return 1 if len(t1) != len(a) else 0
    if data.get("kind") in ("order-depends-on-input", "not-canonical", "constructor-raised"):
        a = [ct.cell_from_obj(o) for o in data["cells"]]
        it = data.get("iterable", "list")
        if "+" in it:
            # cells are rebuilt from datetime-like coordinates with a time of day (family D)
            import pandas as pd

            class DT(datetime.datetime):
                pass

            it, kind = it.split("+")
            conv = {"datetime": lambda d, h: datetime.datetime(d.year, d.month, d.day, h, 30),
                    "Timestamp": lambda d, h: pd.Timestamp(year=d.year, month=d.month, day=d.day, hour=h, minute=30),
                    "subclass": lambda d, h: DT(d.year, d.month, d.day, h, 30)}[kind]
            ref = strict_seq(Triangle(list(a)))
            b = [type(c)(period_start=conv(c.period_start, 0), period_end=conv(c.period_end, 17), evaluation_date=conv(c.evaluation_date, 17),
                         values=dict(c.values), metadata=c.metadata) for c in a]
            t1 = Triangle(b)
            plain = all(type(x) is datetime.date for c in t1.cells for x in (c.period_start, c.period_end, c.evaluation_date))
            same = plain and strict_seq(t1) == ref
            print(f"cells rebuilt from {kind} coordinates: stored as plain dates: {plain}; same triangle as from the dates: {same}")
            return 0 if same else 1
        mk = {"list": list, "tuple": tuple, "generator": lambda x: (c for c in x), "iterator": iter}[it]
        t1 = Triangle(list(a))
        probs = canonical_violations(t1)
        print("canonical-form problems:", probs)
        bad = bool(probs)
        if data.get("cells_other_order"):
            b = [ct.cell_from_obj(o) for o in data["cells_other_order"]]
            t2 = Triangle(mk(b))
            same = strict_seq(t1) == strict_seq(t2)
            print("same sequence from both orders/iterables:", same)
            bad = bad or not same
        return 1 if bad else 0
    if data.get("kind") == "meta-order":
        ms = [ct.meta_from_obj(o) for o in data["metadata"]]
        a, b = ms[0], ms[1]
        print(f"a == b: {a == b}; a < b: {a < b}; b < a: {b < a}")
        if data["axiom"] == "transitive":
            c = ms[2]
            return 1 if (a < b and b < c and not a < c) else 0
        unordered = a != b and not (a < b) and not (b < a)
        return 1 if (unordered or (a < b and b < a) or (a == b and (a < b or b < a)) or a < a) else 0
    if data.get("kind") == "op-chain":
        print("recorded chain:", data["trace"])
        simple = {
            "to_incremental": lambda t: t.to_incremental(), "to_cumulative": lambda t: t.to_cumulative(),
            "right_edge": lambda t: t.right_edge, "summarize": lambda t: t.summarize(),
            "make_right_triangle": lambda t: t.make_right_triangle(), "remove_static_details": lambda t: t.remove_static_details(),
            "json_roundtrip": lambda t: Triangle.from_dict(t.to_dict()),
            "blend": lambda t: t.blend([t], method="linear"), "coalesce": lambda t: t.coalesce([t.right_edge]),
            "wide_frame_roundtrip": lambda t: Triangle.from_wide_data_frame(
                t.to_wide_data_frame(), field_cols=list(t.fields),
                loss_detail_cols=sorted({k for m in t.metadata for k in m.loss_details})),
            "wide_csv_roundtrip": lambda t: (t.to_wide_csv("/verif/build/C01/replay.csv"), Triangle.from_wide_csv(
                "/verif/build/C01/replay.csv", field_cols=list(t.fields),
                loss_detail_cols=sorted({k for m in t.metadata for k in m.loss_details})))[1],
            "long_csv_roundtrip": lambda t: (t.to_long_csv("/verif/build/C01/replay.csv"),
                                             Triangle.from_long_csv("/verif/build/C01/replay.csv"))[1],
        }
        op = data.get("op")
        if op in simple and data.get("operand") is not None:
            import os

            os.makedirs("/verif/build/C01", exist_ok=True)
            t = Triangle([ct.cell_from_obj(o) for o in data["operand"]])
            try:
                t2 = simple[op](t)
            except Exception as ex:  # noqa: BLE001
                print(f"{op} on the recorded operand is refused now: {ex!r}")
                return 0
            probs = canonical_violations(t2)
            if not probs and strict_seq(Triangle(list(t2.cells)[::-1])) != strict_seq(t2) \
                    and len({(ct.canon_meta(c.metadata), c.coordinates) for c in t2.cells}) == len(t2):
                probs = ["result is not a fixed point of the constructor"]
            print(f"{op} on the recorded operand ({len(t)} cells): problems = {probs}")
            return 1 if probs else 0
        print("this step takes random arguments: re-run ./check C01 with the recorded seed to reproduce")
        return 1
    print(data)
    return 1
