"""C19 -- a torn .trib/.tribc file is never read as different data.

proof      coq/Props/C19.v  (C19_prefix_safe: every byte offset of every file;
           C19_compressed_truncation_raises under the gzip-oracle assumption; C19_prefix_refuted = F9)
tie        T-bin + EVERY cut point of every generated file: outcome of Triangle.from_binary on
           file[:n] (exception class / returned cells, strictly canonicalised) must be an error or an
           exact leading segment of the original cells AND must agree with the model's
           parse (firstn n (ser t)); compressed files: every truncation must raise; the assumed gzip
           behaviour (prefix of the plaintext, then an exception) is monitored.
"""
from __future__ import annotations

import gzip
import io
import multiprocessing as mp
import os
import random
import time

from harness import bin_common as B
from harness.common import REPO

F9_CLASS = {"kind": "pool_index_low_byte_0x88"}


# ---------------------------------------------------------------------------- workers (forked)
def _plain_cuts(args):
    data, wt, path = args
    codes, bad = [], []
    for n in range(len(data)):
        r = B.impl_read(data[:n], None, compress=False, explicit=False, path=path)
        codes.append(B.outcome_code(r, wt))
        if r[0] == "ok" and not B.is_prefix_of(r[1], wt, ordered=False):
            bad.append((n, len(r[1])))
    try:
        os.unlink(path)
    except OSError:
        pass
    return codes, bad


def _gz_cuts(args):
    comp, plain, path, monitor = args
    classes = {}
    bad = []
    mon_bad = []
    for n in range(len(comp)):
        r = B.impl_read(comp[:n], None, compress=True, explicit=False, path=path)
        if r[0] == "ok":
            bad.append((n, len(r[1])))
        else:
            classes[r[1]] = classes.get(r[1], 0) + 1
        if monitor:
            # the assumed oracle behaviour: a prefix of the plaintext, then an exception
            got = b""
            raised = False
            try:
                with gzip.GzipFile(fileobj=io.BytesIO(comp[:n]), mode="rb") as g:
                    while True:
                        chunk = g.read(64)
                        if not chunk:
                            break
                        got += chunk
            except Exception:  # noqa: BLE001
                raised = True
            if n == 0:
                ok = (not raised) and got == b""  # an empty file is a valid, empty gzip stream
            else:
                ok = raised and plain.startswith(got)
            if not ok:
                mon_bad.append(n)
    try:
        os.unlink(path)
    except OSError:
        pass
    return classes, bad, mon_bad


# ---------------------------------------------------------------------------- generation
def gen_files(ctx, n_files):
    rng = random.Random(ctx.seed * 7919 + 19)
    scratch = B.Scratch(ctx.build)
    out = []
    forced = [dict(n_slices=1, kind="Cell"), dict(n_slices=2, kind="CumulativeCell"),
              dict(n_slices=2, kind="IncrementalCell"), dict(n_slices=3), dict(n_slices=4), {}] + \
             [dict(n_slices=2, sibling=v) for v in B.SIBLING_VARIANTS] + \
             [dict(n_slices=2, force=("nested",)), dict(n_slices=2, force=("semi", "late")),
              dict(n_slices=3, kind="Cell", force=("farspan",)), dict(n_slices=2, kind="CumulativeCell", force=("farspan",)), dict(n_slices=2, force=("nfc",))]   # slot 5 = calendar file
    cap = 1800 if ctx.quick else 2600
    tries = 0
    while len(out) < n_files and tries < n_files * 40:
        kw = forced[len(out)] if len(out) < len(forced) else {}
        tries += 1
        if len(out) == 5:
            wt = B.gen_calendar_triangle(rng, n=4)
        else:
            wt = B.gen_triangle(rng, max_keys=rng.choice([3, 6, 12, 24]), restate_p=0.15, **kw)
        if not wt:
            continue
        tri = B.mk_triangle(wt)
        w = B.safe_write(tri, scratch)
        if w[0] != "ok":
            ctx.violation("impl-violation", f"to_binary raised {w[1]} on a valid triangle",
                          {"wt": wt, "flavour": "trib", "write_error": w[1]}, found_input=True)
            if len(ctx.violations) > 3:
                break
            continue
        b = w[1]
        big_ok = (not ctx.quick) and len(out) % 40 == 7 and len(b) <= 5000
        # the directed sibling-slice files only need two short slices: keep them small (cut points cost n^2)
        this_cap = 900 if (ctx.quick and "sibling" in kw) else cap
        if len(b) > this_cap and not big_ok:
            continue
        if len(b) < 60:
            continue
        comp = B.impl_write(tri, scratch, compress=True)
        out.append((wt, b, comp))
    scratch.cleanup()
    return out


def run(ctx):
    B.raise_stack_limit()
    t0 = time.time()
    ctx.rule = ("files written by /repo for triangles from bin_common.gen_triangle (1-4 slices, three cell "
                "classes, all value/detail types, non-ASCII strings, <=24 keys, file size <= 1.8 KB quick / "
                "2.6 KB (some 5 KB) thorough); EVERY byte offset n < len(file) of every file, both flavours; "
                "non-trivial = file with >= 2 cells (every file hits error branches); F9 probed with a 137-key file")
    ctx.audit_tree([f for f in B.MY_COQ_FILES if (B.Path("/verif/coq") / f).exists()])
    B.prove_static_local(ctx, "Props/C19.v")
    ok_tbin, tbin_diff = B.tbin_obligations(ctx)

    n_files = 30 if ctx.quick else 400
    files = gen_files(ctx, n_files)
    ctx.log(f"generated {len(files)} files, {sum(len(b) for _, b, _ in files)} plain / "
            f"{sum(len(c) for _, _, c in files)} compressed bytes in {time.time()-t0:.1f}s")
    work = ctx.build / "cuts"
    work.mkdir(exist_ok=True)

    # ---- implementation on every cut point (forked workers; bermuda is already imported)
    B.mk_triangle([])  # make sure the library is loaded before forking
    t1 = time.time()
    with mp.get_context("fork").Pool(min(16, os.cpu_count() or 4)) as pool:
        plain_jobs = [(b, wt, str(work / f"p{i}.trib")) for i, (wt, b, _) in enumerate(files)]
        gz_jobs = [(c, b, str(work / f"z{i}.tribc"), i % 5 == 0) for i, (_, b, c) in enumerate(files)]
        plain_res = pool.map(_plain_cuts, plain_jobs, chunksize=1)
        gz_res = pool.map(_gz_cuts, gz_jobs, chunksize=1)
        f9 = B.canon_triangle(B.mk_triangle(B.gen_f9_triangle(137)))
        sc = B.Scratch(ctx.build)
        f9_bytes = B.impl_write(B.mk_triangle(f9), sc)
        sc.cleanup()
        f9_res = pool.map(_plain_cuts, [(f9_bytes, f9, str(work / "f9.trib"))])[0]
    ctx.log(f"implementation on {sum(len(b) for _, b, _ in files)} + {sum(len(c) for _, _, c in files)} "
            f"cut points: {time.time()-t1:.1f}s")

    n_viol = 0
    for i, ((wt, b, comp), (codes, bad)) in enumerate(zip(files, plain_res)):
        s = B.wt_summary(wt)
        ctx.hist(f"slices={s['slices']}")
        ctx.hist(f"kind={'/'.join(s['kinds'])}")
        ctx.hist("size=" + ("<500" if len(b) < 500 else "<1000" if len(b) < 1000 else "<2000" if len(b) < 2000 else ">=2000"))
        for c in set(codes):
            ctx.hist("outcome:" + ("prefix" if c >= 0 else {-1: "ValueError", -2: "struct.error", -3: "IndexError",
                                                             -4: "TypeError", -5: "UnicodeDecodeError"}.get(c, str(c))),
                     codes.count(c))
        ctx.count(evaluations=len(b), traces=len(b))
        if len(wt) >= 2:
            ctx.nontriv(repr(wt))
        if i < 2:
            ctx.sample({"summary": s, "file_bytes": len(b), "outcomes": {str(c): codes.count(c) for c in sorted(set(codes))}})
        for n, k in bad[:1]:
            n_viol += 1
            if n_viol <= 3:
                ctx.violation("impl-violation",
                              f"reading the first {n} of {len(b)} bytes returned {k} cell(s) that are not a leading "
                              "segment of the original cells",
                              {"wt": wt, "cut": n, "flavour": "trib", "file_hex": b.hex()}, found_input=True,
                              finding_class=F9_CLASS if B.uses_0x88_index(wt) else None)
    for i, ((wt, b, comp), (classes, bad, mon_bad)) in enumerate(zip(files, gz_res)):
        ctx.count(evaluations=len(comp), traces=len(comp))
        for k, v in classes.items():
            ctx.hist("tribc:" + k, v)
        for n, k in bad[:1]:
            n_viol += 1
            if n_viol <= 3:
                ctx.violation("impl-violation",
                              f"reading the first {n} of {len(comp)} bytes of a COMPRESSED file did not raise "
                              f"(returned {k} cells)",
                              {"wt": wt, "cut": n, "flavour": "tribc", "file_hex": comp.hex()}, found_input=True,
                              finding_class=F9_CLASS if B.uses_0x88_index(wt) else None)
        if mon_bad and i < 10:
            ctx.violation("correspondence",
                          "gzip oracle assumption broken: a truncated member did not deliver a prefix of the "
                          "plaintext followed by an exception", {"wt": wt, "cuts": mon_bad[:10], "flavour": "tribc"},
                          found_input=False)

    # ---- path reuse: save A to P, load P, overwrite P with every strict prefix of B's file (and with B),
    #      always loading the SAME path through the public Triangle.from_binary
    rp = random.Random(ctx.seed * 97 + 3)
    sc2 = B.Scratch(ctx.build)
    n_pairs = 6 if ctx.quick else 40
    n_reuse_bad = 0
    for k in range(n_pairs):
        pa, pb = B.gen_reuse_pair(rp)
        for compress in ((False, True) if k % 3 == 0 else (False,)):
            bad = B.path_reuse_oracle(pa, pb, sc2, compress=compress)
            ctx.hist("path_reuse_pair")
            ctx.count(evaluations=200, traces=1)
            if bad is not None:
                n_reuse_bad += 1
                if n_reuse_bad <= 2:
                    ctx.violation("impl-violation", bad[0], {"pair": [pa, pb], **bad[1]}, found_input=True)
    sc2.cleanup()

    # ---- refusal kept / triangles produced by replace, select, derive_fields, then saved and cut
    rd = random.Random(ctx.seed * 53 + 11)
    sc4 = B.Scratch(ctx.build)
    for _ in range(3 if ctx.quick else 12):
        bad = B.unrankable_oracle(rd, sc4)
        ctx.hist("unrankable_metadata_probe")
        if bad is not None:
            ctx.violation("impl-violation", bad[0], bad[1], found_input=True)
            break
    multi = [wt for wt, _, _ in files if len({repr(c["meta"]) for c in wt}) >= 2 and len(wt) >= 3]
    n_der = 0
    for wt in multi[: (6 if ctx.quick else 40)]:
        for op in ("relabel", "restate", "select", "derive"):
            bad = B.derived_oracle(wt, sc4, rd, op)
            ctx.hist("derived:" + op)
            ctx.count(evaluations=len(wt) + 10, traces=1)
            if bad is not None:
                n_der += 1
                if n_der <= 2:
                    ctx.violation("impl-violation", bad[0], bad[1], found_input=True)
    sc4.cleanup()

    # ---- LARGE stream (family Q), Python-side oracles only
    sc3 = B.Scratch(ctx.build)
    B.run_large_stream(ctx, sc3, "c19", early=(files[0][0], files[0][1]) if files else None)
    sc3.cleanup()

    # ---- F9 probe: with a key index of low byte 0x88 a torn (and the whole) file reads as different data
    f9_codes, f9_bad = f9_res
    ctx.count(evaluations=len(f9_bytes))
    ctx.hist("f9_probe")
    if f9_bad:
        n, k = f9_bad[0]
        ctx.violation("impl-violation",
                      f"137-key file: reading the first {n} of {len(f9_bytes)} bytes returned {k} cell(s) with fields missing",
                      {"wt": f9, "cut": n, "flavour": "trib"}, found_input=True, finding_class=F9_CLASS)
    else:
        ctx.notes.append("F9 probe (137 keys): no cut point returns altered data: the known finding no longer reproduces")

    # ---- model on every cut point, inside coqc
    groups, cur, cost = [], [], 0.0
    total_cost = sum(len(b) ** 2 for _, b, _ in files)
    limit = max(total_cost / 15.0, 4e5)
    for i, (wt, b, _) in enumerate(files):
        c = len(b) ** 2
        if cur and cost + c > limit:
            groups.append(cur)
            cur, cost = [], 0.0
        cur.append(i)
        cost += c
    if cur:
        groups.append(cur)
    vfiles, vindex = [], []
    for gi, grp in enumerate(groups):
        lines = [B.COQ_HEADER]
        idx = []
        for i in grp:
            wt, b, _ = files[i]
            codes, _ = plain_res[i]
            lines.append(B.coq_triangle_defs(f"t{i}", wt))
            lines.append(f"Definition b{i} : bytes := {B.coq_zlist(b)}.")
            lines.append(f"Definition e{i} : list Z := [" + ";".join(B.coq_z(c) for c in codes) + "].")
            lines.append(f"Eval vm_compute in (if zlist_eqb (ser_py t{i}) b{i} && wfb t{i} && no_0x88_keyb t{i} && coherentb t{i} "
                         f"then diff_indices 0 (cut_outcomes false t{i} b{i}) e{i} else [-1]).")
            idx.append((i, "plain"))
            if i % 6 == 0:
                lines.append(f"Eval vm_compute in failing 0 (map (fun z => z <? 0) (cut_outcomes true t{i} b{i})).")
                idx.append((i, "raising"))
        p = ctx.build / f"cuts_{gi}.v"
        p.write_text("\n".join(lines) + "\n")
        vfiles.append(p)
        vindex.append(idx)
    t2 = time.time()
    res = B.coqc_many_retry(ctx, vfiles, jobs=16, timeout=2400)
    ctx.log(f"coqc on {len(vfiles)} cut-point files: {time.time()-t2:.1f}s")
    from harness.c05 import B_parse

    all_ok = True
    n_model = 0
    n_corr = 0
    for p, idx in zip(vfiles, vindex):
        rc, out = res[p]
        if rc != 0:
            all_ok = False
            ctx.obligation(f"{p.name} evaluates", False, out)
            continue
        vals = B_parse(out)
        if len(vals) != len(idx):
            all_ok = False
            ctx.obligation(f"{p.name} evaluates", False, "unexpected coqc output\n" + out[-600:])
            continue
        for (i, mode), v in zip(idx, vals):
            wt, b, _ = files[i]
            n_model += len(b)
            if not v:
                continue
            n_corr += 1
            if n_corr > 3:
                continue
            if mode == "plain":
                what = ("model ser/wf disagrees with the implementation's file" if v == [-1] else
                        f"model parse (firstn n (ser t)) disagrees with the implementation at byte offsets {v[:8]}")
                codes, _ = plain_res[i]
                ctx.violation("correspondence", what,
                              {"wt": wt, "offsets": v[:50], "impl_codes_at": {str(n): codes[n] for n in v[:20] if 0 <= n < len(codes)},
                               "flavour": "trib", "file_hex": b.hex()}, found_input=False)
            else:
                ctx.violation("correspondence",
                              f"model: a stream raising at exhaustion is not rejected at offsets {v[:8]}",
                              {"wt": wt, "offsets": v[:50], "flavour": "tribc"}, found_input=False)
    ctx.obligation("cut-point case files evaluate", all_ok)
    ctx.count(evaluations=n_model, traces=n_model)
    if not ok_tbin and not ctx.violations:
        ctx.violation("obligation", "T-bin obligations no longer hold; the cut-point oracle found no failing input",
                      {"tbin_diff": tbin_diff}, found_input=False)
    ctx.extra["tbin_diff"] = tbin_diff
    if not ctx.quick:
        ctx.coqchk("Bermuda.Props.C19")
    ctx.assumptions += [
        ".tribc: zlib/gzip not modelled; assumed: a non-empty truncated gzip file delivers a prefix of the plaintext "
        "and then raises, an empty file reads as the empty plaintext (monitored at every cut point of every 5th "
        "file); the check itself observes that EVERY truncation of every compressed file raises",
        "the final Triangle(cells) leaves a leading segment of a sorted triangle unchanged (observed on every cut point)",
        "writer's metadata test = Python == at wire level (ser_py); coherentb evaluated on every generated file",
    ]
    try:
        for f in work.iterdir():
            f.unlink()
    except OSError:
        pass


def replay(ctx, data):
    if data.get("check") in ("derived", "unrankable"):
        sc = B.Scratch(ctx.build)
        try:
            rr = random.Random(1)
            if data["check"] == "derived":
                bad = B.derived_oracle(data["wt"], sc, rr, data["derive"])
            else:
                bad = None
                for _ in range(6):
                    bad = bad or B.unrankable_oracle(rr, sc)
            print("replay:", "PROPERTY FAILS: " + bad[0] if bad else "holds")
            return 1 if bad else 0
        finally:
            sc.cleanup()
    if "large_params" in data:
        sc = B.Scratch(ctx.build)
        try:
            return B.replay_large(data, sc)
        finally:
            sc.cleanup()
    if "pair" in data:
        sc = B.Scratch(ctx.build)
        try:
            print(f"replaying a path-reuse sequence on {REPO}")
            return B.replay_reuse(data, sc)
        finally:
            sc.cleanup()
    if data.get("write_error"):
        sc = B.Scratch(ctx.build)
        try:
            w = B.safe_write(B.mk_triangle(data["wt"]), sc)
            print("to_binary on the recorded triangle:", "raises " + w[1] + ": PROPERTY FAILS" if w[0] != "ok" else "succeeds")
            return 0 if w[0] == "ok" else 1
        finally:
            sc.cleanup()
    wt = data.get("wt")
    if wt is None or "cut" not in data:
        print("replay: no concrete cut point recorded:", data.get("what"))
        print(data.get("tbin_diff", ""), data.get("offsets", ""))
        return 1
    sc = B.Scratch(ctx.build)
    try:
        comp = data.get("flavour") == "tribc"
        tri = B.mk_triangle(wt)
        b = B.impl_write(tri, sc, compress=comp)
        if "file_hex" in data and bytes.fromhex(data["file_hex"]) != b:
            print("note: the tree under test writes different bytes for this triangle than when the violation was "
                  "recorded; the replay reads a prefix of the file written NOW (input = triangle + cut point)")
        n = min(int(data["cut"]), max(len(b) - 1, 0))
        r = B.impl_read(b[:n], sc, compress=comp)
        print(f"replaying on {REPO}: {B.wt_summary(wt)}; reading the first {n} of {len(b)} bytes "
              f"({'compressed' if comp else 'plain'})")
        if r[0] == "err":
            print("raises", r[1], ": property holds at this cut point")
            return 0
        if comp:
            print(f"PROPERTY FAILS: a truncated compressed file was read ({len(r[1])} cells)")
            return 1
        if B.is_prefix_of(r[1], wt, ordered=False):
            print(f"returns exactly the first {len(r[1])} cells: property holds at this cut point")
            return 0
        print(f"PROPERTY FAILS: returned {len(r[1])} cell(s) that are not a leading segment: ",
              B.first_diff(r[1], wt[:len(r[1])]))
        return 1
    finally:
        sc.cleanup()
