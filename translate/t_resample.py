"""T-resample: describe what bermuda/utils/thin.py and method_moments._sort_x_on_y_rank say, as Coq terms
(build/C17/GenResample.v).

Reads `thin` and `_thin_cell` and emits `Definition thin_d : thin_desc` (coq/Model/ResampleDesc.v):

  thin        body = one if / elif / else chain whose arms are, in source order,
                `if <a> <op> <b>: raise <E>(...)`       -> BrRefuse op a b E
                `elif <a> <op> <b>: return <triangle>`  -> BrIdent op a b
                `else: <draw arm>`                      -> BrDraw
              with a, b in {triangle.num_samples (ONum), the second parameter (OArg)} and one comparison operator;
              (arms after an always-returning `if` may also be written as following statements)
              draw arm = `rng = np.random.default_rng(<seed parameter>)`, `ndxs = rng.choice(pop, size, replace)`
              (positional or a= / size= / replace= keywords; replace absent = True),
              `return Triangle([_thin_cell(cell, ndxs) for cell in triangle])`;
              td_draws counts every `.choice(` call of the function, td_draw_in_loop says whether one sits in a
              loop / comprehension
  _thin_cell  `return cell.replace(values={k: v[ndxs] if <guards> else v for k, v in cell.values.items()})`
              (the dict may be named first); guards = conjunction of isinstance(v, np.ndarray) (GIsArray),
              v.ndim > 0 (GNdimPos), len(v) > n / len(v) >= n+1 (GLenGt n), in source order

Everything else raises Unsupported (fail closed)."""
from __future__ import annotations

import ast
import copy
from pathlib import Path

from translate.t_blend import Unsupported, _raise_class, canon_function, cerr, cstring, text

CMP = {ast.Lt: "CLt", ast.LtE: "CLe", ast.Gt: "CGt", ast.GtE: "CGe", ast.Eq: "CEq", ast.NotEq: "CNe"}


def _operand(e) -> str:
    t = text(e)
    if t == "p0.num_samples":
        return "ONum"
    if t == "p1":
        return "OArg"
    raise Unsupported(f"thin: comparison operand `{t}`")


def _test(e):
    if not (isinstance(e, ast.Compare) and len(e.ops) == 1 and type(e.ops[0]) in CMP):
        raise Unsupported(f"thin: test `{text(e)}` is not a single comparison")
    return CMP[type(e.ops[0])], _operand(e.left), _operand(e.comparators[0])


def _flatten(stmts):
    """if c: A(always leaves) elif d: B else: C  ==  [ (c, A), (d, B), (None, C) ]"""
    arms = []
    stmts = list(stmts)
    while stmts:
        s = stmts[0]
        if isinstance(s, ast.If):
            arms.append((s.test, s.body))
            if s.orelse:
                if len(stmts) > 1:
                    raise Unsupported("thin: statements after an if/else")
                stmts = s.orelse
            else:
                if not isinstance(s.body[-1], (ast.Raise, ast.Return)):
                    raise Unsupported("thin: an `if` without else that does not leave the function")
                stmts = stmts[1:]
        else:
            arms.append((None, stmts))
            break
    return arms


def describe_thin(tree):
    fn = canon_function(tree, "thin")
    if len(fn.args.args) != 3:
        raise Unsupported("thin: expected (triangle, num_samples, seed)")
    arms = _flatten(fn.body)
    branches, draw = [], None
    for tst, body in arms:
        if tst is None:
            draw = body
            branches.append("BrDraw")
            break
        c, a, b = _test(tst)
        if len(body) == 1 and isinstance(body[0], ast.Raise):
            branches.append(f"BrRefuse {c} {a} {b} {cerr(_raise_class(body[0]))}")
        elif len(body) == 1 and isinstance(body[0], ast.Return) and body[0].value is not None and text(body[0].value) == "p0":
            branches.append(f"BrIdent {c} {a} {b}")
        else:
            raise Unsupported(f"thin: arm `{text(body)[:80]}` is neither a raise nor `return triangle`")
    if draw is None:
        raise Unsupported("thin: no final draw arm")
    # every .choice( call of the function
    calls = [n for n in ast.walk(fn) if isinstance(n, ast.Call) and isinstance(n.func, ast.Attribute) and n.func.attr == "choice"]
    in_loop = False
    for n in ast.walk(fn):
        if isinstance(n, (ast.For, ast.ListComp, ast.SetComp, ast.DictComp, ast.GeneratorExp)):
            if any(c in list(ast.walk(n)) for c in calls):
                in_loop = True
    own = [c for c in calls if any(c in list(ast.walk(s)) for s in draw)]
    if len(own) != 1:
        raise Unsupported(f"thin: expected one rng.choice call in the draw arm, found {len(own)}")
    call = own[0]
    kws = {k.arg: k.value for k in call.keywords}
    if None in kws or set(kws) - {"a", "size", "replace"}:
        raise Unsupported(f"thin: rng.choice keywords {sorted(map(str, kws))}")
    pos = list(call.args)
    names = ["a", "size", "replace"]
    vals = {}
    for i, v in enumerate(pos):
        if i >= 3:
            raise Unsupported("thin: rng.choice has more than three positional arguments")
        vals[names[i]] = v
    for k, v in kws.items():
        if k in vals:
            raise Unsupported(f"thin: rng.choice argument {k} given twice")
        vals[k] = v
    if "a" not in vals or "size" not in vals:
        raise Unsupported("thin: rng.choice without population or size")
    pop, size = _operand(vals["a"]), _operand(vals["size"])
    if "replace" in vals:
        r = vals["replace"]
        if not (isinstance(r, ast.Constant) and isinstance(r.value, bool)):
            raise Unsupported(f"thin: replace={text(r)} is not a literal")
        replace = r.value
    else:
        replace = True
    call.args = [ast.Name(id="POP", ctx=ast.Load()), ast.Name(id="SIZE", ctx=ast.Load()), ast.Name(id="REPLACE", ctx=ast.Load())]
    call.keywords = []
    # canonical text of the draw arm with its own numbering of locals
    arm = ast.Module(body=copy.deepcopy(draw), type_ignores=[])
    order = []
    for n in ast.walk(arm):
        pass

    class Seen(ast.NodeVisitor):
        def visit_Name(self, n):
            if n.id.startswith("l") and n.id[1:].isdigit() and n.id not in order:
                order.append(n.id)

        def visit_ListComp(self, n):
            for g in n.generators:
                self.visit(g.iter)
                self.visit(g.target)
                for i in g.ifs:
                    self.visit(i)
            self.visit(n.elt)

    Seen().visit(arm)
    ren = {nm: f"l{i}" for i, nm in enumerate(order)}

    class Ren(ast.NodeTransformer):
        def visit_Name(self, n):
            return ast.Name(id=ren.get(n.id, n.id), ctx=n.ctx)

    arm = Ren().visit(arm)
    return {"branches": branches, "pop": pop, "size": size, "replace": replace, "draws": len(calls), "in_loop": in_loop,
            "shape": text(arm.body)}


def _guard(e, v) -> str:
    t = text(e)
    if t == f"isinstance({v}, np.ndarray)" or t == f"isinstance({v}, numpy.ndarray)":
        return "GIsArray"
    if t == f"{v}.ndim > 0" or t == f"{v}.ndim >= 1":
        return "GNdimPos"
    if isinstance(e, ast.Compare) and len(e.ops) == 1 and text(e.left) == f"len({v})" \
            and isinstance(e.comparators[0], ast.Constant) and type(e.comparators[0].value) is int:
        n = e.comparators[0].value
        if isinstance(e.ops[0], ast.Gt) and n >= 0:
            return f"(GLenGt {n})"
        if isinstance(e.ops[0], ast.GtE) and n >= 1:
            return f"(GLenGt {n - 1})"
    raise Unsupported(f"_thin_cell: guard `{t}`")


def describe_thin_cell(tree):
    fn = canon_function(tree, "_thin_cell")          # the dict, if named, is inlined into the return
    if len(fn.args.args) != 2 or len(fn.body) != 1 or not isinstance(fn.body[0], ast.Return):
        raise Unsupported(f"_thin_cell: body `{text(fn.body)[:100]}` is not a single return")
    r = fn.body[0].value
    if not (isinstance(r, ast.Call) and text(r.func) == "p0.replace" and not r.args and len(r.keywords) == 1
            and r.keywords[0].arg == "values" and isinstance(r.keywords[0].value, ast.DictComp)):
        raise Unsupported(f"_thin_cell: return `{text(r)[:100]}` is not cell.replace(values={{...}})")
    dc = r.keywords[0].value
    if len(dc.generators) != 1:
        raise Unsupported("_thin_cell: comprehension with several generators")
    g = dc.generators[0]
    if not (isinstance(g.target, ast.Tuple) and len(g.target.elts) == 2 and all(isinstance(e, ast.Name) for e in g.target.elts)):
        raise Unsupported("_thin_cell: comprehension target")
    k, v = (e.id for e in g.target.elts)
    all_values = text(g.iter) == "p0.values.items()" and not g.ifs and text(dc.key) == k and not g.is_async
    if text(g.iter) != "p0.values.items()":
        raise Unsupported(f"_thin_cell iterates over `{text(g.iter)}`")
    val = dc.value
    if not (isinstance(val, ast.IfExp) and text(val.body) == f"{v}[p1]" and text(val.orelse) == v):
        raise Unsupported(f"_thin_cell: value `{text(val)}` is not `{v}[ndxs] if <guards> else {v}`")
    tests = val.test.values if isinstance(val.test, ast.BoolOp) and isinstance(val.test.op, ast.And) else [val.test]
    guards = [_guard(t, v) for t in tests]
    val.test = ast.Name(id="GUARDS", ctx=ast.Load())
    if g.ifs:
        g.ifs = []          # recorded in all_values
    if text(dc.key) != k:
        dc.key = ast.Name(id=k, ctx=ast.Load())
    return {"guards": guards, "all_values": all_values, "shape": text(fn.body)}


def describe_rank(tree):
    """_sort_x_on_y_rank(x, y):  s = <A>.argsort(); r = np.empty_like(s); r[s] = np.arange(len(<A>));
    return np.array(sorted(<B>[, reverse=<literal>]))[r]   ->  rank_arg = index of A, sorted_arg = index of B"""
    fn = canon_function(tree, "_sort_x_on_y_rank")
    if len(fn.args.args) != 2 or len(fn.body) != 4:
        raise Unsupported(f"_sort_x_on_y_rank: body `{text(fn.body)[:120]}`")
    s1, s2, s3, s4 = fn.body
    params = {"p0": 0, "p1": 1}
    ok1 = (isinstance(s1, ast.Assign) and isinstance(s1.value, ast.Call) and isinstance(s1.value.func, ast.Attribute)
           and s1.value.func.attr == "argsort" and not s1.value.args and not s1.value.keywords
           and text(s1.value.func.value) in params)
    if not ok1:
        raise Unsupported(f"_sort_x_on_y_rank: `{text(s1)}` is not <param>.argsort()")
    rank = text(s1.value.func.value)
    s1.value.func.value = ast.Name(id="RANK_ARG", ctx=ast.Load())
    if text(s3) != f"l1[l0] = np.arange(len({rank}))":
        raise Unsupported(f"_sort_x_on_y_rank: `{text(s3)}` is not the inverse permutation of the argsort of {rank}")
    s3.value.args[0].args[0] = ast.Name(id="RANK_ARG", ctx=ast.Load())
    r = s4.value if isinstance(s4, ast.Return) else None
    ok4 = (isinstance(r, ast.Subscript) and isinstance(r.value, ast.Call) and text(r.value.func) in ("np.array", "np.asarray")
           and len(r.value.args) == 1 and not r.value.keywords and isinstance(r.value.args[0], ast.Call)
           and text(r.value.args[0].func) == "sorted" and len(r.value.args[0].args) == 1
           and text(r.value.args[0].args[0]) in params)
    if not ok4:
        raise Unsupported(f"_sort_x_on_y_rank: `{text(s4)}` is not np.array(sorted(<param>))[ranks]")
    sc = r.value.args[0]
    srt = text(sc.args[0])
    reverse = False
    for k in sc.keywords:
        if k.arg == "reverse" and isinstance(k.value, ast.Constant) and isinstance(k.value.value, bool):
            reverse = k.value.value
        else:
            raise Unsupported(f"_sort_x_on_y_rank: sorted(..., {k.arg}=...)")
    sc.keywords = []
    sc.args[0] = ast.Name(id="SORTED_ARG", ctx=ast.Load())
    return {"sorted": params[srt], "rank": params[rank], "reverse": reverse, "shape": text(fn.body)}


def describe(repo: Path) -> dict:
    tree = ast.parse((Path(repo) / "bermuda" / "utils" / "thin.py").read_text())
    mm = ast.parse((Path(repo) / "bermuda" / "utils" / "method_moments.py").read_text())
    return {"thin": describe_thin(tree), "cell": describe_thin_cell(tree), "rank": describe_rank(mm)}


def emit(dsc) -> str:
    t, c = dsc["thin"], dsc["cell"]
    b = lambda x: "true" if x else "false"  # noqa: E731
    L = ["(* generated by translate/t_resample.py from bermuda/utils/thin.py -- do not edit *)",
         "From Coq Require Import ZArith List String.",
         "From Bermuda Require Import Model.Base Model.Resample Model.ResampleDesc.",
         "Import ListNotations.",
         "Definition thin_d : thin_desc := mkThinDesc",
         "  [" + "; ".join(t["branches"]) + "]",
         f"  {t['pop']} {t['size']} {b(t['replace'])} {t['draws']} {b(t['in_loop'])}",
         "  [" + "; ".join(c["guards"]) + "]",
         f"  {b(c['all_values'])}",
         f"  [({cstring('thin.draw')}, {cstring(t['shape'])});",
         f"   ({cstring('_thin_cell')}, {cstring(c['shape'])})].",
         "(* bermuda/utils/method_moments.py: _sort_x_on_y_rank *)",
         f"Definition rank_d : rank_desc := mkRankDesc {dsc['rank']['sorted']} {dsc['rank']['rank']} "
         f"{b(dsc['rank']['reverse'])} {cstring(dsc['rank']['shape'])}."]
    return "\n".join(L) + "\n"


def translate(repo: Path) -> str:
    return emit(describe(repo))


if __name__ == "__main__":
    import sys

    print(translate(Path(sys.argv[1] if len(sys.argv) > 1 else "/repo")))
