"""T-plot: fail-closed Python-ast translator for bermuda/plot.py (the part behind build_plot_data).

Emits GenPlot.v with  Definition desc : Plot.pdesc := {| ... |}  holding

  D_fields        FieldSummary dataclass fields, in order
  D_probs         the literal list returned by FieldSummary.quantiles() (exact decimals)
  D_args          positional arguments of cls(...) in FieldSummary.from_metric
                  (name | metric | np.mean/median/std/min/max(metric) | *np.quantile(metric, cls.quantiles()))
  D_metrics       COMMON_METRIC_DICT: name, lambda arity, body as an expression tree over
                  cell[...] / prev[...] / next[...], integer literals and + - * /
  D_rows          the Triangle attribute build_plot_data takes its rows from
  D_core          _core_plot_data: record key -> cell attribute (or "dev_lag()")
  D_records_over  what the record list iterates over ("triangle" = the cells in order)

and checks (normalised text, insensitive to parameter / local renaming, comments, docstrings) that
_safe_apply_metric, _calculate_field_summary, FieldSummary.__post_init__ and FieldSummary.dict have the shape the model
assumes, that the rows are zipped as (cell, prev, next) = zip(row, [None, *row[:-1]], [*row[1:], None])
and that every record is {**_core_plot_data(cell), ..., **field_summaries[cell]}.
Anything else raises Unsupported.
"""
from __future__ import annotations

import ast
import copy
from fractions import Fraction
from pathlib import Path


class Unsupported(Exception):
    pass


def fail(where, node=None, why=""):
    txt = ""
    if node is not None:
        try:
            txt = ast.unparse(node)[:200]
        except Exception:  # noqa: BLE001
            txt = repr(node)
    raise Unsupported(f"{where}: unexpected shape {why} :: {txt}")


def strip_doc(body):
    b = list(body)
    if b and isinstance(b[0], ast.Expr) and isinstance(b[0].value, ast.Constant) and isinstance(b[0].value.value, str):
        b = b[1:]
    return b


def find(scope, kind, name, where):
    xs = [n for n in scope if isinstance(n, kind) and n.name == name]
    if len(xs) != 1:
        fail(where, None, f"{name} not found exactly once")
    return xs[0]


class _Rename(ast.NodeTransformer):
    def __init__(self, m):
        self.m = m

    def visit_Name(self, n):
        if n.id in self.m:
            return ast.copy_location(ast.Name(id=self.m[n.id], ctx=n.ctx), n)
        return n

    def visit_arg(self, n):
        if n.arg in self.m:
            n = copy.copy(n)
            n.arg = self.m[n.arg]
        n.annotation = None
        return n


def normalised(fn) -> str:
    """function text with parameters p0.., assigned locals l0.., no docstring / annotations"""
    fn = copy.deepcopy(fn)
    m = {}
    for i, a in enumerate(fn.args.args):
        m[a.arg] = f"p{i}"
    k = 0
    for n in ast.walk(fn):
        if isinstance(n, ast.Name) and isinstance(n.ctx, ast.Store) and n.id not in m:
            m[n.id] = f"l{k}"
            k += 1
    fn.body = strip_doc(fn.body)
    fn.returns = None
    fn.decorator_list = []
    fn = _Rename(m).visit(fn)
    ast.fix_missing_locations(fn)
    return "\n".join(ast.unparse(s) for s in fn.body)


EXPECT = {
    "_safe_apply_metric": "try:\n    return p3(p0, p1, p2)\nexcept Exception:\n    try:\n        return p3(p0)\n    except:\n        return None",
    "_calculate_field_summary": (
        "l0 = _safe_apply_metric(p0, p1, p2, p3)\n"
        "if l0 is None or np.isscalar(l0) or len(l0) == 1:\n    return FieldSummary(p4, l0)\n"
        "return FieldSummary.from_metric(p4, l0, keep_samples=p5)"),
    "__post_init__": (
        "if p0.metric is not None:\n    if p0.keep_samples:\n        p0.metric = {l0: l1 for l0, l1 in enumerate(p0.metric)}\n"
        "    else:\n        p0.metric = np.mean(p0.metric)\n    if p0.mean is None:\n        p0.mean = np.mean(p0.metric)\n"
        "if p0.sd:\n    p0.is_forecast = True"),
}

EXPECT["dict"] = (
    "if p0.mean is None:\n    return {}\n"
    "return {**p0.__dict__, 'tooltip': p0.tooltip(p2), 'snake_case_field': p0.snake_case_field, 'unit': p2, "
    "'is_forecast': p0.is_forecast}")

STATS = {"mean": "SMean", "median": "SMedian", "std": "SStd", "min": "SMin", "max": "SMax"}


def is_np_call(n, fname, argname):
    return (isinstance(n, ast.Call) and isinstance(n.func, ast.Attribute) and isinstance(n.func.value, ast.Name)
            and n.func.value.id == "np" and n.func.attr == fname and len(n.args) == 1 and not n.keywords
            and isinstance(n.args[0], ast.Name) and n.args[0].id == argname)


def t_field_summary(tree):
    cls = find(tree.body, ast.ClassDef, "FieldSummary", "FieldSummary")
    if not any((isinstance(d, ast.Name) and d.id == "dataclass") or
               (isinstance(d, ast.Call) and isinstance(d.func, ast.Name) and d.func.id == "dataclass")
               for d in cls.decorator_list):
        fail("FieldSummary", cls, "not a dataclass")
    fields = [s.target.id for s in cls.body if isinstance(s, ast.AnnAssign) and isinstance(s.target, ast.Name)]
    q = find(cls.body, ast.FunctionDef, "quantiles", "FieldSummary.quantiles")
    b = strip_doc(q.body)
    if len(b) != 1 or not isinstance(b[0], ast.Return) or not isinstance(b[0].value, ast.List):
        fail("FieldSummary.quantiles", q, "expected `return [literals]`")
    probs = []
    for e in b[0].value.elts:
        if not (isinstance(e, ast.Constant) and isinstance(e.value, (int, float)) and not isinstance(e.value, bool)):
            fail("FieldSummary.quantiles", e, "expected a numeric literal")
        probs.append(Fraction(repr(e.value)))
    fm = find(cls.body, ast.FunctionDef, "from_metric", "FieldSummary.from_metric")
    ps = [a.arg for a in fm.args.args]
    if len(ps) < 3:
        fail("from_metric", fm, "parameters")
    c, name, metric = ps[0], ps[1], ps[2]
    b = strip_doc(fm.body)
    if len(b) != 1 or not isinstance(b[0], ast.Return) or not isinstance(b[0].value, ast.Call) \
            or not (isinstance(b[0].value.func, ast.Name) and b[0].value.func.id == c):
        fail("from_metric", fm, "expected `return cls(...)`")
    args = []
    for a in b[0].value.args:
        if isinstance(a, ast.Name) and a.id == name:
            args.append("FName")
        elif isinstance(a, ast.Name) and a.id == metric:
            args.append("FMetric")
        elif isinstance(a, ast.Starred):
            v = a.value
            ok = (isinstance(v, ast.Call) and isinstance(v.func, ast.Attribute) and isinstance(v.func.value, ast.Name)
                  and v.func.value.id == "np" and v.func.attr == "quantile" and len(v.args) == 2 and not v.keywords
                  and isinstance(v.args[0], ast.Name) and v.args[0].id == metric
                  and isinstance(v.args[1], ast.Call) and not v.args[1].args and not v.args[1].keywords
                  and isinstance(v.args[1].func, ast.Attribute) and v.args[1].func.attr == "quantiles"
                  and isinstance(v.args[1].func.value, ast.Name) and v.args[1].func.value.id in (c, "FieldSummary"))
            if not ok:
                fail("from_metric", a, "expected *np.quantile(metric, cls.quantiles())")
            args.append("FStarQuantiles")
        else:
            for fn, st in STATS.items():
                if is_np_call(a, fn, metric):
                    args.append(f"(FStat {st})")
                    break
            else:
                fail("from_metric", a, "positional argument not understood")
    for kw in b[0].value.keywords:
        if kw.arg != "keep_samples":
            fail("from_metric", b[0].value, f"keyword {kw.arg} (statistics must be positional)")
    pi = find(cls.body, ast.FunctionDef, "__post_init__", "FieldSummary.__post_init__")
    if normalised(pi) != EXPECT["__post_init__"]:
        fail("FieldSummary.__post_init__", pi, "body changed")
    dm = find(cls.body, ast.FunctionDef, "dict", "FieldSummary.dict")
    if normalised(dm) != EXPECT["dict"]:
        fail("FieldSummary.dict", dm, "body changed (a summary is dropped only when mean is None)")
    return fields, probs, args


def t_expr(e, argnames, where):
    if isinstance(e, ast.BinOp):
        op = {ast.Add: "OAdd", ast.Sub: "OSub", ast.Mult: "OMul", ast.Div: "ODiv"}.get(type(e.op))
        if op is None:
            fail(where, e, "operator")
        return f"(MBin {op} {t_expr(e.left, argnames, where)} {t_expr(e.right, argnames, where)})"
    if isinstance(e, ast.Constant) and type(e.value) is int:
        return f"(MConst {e.value})" if e.value >= 0 else f"(MConst ({e.value}))"
    if (isinstance(e, ast.Subscript) and isinstance(e.value, ast.Name) and e.value.id in argnames
            and isinstance(e.slice, ast.Constant) and isinstance(e.slice.value, str)):
        who = ["Cur", "Prev", "Next"][argnames.index(e.value.id)]
        return f"(MField {who} {cstr(e.slice.value)})"
    fail(where, e, "expression not understood (only cell[...]/prev[...]/next[...], int literals, + - * /)")


def t_metrics(tree):
    node = None
    for s in tree.body:
        if isinstance(s, ast.AnnAssign) and isinstance(s.target, ast.Name) and s.target.id == "COMMON_METRIC_DICT":
            node = s.value
        if isinstance(s, ast.Assign) and any(isinstance(t, ast.Name) and t.id == "COMMON_METRIC_DICT" for t in s.targets):
            node = s.value
    if not isinstance(node, ast.Dict):
        fail("COMMON_METRIC_DICT", node, "expected a dict display")
    out = []
    for k, v in zip(node.keys, node.values):
        if not (isinstance(k, ast.Constant) and isinstance(k.value, str)):
            fail("COMMON_METRIC_DICT", k, "key")
        if not isinstance(v, ast.Lambda):
            fail("COMMON_METRIC_DICT", v, "expected a lambda")
        a = v.args
        if a.vararg or a.kwarg or a.kwonlyargs or a.defaults or len(a.args) not in (1, 3):
            fail("COMMON_METRIC_DICT", v, "lambda must take (cell) or (cell, prev, next)")
        names = [x.arg for x in a.args]
        out.append((k.value, len(names), t_expr(v.body, names, f"metric {k.value!r}")))
    return out


def t_build(tree):
    fn = find(tree.body, ast.FunctionDef, "build_plot_data", "build_plot_data")
    tri = fn.args.args[0].arg
    body = strip_doc(fn.body)
    fs = [s for s in body if isinstance(s, ast.Assign) and isinstance(s.targets[0], ast.Name)
          and s.targets[0].id == "field_summaries"]
    if not fs or not isinstance(fs[0].value, ast.DictComp):
        fail("build_plot_data", fn, "field_summaries = {...} not found")
    dc = fs[0].value
    if len(dc.generators) != 2 or any(g.ifs for g in dc.generators):
        fail("build_plot_data", dc, "expected `for _, row in <rows> for cell, prev, next in zip(...)`")
    g0, g1 = dc.generators
    if not (isinstance(g0.target, ast.Tuple) and len(g0.target.elts) == 2 and isinstance(g0.target.elts[1], ast.Name)
            and isinstance(g0.iter, ast.Attribute) and isinstance(g0.iter.value, ast.Name) and g0.iter.value.id == tri):
        fail("build_plot_data", g0.iter, "rows must come from an attribute of the triangle")
    rows_attr, row = g0.iter.attr, g0.target.elts[1].id
    if not (isinstance(g1.target, ast.Tuple) and len(g1.target.elts) == 3 and all(isinstance(e, ast.Name) for e in g1.target.elts)):
        fail("build_plot_data", g1.target, "expected (cell, prev, next)")
    cell, prev, nxt = (e.id for e in g1.target.elts)
    if ast.unparse(g1.iter) != f"zip({row}, [None, *{row}[:-1]], [*{row}[1:], None])":
        fail("build_plot_data", g1.iter, "expected zip(row, [None, *row[:-1]], [*row[1:], None])")
    if not (isinstance(dc.key, ast.Name) and dc.key.id == cell):
        fail("build_plot_data", dc.key, "summaries must be keyed by the cell")
    inner = dc.value
    if not (isinstance(inner, ast.DictComp) and len(inner.generators) == 1 and not inner.generators[0].ifs):
        fail("build_plot_data", inner, "inner comprehension")
    ig = inner.generators[0]
    if not (isinstance(ig.target, ast.Tuple) and len(ig.target.elts) == 2 and all(isinstance(e, ast.Name) for e in ig.target.elts)):
        fail("build_plot_data", ig.target, "expected `for name, metric in`")
    nm, me = ig.target.elts[0].id, ig.target.elts[1].id
    md = fn.args.args[1].arg
    if ast.unparse(ig.iter) != f"({md} or COMMON_METRIC_DICT).items()":
        fail("build_plot_data", ig.iter, "expected (metric_dict or COMMON_METRIC_DICT).items()")
    if ast.unparse(inner.key) != f"_to_snake_case({nm})":
        fail("build_plot_data", inner.key, "expected _to_snake_case(name)")
    v = inner.value
    ok = (isinstance(v, ast.Call) and isinstance(v.func, ast.Attribute) and v.func.attr == "dict"
          and isinstance(v.func.value, ast.Call) and isinstance(v.func.value.func, ast.Name)
          and v.func.value.func.id == "_calculate_field_summary"
          and [ast.unparse(a) for a in v.func.value.args] == [cell, prev, nxt, me, nm])
    if not ok:
        fail("build_plot_data", v, "expected _calculate_field_summary(cell, prev, next, metric, name, ...).dict(...)")
    pd_ = [s for s in body if isinstance(s, ast.Assign) and isinstance(s.targets[0], ast.Name) and s.targets[0].id == "plot_data"]
    if len(pd_) != 1 or not isinstance(pd_[0].value, ast.ListComp) or len(pd_[0].value.generators) != 1:
        fail("build_plot_data", fn, "plot_data = [...] not found")
    lc = pd_[0].value
    g = lc.generators[0]
    if g.ifs or not isinstance(g.target, ast.Name):
        fail("build_plot_data", lc, "record loop has a filter or a pattern")
    c2 = g.target.id
    over = "triangle" if (isinstance(g.iter, ast.Name) and g.iter.id == tri) else ast.unparse(g.iter)
    d = lc.elt
    if not (isinstance(d, ast.Dict) and d.keys and d.keys[0] is None and d.keys[-1] is None
            and ast.unparse(d.values[0]) == f"_core_plot_data({c2})"
            and ast.unparse(d.values[-1]) == f"field_summaries[{c2}]"):
        fail("build_plot_data", d, "record must be {**_core_plot_data(cell), ..., **field_summaries[cell]}")
    other = [k.value for k in d.keys[1:-1] if isinstance(k, ast.Constant)]
    if len(other) != len(d.keys) - 2:
        fail("build_plot_data", d, "unexpected ** in the record")
    # the final value: plot_data itself (flat=False)
    rets = [s for s in body if isinstance(s, ast.Return)]
    if not rets or not (isinstance(rets[-1].value, ast.Name) and rets[-1].value.id == "plot_data"):
        fail("build_plot_data", fn, "expected a final `return plot_data`")
    return rows_attr, over


def t_core(tree):
    fn = find(tree.body, ast.FunctionDef, "_core_plot_data", "_core_plot_data")
    cell = fn.args.args[0].arg
    b = strip_doc(fn.body)
    if len(b) != 1 or not isinstance(b[0], ast.Return) or not isinstance(b[0].value, ast.Dict):
        fail("_core_plot_data", fn, "expected a dict display")
    out = []
    for k, v in zip(b[0].value.keys, b[0].value.values):
        if not (isinstance(k, ast.Constant) and isinstance(k.value, str)):
            fail("_core_plot_data", k, "key")
        txt = ast.unparse(v)
        if txt.startswith("pd.to_datetime(") and txt.endswith(")") and txt[15:-1].startswith(cell + "."):
            out.append((k.value, txt[15:-1][len(cell) + 1:]))
        elif txt.startswith(cell + "."):
            out.append((k.value, txt[len(cell) + 1:]))
        else:
            fail("_core_plot_data", v, "value")
    return out


def cstr(s: str) -> str:
    for ch in s:
        if ord(ch) > 126 or ord(ch) < 32 or ch == '"':
            raise Unsupported(f"string {s!r} is not printable ASCII")
    return f'(STR "{s}")'


def clist(items):
    return "[" + "; ".join(items) + "]"


def describe(repo: Path) -> dict:
    tree = ast.parse((repo / "bermuda/plot.py").read_text())
    d = {}
    d["fields"], d["probs"], d["args"] = t_field_summary(tree)
    d["metrics"] = t_metrics(tree)
    d["rows"], d["over"] = t_build(tree)
    d["core"] = t_core(tree)
    for name in ("_safe_apply_metric", "_calculate_field_summary"):
        fn = find(tree.body, ast.FunctionDef, name, name)
        if normalised(fn) != EXPECT[name]:
            fail(name, fn, "body changed")
    return d


def emit(d: dict) -> str:
    L = [
        "(* GENERATED by translate/t_plot.py from bermuda/plot.py *)",
        "From Coq Require Import ZArith QArith List String.",
        "From Bermuda Require Import Model.Base Model.Plot.",
        "Import ListNotations.",
        "Local Open Scope Q_scope.",
        "Definition desc : pdesc := {|",
        "  D_fields := " + clist(cstr(f) for f in d["fields"]) + ";",
        "  D_probs := " + clist(f"({p.numerator} # {p.denominator})" for p in d["probs"]) + ";",
        "  D_args := " + clist(d["args"]) + ";",
        "  D_metrics := " + clist(f"({cstr(n)}, ({a}%nat, {e}))" for n, a, e in d["metrics"]) + ";",
        f"  D_rows := {cstr(d['rows'])};",
        "  D_core := " + clist(f"({cstr(k)}, {cstr(v)})" for k, v in d["core"]) + ";",
        f"  D_records_over := {cstr(d['over'])} |}}.",
        "",
    ]
    return "\n".join(L)


def translate(repo) -> str:
    return emit(describe(Path(repo)))


if __name__ == "__main__":
    import sys

    print(translate(sys.argv[1] if len(sys.argv) > 1 else "/repo"))
