"""T-factory: fail-closed ast translator for bermuda/factory.py (the wiring of the method forms).

Every statement `Triangle.<name> = <expr>` is classified into one of the five wrapper shapes of
coq/Model/Factory.v and emitted as one row of `wrappers : list row` in GenFactory.v:

    wraps(f)(f)                                              -> Alias
    wraps(f)(lambda self, *args, **kwargs: f(self, *args, **kwargs))   -> Pass
    wraps(f)(lambda self: f(self))                           -> Unary
    wraps(f)(lambda self, ts, **kwargs: f(p=[self, *ts], **kwargs))     -> PrependKw p
    wraps(f)(lambda self, ts: f([self, *ts]))                -> PrependPos ts
    staticmethod(<one of the above>)                         -> same, static = true

Anything else (a cache around the function, named parameters with defaults, arguments that are not
forwarded, a second assignment elsewhere ...) aborts the translation.
"""
from __future__ import annotations

import ast
import sys
from pathlib import Path


class Unsupported(Exception):
    pass


def src(n):
    try:
        return ast.unparse(n)
    except Exception:  # noqa: BLE001
        return repr(n)


def bail(n, why):
    raise Unsupported(f"{why}: `{src(n)[:200]}` (line {getattr(n, 'lineno', '?')})")


def is_name(n, name=None):
    return isinstance(n, ast.Name) and (name is None or n.id == name)


def classify_lambda(lam: ast.Lambda, fname: str):
    a = lam.args
    if a.posonlyargs or a.kwonlyargs or a.defaults or a.kw_defaults:
        bail(lam, "wrapper has defaults / keyword-only / positional-only parameters")
    params = [x.arg for x in a.args]
    if not params or params[0] != "self":
        bail(lam, "wrapper's first parameter is not self")
    body = lam.body
    if not (isinstance(body, ast.Call) and is_name(body.func, fname)):
        bail(lam, f"wrapper body is not a call of {fname}")
    va, kw = (a.vararg.arg if a.vararg else None), (a.kwarg.arg if a.kwarg else None)
    pos, kws = body.args, body.keywords

    def star(n, name):
        return isinstance(n, ast.Starred) and is_name(n.value, name)

    def dstar(k, name):
        return k.arg is None and is_name(k.value, name)

    def prepend(n, ts):
        return (isinstance(n, ast.List) and len(n.elts) == 2 and is_name(n.elts[0], "self") and star(n.elts[1], ts))

    # Pass
    if params == ["self"] and va and kw:
        if len(pos) == 2 and is_name(pos[0], "self") and star(pos[1], va) and len(kws) == 1 and dstar(kws[0], kw):
            return "Pass"
        bail(lam, "*args/**kwargs are not forwarded verbatim")
    # Unary
    if params == ["self"] and not va and not kw:
        if len(pos) == 1 and is_name(pos[0], "self") and not kws:
            return "Unary"
        bail(lam, "unary wrapper does not call f(self)")
    # PrependKw
    if len(params) == 2 and not va and kw:
        ts = params[1]
        if not pos and len(kws) == 2 and kws[0].arg is not None and prepend(kws[0].value, ts) and dstar(kws[1], kw):
            return f'PrependKw "{kws[0].arg}"'
        bail(lam, "keyword-prepending wrapper has an unexpected body")
    # PrependPos
    if len(params) == 2 and not va and not kw:
        ts = params[1]
        if len(pos) == 1 and prepend(pos[0], ts) and not kws:
            return f'PrependPos "{ts}"'
        bail(lam, "prepending wrapper has an unexpected body")
    bail(lam, "unrecognised wrapper signature")


def def_as_lambda(fn: ast.FunctionDef) -> ast.Lambda:
    """A module-level `def w(...): return <call>` is the lambda with the same parameters and body."""
    body = [s_ for s_ in fn.body if not (isinstance(s_, ast.Expr) and isinstance(s_.value, ast.Constant))]
    if fn.decorator_list or len(body) != 1 or not isinstance(body[0], ast.Return) or body[0].value is None:
        bail(fn, "wrapper function is not a single `return <call>`")
    lam = ast.Lambda(args=fn.args, body=body[0].value)
    return ast.copy_location(lam, fn)


def is_pass_factory(fn: ast.FunctionDef):
    """def factory(func):
           @wraps(func)
           def method(self, *args, **kwargs):
               return func(self, *args, **kwargs)
           return method
    -- calling it on f yields exactly the Pass wrapper of f."""
    a = fn.args
    if fn.decorator_list or a.vararg or a.kwarg or a.kwonlyargs or a.posonlyargs or a.defaults or len(a.args) != 1:
        return False
    p = a.args[0].arg
    body = [s_ for s_ in fn.body if not (isinstance(s_, ast.Expr) and isinstance(s_.value, ast.Constant))]
    if len(body) != 2 or not isinstance(body[0], ast.FunctionDef) or not isinstance(body[1], ast.Return):
        return False
    inner, ret = body
    if not (is_name(ret.value, inner.name) and len(inner.decorator_list) == 1):
        return False
    d = inner.decorator_list[0]
    if not (isinstance(d, ast.Call) and is_name(d.func, "wraps") and len(d.args) == 1 and is_name(d.args[0], p) and not d.keywords):
        return False
    try:
        return classify_lambda(def_as_lambda(ast.FunctionDef(name=inner.name, args=inner.args, body=inner.body, decorator_list=[],
                                                             lineno=inner.lineno, col_offset=0)), p) == "Pass"
    except Unsupported:
        return False


def classify(expr, defs=None):
    static = False
    if isinstance(expr, ast.Call) and is_name(expr.func, "staticmethod"):
        if len(expr.args) != 1 or expr.keywords:
            bail(expr, "staticmethod(...) with unexpected arguments")
        static, expr = True, expr.args[0]
    # factory(f) for a module-level factory of Pass wrappers
    if isinstance(expr, ast.Call) and is_name(expr.func) and defs and expr.func.id in defs and len(expr.args) == 1 \
            and is_name(expr.args[0]) and not expr.keywords and defs[expr.func.id].get("factory"):
        defs[expr.func.id]["n"] += 1
        return expr.args[0].id, "Pass", static
    # wraps(f)(X)
    if not (isinstance(expr, ast.Call) and isinstance(expr.func, ast.Call) and is_name(expr.func.func, "wraps")
            and len(expr.func.args) == 1 and is_name(expr.func.args[0]) and not expr.func.keywords
            and len(expr.args) == 1 and not expr.keywords):
        bail(expr, "assignment is not wraps(f)(wrapper)")
    fname = expr.func.args[0].id
    x = expr.args[0]
    if is_name(x, fname):
        kind = "Alias"
    elif isinstance(x, ast.Lambda):
        kind = classify_lambda(x, fname)
    elif is_name(x) and defs and x.id in defs:
        used = defs[x.id]
        used["n"] += 1
        if used["n"] > 1 and not used.get("factory"):
            bail(x, "wrapper function used for more than one method")
        kind = classify_lambda(def_as_lambda(used["fn"]), fname)
    else:
        bail(x, "wrapper is neither the function itself nor a lambda")
    return fname, kind, static


def translate(repo: Path) -> str:
    path = repo / "bermuda" / "factory.py"
    tree = ast.parse(path.read_text())
    rows = []
    imported = set()
    defs = {n.name: {"fn": n, "n": 0, "factory": is_pass_factory(n)} for n in tree.body if isinstance(n, ast.FunctionDef)}
    for n in tree.body:
        if isinstance(n, ast.FunctionDef):
            continue            # only meaningful through the assignment that uses it (checked there)
        if isinstance(n, ast.ImportFrom):
            if n.module == "functools":
                if [a.name for a in n.names] != ["wraps"] or n.names[0].asname:
                    bail(n, "functools import other than `wraps`")
                continue
            for a in n.names:
                if a.asname:
                    bail(n, "aliased import")
                imported.add(a.name)
            continue
        if isinstance(n, ast.Expr) and isinstance(n.value, ast.Constant):
            continue
        if isinstance(n, ast.Assign) and len(n.targets) == 1 and isinstance(n.targets[0], ast.Attribute) \
                and is_name(n.targets[0].value, "Triangle"):
            name = n.targets[0].attr
            fname, kind, static = classify(n.value, defs)
            if fname not in imported:
                bail(n, f"{fname} is not imported from the package")
            rows.append((name, fname, kind, static))
            continue
        bail(n, "unexpected top-level statement in factory.py")
    unused = [k for k, v in defs.items() if v["n"] == 0]
    if unused:
        raise Unsupported(f"module-level functions in factory.py that no wiring uses: {unused}")
    # the wrapped names must not be re-bound anywhere else in the package (fail closed on monkey patching)
    wired = {r[0] for r in rows}
    for py in sorted((repo / "bermuda").rglob("*.py")):
        if py == path:
            continue
        t = ast.parse(py.read_text())
        for n in ast.walk(t):
            if isinstance(n, (ast.Assign, ast.AugAssign, ast.AnnAssign)):
                tg = n.targets if isinstance(n, ast.Assign) else [n.target]
                for x in tg:
                    if isinstance(x, ast.Attribute) and is_name(x.value, "Triangle") and x.attr in wired:
                        bail(n, f"Triangle.{x.attr} re-bound in {py.relative_to(repo)}")
            if isinstance(n, ast.Call) and is_name(n.func, "setattr") and n.args and is_name(n.args[0], "Triangle"):
                bail(n, f"setattr(Triangle, ...) in {py.relative_to(repo)}")
    out = ["(* generated by translate/t_factory.py from bermuda/factory.py -- do not edit *)",
           "From Coq Require Import List String.", "Import ListNotations.", "Open Scope string_scope.",
           "From Bermuda Require Import Model.Factory.", "",
           "Definition wrappers : list row := ["]
    out.append(";\n".join(f'  ("{n}", ("{f}", {k}, {"true" if s else "false"}))' for n, f, k, s in rows))
    out.append("].")
    return "\n".join(out) + "\n"


if __name__ == "__main__":
    repo = Path(sys.argv[1] if len(sys.argv) > 1 else "/repo")
    try:
        sys.stdout.write(translate(repo))
    except Unsupported as ex:
        sys.stderr.write(f"T-factory: unsupported: {ex}\n")
        sys.exit(3)
