"""T-rules: the summarize rule registry of bermuda/utils/summarize.py as a Coq table.

SUMMARIZE_DEFAULTS is a finite dict of closures, so instead of reading their AST each closure is
*probed at check time*, as it really behaves when called (late binding of comprehension variables
included): it is called on a tracing dict whose entries are lists of per-cell sentinel values
(distinct primes per key and position) on two independent bases, their sum, unit vectors, a
None-padded variant and an array-valued variant.  From the keys read and the results the prober
decides -- and verifies by linearity -- whether the rule is

    RSum k            _conforming_sum(vd[k])                       (sum of key k, None skipped)
    RWAvg a w TId     sum(vd[a]*vd[w]) / sum(vd[w])                (None values skipped)
    RWAvg a w TExpLog log(sum(exp(vd[a])*vd[w]) / sum(vd[w]))
    ROther            anything else (also: raised, read other keys, non-linear)

and emits  build/<ID>/GenRules.v  with  `rules : rule_table`  and  `non_loss : list str`.
Fail closed: anything unexpected about the registry itself raises Unsupported.
"""
from __future__ import annotations

import importlib
import math
import sys
from fractions import Fraction
from pathlib import Path

import numpy as np


class Unsupported(Exception):
    pass


PRIMES = [p for p in range(3, 4000) if all(p % q for q in range(2, int(p ** 0.5) + 1))]
NPOS = 3


class Tracer(dict):
    """vd[...] only; any other access is an unsupported rule shape."""

    def __init__(self, base):
        super().__init__()
        self.base = base
        self.reads = []

    def __getitem__(self, k):
        if not isinstance(k, str):
            raise Unsupported(f"rule indexes vd with a non-string {k!r}")
        self.reads.append(k)
        return self.base(k)

    def _no(self, *a, **k):
        raise Unsupported("rule uses a dict method other than vd[key]")

    get = keys = values = items = __iter__ = __contains__ = __len__ = pop = setdefault = _no


class Bases:
    """Sentinel values per (key, position); indices are assigned at first use."""

    def __init__(self):
        self.idx = {}

    def i(self, k):
        return self.idx.setdefault(k, len(self.idx))

    def A(self, k):
        return [PRIMES[NPOS * self.i(k) + j] for j in range(NPOS)]

    def B(self, k):
        return [PRIMES[400 - NPOS * self.i(k) - j] for j in range(NPOS)]

    def AB(self, k):
        return [a + b for a, b in zip(self.A(k), self.B(k))]

    def unit(self, key, j):
        return lambda k: [1 if (k == key and i == j) else 0 for i in range(NPOS)]

    def A_none(self, k):   # middle cell lacks every key
        v = self.A(k)
        return [v[0], None, v[2]]

    def A_arr(self, k):
        return [np.array([v, 2 * v + 1], dtype=np.int64) for v in self.A(k)]

    def small(self, k, which=0):  # small floats for exp/log
        v = self.A(k) if which == 0 else self.B(k)
        return [float(x % 17 + 1) / 4.0 for x in v]


def call(fn, base):
    t = Tracer(base)
    return fn(t), t.reads


def close(a, b, tol=1e-11):
    try:
        a, b = float(a), float(b)
    except Exception:
        return False
    return a == b or abs(a - b) <= tol * max(abs(a), abs(b))


def classify(name, fn):
    """-> (rule tuple, note).  rule tuple: ('sum', k) | ('wavg', a, w, 'TId'|'TExpLog') | ('other',)"""
    bs = Bases()
    try:
        outA, reads = call(fn, bs.A)
    except Unsupported as ex:
        return ("other",), str(ex)
    except Exception as ex:  # noqa: BLE001
        return ("other",), f"raised {type(ex).__name__} on the probe"
    R = list(dict.fromkeys(reads))
    try:
        if len(R) == 1 and len(reads) == 1:
            k = R[0]
            ok = type(outA) is int and outA == sum(bs.A(k))
            outB, rb = call(fn, bs.B)
            outAB, rab = call(fn, bs.AB)
            ok = ok and rb == reads and rab == reads and outB == sum(bs.B(k)) and outAB == outA + outB
            for j in range(NPOS):
                o, r = call(fn, bs.unit(k, j))
                ok = ok and o == 1 and r == reads
            o, r = call(fn, bs.A_none)
            ok = ok and o == bs.A(k)[0] + bs.A(k)[2]
            o, r = call(fn, bs.A_arr)
            want = sum(bs.A_arr(k))
            ok = ok and isinstance(o, np.ndarray) and o.dtype == np.int64 and np.array_equal(o, want)
            if ok:
                return ("sum", k), ""
            return ("other",), f"reads {reads} but is not the plain sum of that key"
        if len(R) == 2 and len(reads) == 2:
            for a, w in ((R[0], R[1]), (R[1], R[0])):
                for tr in ("TId", "TExpLog"):
                    try:
                        good = _wavg_matches(fn, bs, reads, a, w, tr)
                    except Unsupported:
                        raise
                    except Exception:  # noqa: BLE001  (this candidate form does not fit)
                        good = False
                    if good:
                        return ("wavg", a, w, tr), ""
            return ("other",), f"reads {reads} but matches no weighted-average form"
    except Unsupported as ex:
        return ("other",), str(ex)
    except Exception as ex:  # noqa: BLE001
        return ("other",), f"raised {type(ex).__name__} on a follow-up probe"
    return ("other",), f"reads {reads}"


def _wavg_matches(fn, bs, reads, a, w, tr):
    """Does fn behave as the weighted average of key a by key w (transform tr) on both bases?"""
    good = True
    for which in (0, 1):
        base = (lambda k, which=which: bs.small(k, which))
        o, r = call(fn, base)
        va, vw = base(a), base(w)
        if tr == "TId":
            want = float(sum(Fraction(x) * Fraction(y) for x, y in zip(va, vw)) / sum(Fraction(y) for y in vw))
        else:
            want = math.log(sum(math.exp(x) * y for x, y in zip(va, vw)) / sum(vw))
        good = good and r == reads and close(o, want)
        # homogeneous of degree 0 in the weights
        o2, _ = call(fn, lambda k, base=base: [2 * x for x in base(k)] if k == w else base(k))
        good = good and close(o2, want)
    if tr == "TId":   # None values are skipped, their weights still count
        def basen(k):
            v = bs.small(k, 0)
            return [v[0], None, v[2]] if k == a else v
        o, _ = call(fn, basen)
        va, vw = bs.small(a, 0), bs.small(w, 0)
        want = (va[0] * vw[0] + va[2] * vw[2]) / sum(vw)
        good = good and close(o, want)
    return good


def load(repo: Path):
    """Import bermuda.utils.summarize from `repo` (fail closed if another tree is picked up)."""
    repo = Path(repo).resolve()
    if "bermuda.utils.summarize" in sys.modules:
        mod = sys.modules["bermuda.utils.summarize"]
    else:
        mod = importlib.import_module("bermuda.utils.summarize")
    src = Path(mod.__file__).resolve()
    if repo not in src.parents:
        raise Unsupported(f"bermuda.utils.summarize was imported from {src}, not from {repo}")
    return mod


def probe(repo: Path):
    """-> (list of (name, rule tuple, note), sorted non_loss names)"""
    mod = load(repo)
    reg = getattr(mod, "SUMMARIZE_DEFAULTS", None)
    nl = getattr(mod, "NON_LOSS_METRICS", None)
    if not isinstance(reg, dict) or not reg:
        raise Unsupported("SUMMARIZE_DEFAULTS is not a non-empty dict")
    if not isinstance(nl, (set, frozenset, list, tuple)) or not all(isinstance(x, str) for x in nl):
        raise Unsupported("NON_LOSS_METRICS is not a collection of strings")
    out = []
    for name, fn in reg.items():
        if not isinstance(name, str) or not callable(fn):
            raise Unsupported(f"registry entry {name!r} is not str -> callable")
        rule, note = classify(name, fn)
        out.append((name, rule, note))
    return out, sorted(nl)


def cstr(s: str) -> str:
    return "[" + ";".join(str(b) for b in s.encode("utf-8")) + "]"


def crule(rule) -> str:
    if rule[0] == "sum":
        return f"RSum {cstr(rule[1])}"
    if rule[0] == "wavg":
        return f"RWAvg {cstr(rule[1])} {cstr(rule[2])} {rule[3]}"
    return "ROther"


def describe(rule) -> str:
    if rule[0] == "sum":
        return f"sum of {rule[1]}"
    if rule[0] == "wavg":
        return f"weighted average of {rule[1]} by {rule[2]} ({rule[3]})"
    return "other"


def translate(repo: Path):
    """-> (Coq text of GenRules.v, probe table)"""
    table, nl = probe(repo)
    L = ["(* GENERATED by translate/t_rules.py from bermuda/utils/summarize.py -- do not edit *)",
         "From Coq Require Import ZArith List.",
         "From Bermuda Require Import Model.Base Model.Summarize.",
         "Import ListNotations.", "Local Open Scope Z_scope.", "",
         "Definition rules : rule_table := ["]
    rows = []
    for name, rule, note in table:
        c = f"  (* {name}: {describe(rule)}{' -- ' + note if note else ''} *)\n  ({cstr(name)}, {crule(rule)})"
        rows.append(c.replace("*)", "*)", 1))
    L.append(";\n".join(rows))
    L.append("].")
    L.append("")
    L.append("Definition non_loss : list str := [")
    L.append(";\n".join(f"  (* {n} *) {cstr(n)}" for n in nl))
    L.append("].")
    return "\n".join(L) + "\n", (table, nl)


if __name__ == "__main__":
    txt, (table, nl) = translate(Path(sys.argv[1] if len(sys.argv) > 1 else "/repo"))
    for name, rule, note in table:
        print(f"{name:28s} {describe(rule)}  {note}")
    print("non_loss:", nl)
