"""T-order / T-eqhash / T-funnel: fail-closed ast translators for C01 and C02.

Reads bermuda/base/metadata.py, bermuda/base/cell.py, bermuda/base/incremental.py,
bermuda/triangle.py (and, for T-funnel, every module under bermuda/) and emits GenOrder.v:
the comparison tuples of `__lt__`, the conjuncts of `__eq__`, the hashed tuples of `__hash__`,
the shape of `Triangle.__init__/__eq__/__hash__` -- as Gallina definitions over Model/Base.v and
Model/Order.v.  Anything whose shape is not recognised aborts the translation.
"""
from __future__ import annotations

import ast
import sys
from pathlib import Path

sys.path.insert(0, str(Path(__file__).resolve().parent))
from normalize import NotReducible, reduce_function  # noqa: E402


class Unsupported(Exception):
    pass


def src(n):
    try:
        return ast.unparse(n)
    except Exception:
        return repr(n)


def bail(n, why):
    raise Unsupported(f"{why}: `{src(n)[:200]}` (line {getattr(n, 'lineno', '?')})")


STR_ATTRS = ["risk_basis", "country", "currency", "reinsurance_basis", "loss_definition"]
META_FIELDS = STR_ATTRS + ["per_occurrence_limit", "details", "loss_details"]
CELL_ATTR = {"_period_start": "ps", "_period_end": "pe", "_evaluation_date": "ev", "_metadata": "cmeta",
             "_values": "cvals", "_prev_evaluation_date": "prev"}


def find_class(tree, name):
    for n in tree.body:
        if isinstance(n, ast.ClassDef) and n.name == name:
            return n
    raise Unsupported(f"class {name} not found")


def find_method(cls, name, required=True):
    for n in cls.body:
        if isinstance(n, ast.FunctionDef) and n.name == name:
            return n
    if required:
        raise Unsupported(f"method {cls.name}.{name} not found")
    return None


def only_return(fn, module=None, cls=None):
    """The expression the function returns.  Straight-line temporaries, `if ...: return` chains and one-line
    helper functions are normalised away first (translate/normalize.py), so that naming a sub-expression or
    extracting a helper does not change the translation."""
    try:
        return reduce_function(fn, module, cls)
    except NotReducible as ex:
        bail(fn, f"method body does not reduce to a single returned expression ({ex})")


def attr_of(n, owner=None):
    """X.a  ->  (X, a) for X a plain name."""
    if isinstance(n, ast.Attribute) and isinstance(n.value, ast.Name):
        if owner is not None and n.value.id != owner:
            return None
        return n.value.id, n.attr
    return None


# ----------------------------------------------------------------------------- Metadata.__lt__
def meta_component(e):
    """-> (kind, side, attr) for one element of the comparison tuple."""
    # (X.a is not None, X.a or "")
    if isinstance(e, ast.Tuple) and len(e.elts) == 2:
        t, v = e.elts
        if isinstance(t, ast.Compare) and len(t.ops) == 1 and isinstance(t.comparators[0], ast.Constant) \
                and t.comparators[0].value is None:
            a = attr_of(t.left)
            if a and isinstance(t.ops[0], ast.IsNot):
                if isinstance(v, ast.BoolOp) and isinstance(v.op, ast.Or) and len(v.values) == 2 \
                        and attr_of(v.values[0]) == a and isinstance(v.values[1], ast.Constant) \
                        and v.values[1].value == "":
                    return "optstr", a[0], a[1]
            if a and isinstance(t.ops[0], ast.Is):
                if isinstance(v, ast.IfExp) and src(v.test) == src(t) and isinstance(v.body, ast.Constant) \
                        and v.body.value == 0 and type(v.body.value) is int and attr_of(v.orelse) == a:
                    return "optnum_last", a[0], a[1]
    # tuple(sorted(X.a.items()))
    if isinstance(e, ast.Call) and src(e.func) == "tuple" and len(e.args) == 1 and not e.keywords:
        s = e.args[0]
        if isinstance(s, ast.Call) and src(s.func) == "sorted" and len(s.args) == 1 and not s.keywords:
            it = s.args[0]
            if isinstance(it, ast.Call) and isinstance(it.func, ast.Attribute) and it.func.attr == "items" \
                    and not it.args and not it.keywords:
                a = attr_of(it.func.value)
                if a:
                    return "items", a[0], a[1]
    bail(e, "unrecognised component of the Metadata comparison key")


def coq_side(side, params):
    if side not in params:
        raise Unsupported(f"comparison key mentions `{side}`, which is not a parameter")
    return side


def gen_meta_key(tup, params, name):
    if not isinstance(tup, ast.Tuple):
        bail(tup, "comparison operand is not a tuple")
    comps = [meta_component(e) for e in tup.elts]
    kinds = [k for k, _, _ in comps]
    if kinds != ["optstr"] * 5 + ["optnum_last"] + ["items"] * 2:
        raise Unsupported(f"{name}: key shape {kinds} is not (5 x optional string, optional number, 2 x items)")
    strs = "; ".join(f"{a} {coq_side(s, params)}" for _, s, a in comps[:5])
    for _, s, a in comps:
        if a not in META_FIELDS:
            raise Unsupported(f"{name}: unknown metadata attribute {a}")
    _, s5, a5 = comps[5]
    _, s6, a6 = comps[6]
    _, s7, a7 = comps[7]
    return (f"Definition {name} (self other : meta) : mkey :=\n"
            f"  mkMkey [{strs}]\n"
            f"         (option_map num_n ({a5} {coq_side(s5, params)}))\n"
            f"         (sort_items ({a6} {coq_side(s6, params)})) (sort_items ({a7} {coq_side(s7, params)})).\n")


def lt_operands(fn, module=None, cls=None):
    e = only_return(fn, module, cls)
    if not (isinstance(e, ast.Compare) and len(e.ops) == 1 and isinstance(e.ops[0], ast.Lt)):
        bail(e, "__lt__ does not return `a < b`")
    params = [a.arg for a in fn.args.args]
    if len(params) != 2:
        bail(fn, "__lt__ must take (self, other)")
    return e.left, e.comparators[0], params


# ----------------------------------------------------------------------------- Cell.__lt__
def gen_cell_key(tup, params, name, want_prev):
    if not isinstance(tup, ast.Tuple):
        bail(tup, "comparison operand is not a tuple")
    parts = []
    for e in tup.elts:
        a = attr_of(e)
        if not a or a[1] not in CELL_ATTR:
            bail(e, "unrecognised component of the cell comparison key")
        parts.append((coq_side(a[0], params), a[1]))
    attrs = [a for _, a in parts]
    want = ["_metadata", "_period_start", "_period_end", "_evaluation_date"] + (["_prev_evaluation_date"] if want_prev else [])
    if attrs != want:
        raise Unsupported(f"{name}: key attributes {attrs} differ from {want}")
    ms, _ = parts[0]
    dates = []
    for s, a in parts[1:]:
        if a == "_prev_evaluation_date":
            dates.append(f"match prev {s} with Some p => p | None => 0 end")
        else:
            dates.append(f"{CELL_ATTR[a]} {s}")
    return (f"Definition {name} (self other : cell) : mkey * list Z :=\n"
            f"  (canonical_key (cmeta {ms}), [{'; '.join(dates)}]).\n")


# ----------------------------------------------------------------------------- __eq__
def conj_list(e):
    # `A if not A else B` and `B if A else A` are, by definition, `A and B`
    if isinstance(e, ast.IfExp):
        t = e.test
        if isinstance(t, ast.UnaryOp) and isinstance(t.op, ast.Not) and src(t.operand) == src(e.body):
            return conj_list(e.body) + conj_list(e.orelse)
        if src(t) == src(e.orelse):
            return conj_list(t) + conj_list(e.body)
        if isinstance(e.orelse, ast.Constant) and e.orelse.value is False:
            return conj_list(t) + conj_list(e.body)
    if isinstance(e, ast.BoolOp) and isinstance(e.op, ast.And):
        out = []
        for v in e.values:
            out += conj_list(v)
        return out
    return [e]


def cell_eq_conjunct(e, params):
    s, o = params
    txt = src(e).replace(" ", "")
    if txt in (f"(isinstance({s},{o}.__class__)orisinstance({o},{s}.__class__))",
               f"isinstance({s},{o}.__class__)orisinstance({o},{s}.__class__)"):
        return f"class_compat (ckind {s}) (ckind {o})"
    if isinstance(e, ast.Compare) and len(e.ops) == 1 and isinstance(e.ops[0], ast.Eq):
        a, b = attr_of(e.left), attr_of(e.comparators[0])
        if a and b and a[1] == b[1] and {a[0], b[0]} == {s, o} and a[1] in CELL_ATTR:
            at = a[1]
            if at in ("_period_start", "_period_end", "_evaluation_date"):
                return f"({CELL_ATTR[at]} {a[0]} =? {CELL_ATTR[at]} {b[0]})"
            if at == "_metadata":
                return f"meta_pyeq (cmeta {a[0]}) (cmeta {b[0]})"
            if at == "_prev_evaluation_date":
                return f"opt_eqb Z.eqb (prev {a[0]}) (prev {b[0]})"
    if isinstance(e, ast.Call) and src(e.func) == "values_eq" and len(e.args) == 2 and not e.keywords:
        a, b = attr_of(e.args[0]), attr_of(e.args[1])
        if a and b and a[1] == b[1] == "_values" and [a[0], b[0]] == [s, o]:
            return f"gen_values_eq (cvals {a[0]}) (cvals {b[0]})"
    if src(e).replace(" ", "") == f"super().__eq__({o})":
        return f"gen_cell_eq {s} {o}"
    bail(e, "unrecognised conjunct of __eq__")


def gen_values_eq(fn):
    """values_eq(val1, val2): sorted key lists equal, then np.array_equal per key of val1."""
    params = [a.arg for a in fn.args.args]
    if len(params) != 2:
        bail(fn, "values_eq arity")
    v1, v2 = params
    body = [s for s in fn.body if not (isinstance(s, ast.Expr) and isinstance(s.value, ast.Constant))]
    ok = (
        len(body) == 3
        and isinstance(body[0], ast.If)
        and src(body[0].test).replace(" ", "") == f"notsorted({v1}.keys())==sorted({v2}.keys())"
        and src(body[0].body[0]) == "return False" and not body[0].orelse
        and isinstance(body[1], ast.For)
        and src(body[1].iter).replace(" ", "") == f"{v1}.keys()"
        and isinstance(body[1].target, ast.Name)
        and len(body[1].body) == 1 and isinstance(body[1].body[0], ast.If)
        and src(body[1].body[0].test).replace(" ", "")
        == f"notnp.array_equal({v1}[{body[1].target.id}],{v2}[{body[1].target.id}])"
        and src(body[1].body[0].body[0]) == "return False" and not body[1].body[0].orelse
        and not body[1].orelse
        and src(body[2]) == "return True"
    )
    if not ok:
        # the same function written without the explicit loop:
        #   <key lists differ> -> False, otherwise all(np.array_equal(v1[k], v2[k]) for k in v1.keys())
        try:
            e = reduce_function(fn)
            t = src(e).replace(" ", "").replace("\n", "")
            k = "k"
            if isinstance(e, ast.IfExp) and isinstance(e.orelse, ast.Call) and e.orelse.args \
                    and isinstance(e.orelse.args[0], ast.GeneratorExp) and isinstance(e.orelse.args[0].generators[0].target, ast.Name):
                k = e.orelse.args[0].generators[0].target.id
            want = (f"Falseifnotsorted({v1}.keys())==sorted({v2}.keys())else"
                    f"all((np.array_equal({v1}[{k}],{v2}[{k}])for{k}in{v1}.keys()))")
            want2 = want.replace(f"ifnotsorted({v1}.keys())==sorted({v2}.keys())", f"ifsorted({v1}.keys())!=sorted({v2}.keys())")
            ok = t in (want, want2, want.replace("all((", "all([").replace(")))", ")])"))
        except NotReducible:
            ok = False
    if not ok:
        bail(fn, "values_eq has an unrecognised shape")
    return "Definition gen_values_eq (val1 val2 : list (str * value)) : bool := values_pyeq val1 val2.\n"


# ----------------------------------------------------------------------------- __hash__
def flatten_tuple(e):
    """(a, b) + (c,)  ->  [a, b, c]   (tuple displays and their concatenations only)"""
    if isinstance(e, ast.Tuple):
        return list(e.elts)
    if isinstance(e, ast.BinOp) and isinstance(e.op, ast.Add):
        l, r = flatten_tuple(e.left), flatten_tuple(e.right)
        if l is not None and r is not None:
            return l + r
    return None


def hash_tuple(fn):
    e = None
    try:
        e = reduce_function(fn)          # straight-line bodies: temporaries substituted
    except NotReducible:
        for s in ast.walk(fn):           # bodies with a loop (Cell.__hash__): the final return
            if isinstance(s, ast.Return):
                e = s.value
    elts = flatten_tuple(e.args[0]) if (isinstance(e, ast.Call) and src(e.func) == "hash" and len(e.args) == 1
                                        and not e.keywords) else None
    if elts is None:
        bail(fn, "__hash__ does not return hash((...))")
    return elts


def gen_meta_hash(fn):
    comps = []
    for e in hash_tuple(fn):
        a = attr_of(e, "self")
        if a:
            comps.append(("plain", a[1]))
            continue
        if isinstance(e, ast.Call) and src(e.func) == "frozenset" and len(e.args) == 1:
            it = e.args[0]
            if isinstance(it, ast.Call) and isinstance(it.func, ast.Attribute) and it.func.attr == "items":
                a = attr_of(it.func.value, "self")
                if a:
                    comps.append(("frozenset_items", a[1]))
                    continue
        bail(e, "unrecognised component of Metadata.__hash__")
    want = [("plain", a) for a in META_FIELDS[:6]] + [("frozenset_items", "details"), ("frozenset_items", "loss_details")]
    if comps != want:
        raise Unsupported(f"Metadata.__hash__ hashes {comps}, expected {want}")
    # hash((a1..a6, frozenset(items), frozenset(items))): equal for ==-equal components; modelled by
    # the canonical key (order-insensitive, numerically normalised)
    return "Definition gen_meta_hash_key (self : meta) : mkey := canonical_key self.\n"


def gen_cell_hash(fn):
    elts = hash_tuple(fn)
    out = []
    for e in elts:
        t = src(e).replace(" ", "").replace("\n", "").replace("'", '"')
        a = attr_of(e, "self")
        if a and a[1] in CELL_ATTR:
            out.append(a[1])
        elif t in ('("Cell"ifself.__class__.__name__=="CumulativeCell"elseself.__class__.__name__)',
                   '"Cell"ifself.__class__.__name__=="CumulativeCell"elseself.__class__.__name__'):
            out.append("<basis-class>")
        elif t == "self.__class__.__name__":
            out.append("<class-name>")
        elif t == "tuple(sorted(value_hashes))":
            out.append("<sorted-value-hashes>")
        else:
            bail(e, "unrecognised component of Cell.__hash__")
    # the value-hash loop: hash((k, tuple(v))) for arrays, hash((k, v)) otherwise
    loop = [s for s in fn.body if isinstance(s, ast.For)]
    if len(loop) != 1 or src(loop[0].iter).replace(" ", "") != "self._values.items()":
        bail(fn, "Cell.__hash__: value-hash loop not recognised")
    ltxt = src(loop[0]).replace(" ", "").replace("\n", "")
    # arrays are hashed by their elements (a 0-d array like the scalar it equals), everything else as it is
    body_ok = (ltxt.replace("\"", "'") ==
               "fork,vinself._values.items():ifisinstance(v,np.ndarray)andv.ndim==0:item_hash=hash((k,v.item()))"
               "elifisinstance(v,np.ndarray):item_hash=hash((k,tuple(v.ravel())))else:item_hash=hash((k,v))"
               "value_hashes.append(item_hash)")
    if not body_ok:
        bail(loop[0], "Cell.__hash__: value-hash loop body not recognised")
    tagmap = {"<basis-class>": "HBasis", "<class-name>": "HClassName", "_period_start": "HPs", "_period_end": "HPe",
              "_evaluation_date": "HEv", "_metadata": "HMeta", "<sorted-value-hashes>": "HValues",
              "_prev_evaluation_date": "HPrev"}
    return "Definition gen_cell_hash_components : list hcomp := [" + "; ".join(tagmap[x] for x in out) + "].\n"


# ----------------------------------------------------------------------------- Triangle
def gen_triangle(cls):
    out = []
    init = find_method(cls, "__init__")
    txt = src(init).replace(" ", "").replace("\n", "")
    arg = init.args.args[1].arg
    feats = {
        "materialises_once": f"{arg}=list({arg})" in txt and txt.index(f"{arg}=list({arg})") < txt.index("isinstance("),
        "sorts_with_lt": f"self._cells=sorted(list({arg}))" in txt or f"self._cells=sorted({arg})" in txt,
        "rejects_mixed_classes": txt.count("__class__.__name__==") >= 3 and "Trianglecellsmusthaveconsistenttype" in txt,
        "rejects_non_cells": f"notisinstance(cell,Cell)forcellin{arg}" in txt,
    }
    if not feats["sorts_with_lt"]:
        # the same thing spelled  v = list(arg); v.sort(); self._cells = v   (v a local used for nothing else)
        loc = [n for n in ast.walk(init) if isinstance(n, ast.Assign) and len(n.targets) == 1 and isinstance(n.targets[0], ast.Name)
               and src(n.value).replace(" ", "") in (f"list({arg})", f"sorted({arg})", f"sorted(list({arg}))")]
        for a in loc:
            v = a.targets[0].id
            if v == arg:
                continue
            uses = [n for n in ast.walk(init) if isinstance(n, ast.Name) and n.id == v]
            sorts = [n for n in ast.walk(init) if isinstance(n, ast.Call) and isinstance(n.func, ast.Attribute)
                     and isinstance(n.func.value, ast.Name) and n.func.value.id == v and n.func.attr == "sort"
                     and not n.args and not n.keywords]
            stores = [n for n in ast.walk(init) if isinstance(n, ast.Assign) and any(src(t) == "self._cells" for t in n.targets)
                      and isinstance(n.value, ast.Name) and n.value.id == v]
            pre_sorted = src(a.value).replace(" ", "").startswith("sorted(")
            # v occurs exactly: once as the assignment target, once per .sort(), once in the store
            if len(stores) == 1 and len(uses) == 1 + len(sorts) + 1 and (pre_sorted or len(sorts) >= 1) \
                    and (not sorts or all(s_.lineno > a.lineno and s_.lineno < stores[0].lineno for s_ in sorts)):
                feats["sorts_with_lt"] = True
    # no key= / reverse= argument to sorted, no later assignment to self._cells
    n_assign = sum(1 for n in ast.walk(init) if isinstance(n, ast.Assign)
                   and any(src(t) == "self._cells" for t in n.targets))
    feats["single_cells_assignment"] = n_assign == 1
    for n in ast.walk(init):
        if isinstance(n, ast.Call) and src(n.func) == "sorted" and n.keywords:
            feats["sorts_with_lt"] = False
    eq = find_method(cls, "__eq__")
    e = src(only_return(eq)).replace(" ", "").replace("\n", "")
    feats["eq_checks_length"] = "len(self.cells)==len(other.cells)" in e or "len(self._cells)==len(other._cells)" in e
    feats["eq_zips_cells"] = "all([cell1==cell2forcell1,cell2inzip(self.cells,other.cells)])" in e
    h = find_method(cls, "__hash__")
    feats["hash_of_cell_tuple"] = src(only_return(h)).replace(" ", "") == "hash(tuple(self._cells))"
    c = find_method(cls, "__contains__")
    feats["contains_uses_cell_eq"] = src(only_return(c)).replace(" ", "") == "cellinself._cells"
    it = find_method(cls, "__iter__")
    feats["iter_over_cells"] = src(only_return(it)).replace(" ", "") == "iter(self._cells)"
    ln = find_method(cls, "__len__")
    feats["len_of_cells"] = src(only_return(ln)).replace(" ", "") == "len(self._cells)"
    bases = [src(b) for b in cls.bases]
    feats["is_abc_set"] = bases == ["abc.Set"]
    for k, v in feats.items():
        out.append(f"Definition tri_{k} : bool := {'true' if v else 'false'}.")
    return "\n".join(out) + "\n", feats


def funnel(repo: Path):
    """T-funnel: statements that assign to `._cells` anywhere outside Triangle.__init__, or mutate a
    `_cells` list in place -- every triangle must come out of the constructor."""
    bad = []
    for p in sorted((repo / "bermuda").rglob("*.py")):
        tree = ast.parse(p.read_text())
        for n in ast.walk(tree):
            targets = []
            if isinstance(n, ast.Assign):
                targets = n.targets
            elif isinstance(n, (ast.AugAssign, ast.AnnAssign)):
                targets = [n.target]
            for t in targets:
                if isinstance(t, ast.Attribute) and t.attr == "_cells":
                    bad.append((str(p.relative_to(repo)), n.lineno, src(n)[:80]))
                if isinstance(t, ast.Subscript) and isinstance(t.value, ast.Attribute) and t.value.attr in ("_cells", "cells"):
                    bad.append((str(p.relative_to(repo)), n.lineno, src(n)[:80]))
            if isinstance(n, ast.Call) and isinstance(n.func, ast.Attribute) and n.func.attr in (
                    "append", "extend", "sort", "insert", "pop", "remove", "reverse", "clear") \
                    and isinstance(n.func.value, ast.Attribute) and n.func.value.attr in ("_cells", "cells"):
                bad.append((str(p.relative_to(repo)), n.lineno, src(n)[:80]))
    # the single legitimate site: the assignment inside Triangle.__init__ (its shape is checked by gen_triangle:
    # exactly one assignment, of the sorted materialised argument)
    tri = ast.parse((repo / "bermuda" / "triangle.py").read_text())
    init = find_method(find_class(tri, "Triangle"), "__init__")
    init_lines = {n.lineno for n in ast.walk(init) if isinstance(n, ast.Assign) and any(src(t) == "self._cells" for t in n.targets)}
    bad = [b for b in bad if not (b[0] == "bermuda/triangle.py" and b[1] in init_lines)]
    return bad


def translate(repo: Path):
    meta_t = ast.parse((repo / "bermuda/base/metadata.py").read_text())
    cell_t = ast.parse((repo / "bermuda/base/cell.py").read_text())
    inc_t = ast.parse((repo / "bermuda/base/incremental.py").read_text())
    tri_t = ast.parse((repo / "bermuda/triangle.py").read_text())
    out = [
        "(* GENERATED by translate/t_order.py from bermuda/base/{metadata,cell,incremental}.py and",
        "   bermuda/triangle.py -- do not edit *)",
        "From Coq Require Import ZArith List Bool.",
        "From Bermuda Require Import Model.Base Model.Order Model.Eq.",
        "Import ListNotations.",
        "Local Open Scope Z_scope.",
        "",
    ]
    M = find_class(meta_t, "Metadata")
    # dataclass(eq=True, frozen=True), no hand-written __eq__, the eight fields in order
    deco = [src(d).replace(" ", "") for d in M.decorator_list]
    if not any(d.startswith("dataclass(") and "eq=True" in d and "frozen=True" in d for d in deco):
        raise Unsupported(f"Metadata is not @dataclass(frozen=True, eq=True): {deco}")
    if find_method(M, "__eq__", required=False) is not None:
        raise Unsupported("Metadata defines its own __eq__")
    fields = [n.target.id for n in M.body if isinstance(n, ast.AnnAssign) and isinstance(n.target, ast.Name)]
    if fields != META_FIELDS:
        raise Unsupported(f"Metadata dataclass fields {fields} differ from {META_FIELDS}")
    l, r, params = lt_operands(find_method(M, "__lt__"), meta_t, M)
    out.append(gen_meta_key(l, params, "gen_meta_left"))
    out.append(gen_meta_key(r, params, "gen_meta_right"))
    out.append(gen_meta_hash(find_method(M, "__hash__")))
    C = find_class(cell_t, "Cell")
    l, r, params = lt_operands(find_method(C, "__lt__"), cell_t, C)
    out.append(gen_cell_key(l, params, "gen_cell_left", False))
    out.append(gen_cell_key(r, params, "gen_cell_right", False))
    I = find_class(inc_t, "IncrementalCell")
    l, r, params = lt_operands(find_method(I, "__lt__"), inc_t, I)
    out.append(gen_cell_key(l, params, "gen_inc_left", True))
    out.append(gen_cell_key(r, params, "gen_inc_right", True))
    CU = find_class(inc_t, "CumulativeCell")
    if any(isinstance(n, ast.FunctionDef) for n in CU.body):
        raise Unsupported("CumulativeCell overrides methods")
    if [src(b) for b in CU.bases] != ["Cell"] or [src(b) for b in I.bases] != ["Cell"]:
        raise Unsupported("unexpected base classes of CumulativeCell / IncrementalCell")
    # __eq__
    veq = [n for n in cell_t.body if isinstance(n, ast.FunctionDef) and n.name == "values_eq"]
    if len(veq) != 1:
        raise Unsupported("values_eq not found")
    out.append(gen_values_eq(veq[0]))
    eqf = find_method(C, "__eq__")
    params = [a.arg for a in eqf.args.args]
    conj = [cell_eq_conjunct(e, params) for e in conj_list(only_return(eqf, cell_t, C))]
    out.append("Definition gen_cell_eq (self other : cell) : bool :=\n  " + "\n  && ".join(conj) + ".\n")
    eqi = find_method(I, "__eq__")
    params = [a.arg for a in eqi.args.args]
    conj = [cell_eq_conjunct(e, params) for e in conj_list(only_return(eqi, inc_t, I))]
    out.append("Definition gen_inc_eq (self other : cell) : bool :=\n  " + "\n  && ".join(conj) + ".\n")
    out.append(gen_cell_hash(find_method(C, "__hash__")))
    # NB: defining __eq__ without __hash__ in a subclass sets __hash__ to None in Python
    ih = find_method(I, "__hash__", required=False)
    if ih is None:
        out.append("Definition inc_hashable : bool := false.\n")
    else:
        t = src(only_return(ih, inc_t, I)).replace(" ", "")
        if t != "hash((super().__hash__(),self._prev_evaluation_date))":
            bail(ih, "IncrementalCell.__hash__ has an unrecognised shape")
        out.append("Definition inc_hashable : bool := true.\n")
    T = find_class(tri_t, "Triangle")
    ttxt, feats = gen_triangle(T)
    out.append(ttxt)
    fb = funnel(repo)
    out.append("Definition funnel_violations : nat := %d.\n" % len(fb))
    return "\n".join(out), feats, fb


if __name__ == "__main__":
    repo = Path(sys.argv[1] if len(sys.argv) > 1 else "/repo")
    try:
        txt, feats, fb = translate(repo)
        sys.stdout.write(txt)
        sys.stderr.write(repr(fb) + "\n")
    except Unsupported as ex:
        sys.stderr.write(f"T-order: unsupported construct: {ex}\n")
        sys.exit(3)
