"""T-acc: fail-closed extraction of the decision-carrying tokens of the C13 accessors.

    Triangle.is_disjoint      the comparison guarding `return False` inside the adjacent-period loop
    date_utils._multi_gcd     the reduction operator, the seed indices, the loop start, the
                              single-element shortcut
    date_utils._diff          the subtraction `after - before` over zip(xs[:-1], xs[1:])

Output: Coq text (module GenAcc) defining descriptions whose types live in coq/Model/Accessors.v.  Insensitive to renaming of locals, comments,
docstrings, formatting; anything structurally different raises Unsupported."""
from __future__ import annotations

import ast
from pathlib import Path


class Unsupported(Exception):
    pass


def need(cond, msg):
    if not cond:
        raise Unsupported(msg)


def find_func(tree, name, cls=None):
    body = tree.body
    if cls:
        cs = [n for n in body if isinstance(n, ast.ClassDef) and n.name == cls]
        need(len(cs) == 1, f"class {cls} not found")
        body = cs[0].body
    fs = [n for n in body if isinstance(n, ast.FunctionDef) and n.name == name]
    need(len(fs) == 1, f"function {name} not found")
    return fs[0]


def strip_doc(stmts):
    if stmts and isinstance(stmts[0], ast.Expr) and isinstance(getattr(stmts[0], "value", None), ast.Constant) \
            and isinstance(stmts[0].value.value, str):
        return stmts[1:]
    return stmts


def is_self_attr(node, attr):
    return isinstance(node, ast.Attribute) and node.attr == attr and isinstance(node.value, ast.Name) \
        and node.value.id == "self"


def is_slice_of(node, base_pred, lower, upper):
    """base[lower:upper] with integer constants / None"""
    if not (isinstance(node, ast.Subscript) and base_pred(node.value) and isinstance(node.slice, ast.Slice)):
        return False
    sl = node.slice

    def const(x):
        if x is None:
            return None
        if isinstance(x, ast.UnaryOp) and isinstance(x.op, ast.USub) and isinstance(x.operand, ast.Constant):
            return -x.operand.value
        if isinstance(x, ast.Constant):
            return x.value
        raise Unsupported("non-constant slice bound")

    return sl.step is None and const(sl.lower) == lower and const(sl.upper) == upper


OPS = {ast.GtE: "CGe", ast.Gt: "CGt", ast.LtE: "CLe", ast.Lt: "CLt", ast.Eq: "CEq", ast.NotEq: "CNe"}


def t_is_disjoint(tree):
    f = find_func(tree, "is_disjoint", "Triangle")
    body = strip_doc(f.body)
    need(len(body) == 3, "is_disjoint: expected `if empty`, `for`, `return True`")
    g, loop, ret = body
    need(isinstance(g, ast.If) and is_self_attr(g.test, "is_empty") and len(g.body) == 1 and not g.orelse
         and isinstance(g.body[0], ast.Return) and isinstance(g.body[0].value, ast.Constant)
         and g.body[0].value.value is True, "is_disjoint: empty guard must `return True`")
    need(isinstance(ret, ast.Return) and isinstance(ret.value, ast.Constant) and ret.value.value is True,
         "is_disjoint: final statement must be `return True`")
    need(isinstance(loop, ast.For) and not loop.orelse, "is_disjoint: for loop expected")
    it = loop.iter
    per = lambda n: is_self_attr(n, "periods")  # noqa: E731
    need(isinstance(it, ast.Call) and isinstance(it.func, ast.Name) and it.func.id == "zip" and len(it.args) == 2
         and not it.keywords and is_slice_of(it.args[0], per, None, -1) and is_slice_of(it.args[1], per, 1, None),
         "is_disjoint: loop must run over zip(self.periods[:-1], self.periods[1:])")
    tg = loop.target
    need(isinstance(tg, ast.Tuple) and len(tg.elts) == 2 and all(isinstance(e, ast.Tuple) and len(e.elts) == 2
         and all(isinstance(x, ast.Name) for x in e.elts) for e in tg.elts),
         "is_disjoint: loop target must be ((a, b), (c, d))")
    names = {tg.elts[0].elts[0].id: "PrevStart", tg.elts[0].elts[1].id: "PrevEnd",
             tg.elts[1].elts[0].id: "NextStart", tg.elts[1].elts[1].id: "NextEnd"}
    need(len(names) == 4, "is_disjoint: loop variables must be distinct")
    need(len(loop.body) == 1 and isinstance(loop.body[0], ast.If), "is_disjoint: loop body must be one `if`")
    cond = loop.body[0]
    need(not cond.orelse and len(cond.body) == 1 and isinstance(cond.body[0], ast.Return)
         and isinstance(cond.body[0].value, ast.Constant) and cond.body[0].value.value is False,
         "is_disjoint: the `if` must `return False`")
    c = cond.test
    need(isinstance(c, ast.Compare) and len(c.ops) == 1 and type(c.ops[0]) in OPS
         and isinstance(c.left, ast.Name) and isinstance(c.comparators[0], ast.Name)
         and c.left.id in names and c.comparators[0].id in names,
         "is_disjoint: test must compare two loop variables")
    return f"Definition disjoint_cmp : cmp_desc := mkCmp {names[c.left.id]} {OPS[type(c.ops[0])]} {names[c.comparators[0].id]}."


def call_name(node):
    """'math.gcd' / 'min' ..."""
    if isinstance(node, ast.Attribute) and isinstance(node.value, ast.Name):
        return f"{node.value.id}.{node.attr}"
    if isinstance(node, ast.Name):
        return node.id
    raise Unsupported("unsupported callee")


RED = {"math.gcd": "OpGcd", "gcd": "OpGcd", "min": "OpMin", "max": "OpMax"}


def idx_of(node, base):
    need(isinstance(node, ast.Subscript) and isinstance(node.value, ast.Name) and node.value.id == base
         and isinstance(node.slice, ast.Constant) and isinstance(node.slice.value, int) and node.slice.value >= 0,
         "_multi_gcd: index into the unique list expected")
    return node.slice.value


def t_multi_gcd(tree):
    f = find_func(tree, "_multi_gcd")
    need(len(f.args.args) == 1, "_multi_gcd: one argument")
    xs = f.args.args[0].arg
    body = strip_doc(f.body)
    need(len(body) == 5, "_multi_gcd: expected 5 statements")
    a0, g, seed, loop, ret = body
    need(isinstance(a0, ast.Assign) and len(a0.targets) == 1 and isinstance(a0.targets[0], ast.Name)
         and isinstance(a0.value, ast.Call) and call_name(a0.value.func) == "list" and len(a0.value.args) == 1
         and isinstance(a0.value.args[0], ast.Call) and call_name(a0.value.args[0].func) == "set"
         and len(a0.value.args[0].args) == 1 and isinstance(a0.value.args[0].args[0], ast.Name)
         and a0.value.args[0].args[0].id == xs, "_multi_gcd: first statement must be u = list(set(xs))")
    u = a0.targets[0].id
    t = g.test if isinstance(g, ast.If) else None
    need(t is not None and isinstance(t, ast.Compare) and len(t.ops) == 1 and isinstance(t.ops[0], ast.Eq)
         and isinstance(t.left, ast.Call) and call_name(t.left.func) == "len" and len(t.left.args) == 1
         and isinstance(t.left.args[0], ast.Name) and t.left.args[0].id == u
         and isinstance(t.comparators[0], ast.Constant) and t.comparators[0].value == 1 and not g.orelse
         and len(g.body) == 1 and isinstance(g.body[0], ast.Return),
         "_multi_gcd: expected `if len(u) == 1: return u[i]`")
    single = idx_of(g.body[0].value, u)
    need(isinstance(seed, ast.Assign) and len(seed.targets) == 1 and isinstance(seed.targets[0], ast.Name)
         and isinstance(seed.value, ast.Call) and len(seed.value.args) == 2 and not seed.value.keywords,
         "_multi_gcd: seed must be r = op(u[i], u[j])")
    r = seed.targets[0].id
    op = call_name(seed.value.func)
    need(op in RED, f"_multi_gcd: unknown reduction {op}")
    sa, sb = idx_of(seed.value.args[0], u), idx_of(seed.value.args[1], u)
    need(isinstance(loop, ast.For) and isinstance(loop.target, ast.Name) and not loop.orelse
         and isinstance(loop.iter, ast.Subscript) and isinstance(loop.iter.value, ast.Name) and loop.iter.value.id == u
         and isinstance(loop.iter.slice, ast.Slice) and loop.iter.slice.upper is None and loop.iter.slice.step is None
         and isinstance(loop.iter.slice.lower, ast.Constant) and isinstance(loop.iter.slice.lower.value, int),
         "_multi_gcd: loop must run over u[k:]")
    start = loop.iter.slice.lower.value
    x = loop.target.id
    need(len(loop.body) == 1 and isinstance(loop.body[0], ast.Assign) and len(loop.body[0].targets) == 1
         and isinstance(loop.body[0].targets[0], ast.Name) and loop.body[0].targets[0].id == r
         and isinstance(loop.body[0].value, ast.Call) and call_name(loop.body[0].value.func) == op
         and len(loop.body[0].value.args) == 2
         and sorted(getattr(a, "id", None) for a in loop.body[0].value.args) == sorted([r, x]),
         "_multi_gcd: loop body must be r = op(r, x)")
    need(isinstance(ret, ast.Return) and isinstance(ret.value, ast.Name) and ret.value.id == r,
         "_multi_gcd: must return the accumulator")
    return (f"Definition gcd_desc : red_desc := mkRed {RED[op]} {single}%nat {sa}%nat {sb}%nat {start}%nat.")


def t_diff(tree):
    f = find_func(tree, "_diff")
    need(len(f.args.args) == 1, "_diff: one argument")
    xs = f.args.args[0].arg
    body = strip_doc(f.body)
    need(len(body) == 1 and isinstance(body[0], ast.Return) and isinstance(body[0].value, ast.ListComp),
         "_diff: single list comprehension expected")
    lc = body[0].value
    need(len(lc.generators) == 1 and not lc.generators[0].ifs, "_diff: one generator")
    gen = lc.generators[0]
    isx = lambda n: isinstance(n, ast.Name) and n.id == xs  # noqa: E731
    need(isinstance(gen.iter, ast.Call) and call_name(gen.iter.func) == "zip" and len(gen.iter.args) == 2
         and is_slice_of(gen.iter.args[0], isx, None, -1) and is_slice_of(gen.iter.args[1], isx, 1, None),
         "_diff: must iterate zip(xs[:-1], xs[1:])")
    need(isinstance(gen.target, ast.Tuple) and len(gen.target.elts) == 2
         and all(isinstance(e, ast.Name) for e in gen.target.elts), "_diff: target (before, after)")
    before, after = gen.target.elts[0].id, gen.target.elts[1].id
    e = lc.elt
    need(isinstance(e, ast.BinOp) and isinstance(e.left, ast.Name) and isinstance(e.right, ast.Name)
         and {e.left.id, e.right.id} == {before, after}, "_diff: element must combine the two loop variables")
    opn = {ast.Sub: "BSub", ast.Add: "BAdd"}.get(type(e.op))
    need(opn is not None, "_diff: unsupported operator")
    left = "After" if e.left.id == after else "Before"
    return f"Definition diff_desc : diff_d := mkDiff {opn} {left}."


PRELUDE = """(* GENERATED by translate/t_acc.py from bermuda/triangle.py and bermuda/date_utils.py -- do not edit *)
From Coq Require Import ZArith List.
From Bermuda Require Import Model.Accessors.
"""


def translate(repo: Path) -> str:
    tri = ast.parse((Path(repo) / "bermuda" / "triangle.py").read_text())
    du = ast.parse((Path(repo) / "bermuda" / "date_utils.py").read_text())
    return PRELUDE + "\n".join([t_is_disjoint(tri), t_multi_gcd(du), t_diff(du)]) + "\n"


def t_rt_compare(tree):
    """_make_right_triangle_slice: the `if` of the comprehension compares the wanted lag (loop variable of
    the first generator) with <edge cell>.dev_lag(unit)."""
    f = find_func(tree, "_make_right_triangle_slice")
    body = strip_doc(f.body)
    need(len(body) == 2 and isinstance(body[1], ast.Return) and isinstance(body[1].value, ast.ListComp),
         "_make_right_triangle_slice: expected `if dev_lags is None: ...` and a returned list comprehension")
    lc = body[1].value
    need(len(lc.generators) == 2 and not lc.generators[0].ifs and len(lc.generators[1].ifs) == 1
         and isinstance(lc.generators[0].target, ast.Name) and isinstance(lc.generators[1].target, ast.Name),
         "_make_right_triangle_slice: two generators (lag, edge cell) with one condition expected")
    lag, cell = lc.generators[0].target.id, lc.generators[1].target.id
    it = lc.generators[1].iter
    need(isinstance(it, ast.Attribute) and it.attr == "right_edge", "_make_right_triangle_slice: cells must come from .right_edge")
    c = lc.generators[1].ifs[0]
    need(isinstance(c, ast.Compare) and len(c.ops) == 1 and type(c.ops[0]) in OPS, "comparison expected")

    def side(n):
        if isinstance(n, ast.Name) and n.id == lag:
            return "WantedLag"
        if isinstance(n, ast.Call) and isinstance(n.func, ast.Attribute) and n.func.attr == "dev_lag" \
                and isinstance(n.func.value, ast.Name) and n.func.value.id == cell:
            return "EdgeLag"
        raise Unsupported("_make_right_triangle_slice: operand is neither the wanted lag nor <cell>.dev_lag(unit)")

    return f"Definition rt_cmp : lagcmp_desc := mkLagCmp {side(c.left)} {OPS[type(c.ops[0])]} {side(c.comparators[0])}."


def t_right_edge_index(tree):
    """Triangle.right_edge appends row[<index>] for every slice period row."""
    f = find_func(tree, "right_edge", "Triangle")
    found = []
    for n in ast.walk(f):
        if isinstance(n, ast.Call) and isinstance(n.func, ast.Attribute) and n.func.attr == "append" and len(n.args) == 1:
            a = n.args[0]
            need(isinstance(a, ast.Subscript) and isinstance(a.value, ast.Name), "right_edge: append(row[i]) expected")
            idx = a.slice
            if isinstance(idx, ast.UnaryOp) and isinstance(idx.op, ast.USub) and isinstance(idx.operand, ast.Constant):
                found.append(-idx.operand.value)
            elif isinstance(idx, ast.Constant) and isinstance(idx.value, int):
                found.append(idx.value)
            else:
                raise Unsupported("right_edge: constant index expected")
    need(len(found) == 1, "right_edge: exactly one append(row[i]) expected")
    return f"Definition edge_index : Z := {'(' + str(found[0]) + ')' if found[0] < 0 else found[0]}."


PRELUDE15 = """(* GENERATED by translate/t_acc.py from bermuda/utils/extend.py and bermuda/triangle.py -- do not edit *)
From Coq Require Import ZArith List.
From Bermuda Require Import Model.Accessors Model.Extend.
Local Open Scope Z_scope.
"""


def translate_c15(repo: Path) -> str:
    ext = ast.parse((Path(repo) / "bermuda" / "utils" / "extend.py").read_text())
    tri = ast.parse((Path(repo) / "bermuda" / "triangle.py").read_text())
    return PRELUDE15 + "\n".join([t_rt_compare(ext), t_right_edge_index(tri)]) + "\n"


if __name__ == "__main__":
    import sys

    print(translate(Path(sys.argv[1] if len(sys.argv) > 1 else "/repo")))
    print(translate_c15(Path(sys.argv[1] if len(sys.argv) > 1 else "/repo")))
