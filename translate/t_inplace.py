"""T-inplace -- syntactic screen of bermuda/**/*.py for in-place statements (C03, tie iii).

An *in-place site* is one of
    x op= e                      (`+=`, `-=`, `*=`, `/=`, `|=`, ... -- rebinding for numbers, a WRITE for arrays,
                                  lists, dicts, sets)
    x[i] = e / x[i] op= e / del x[i]      subscript store
    x.a = e / x.a op= e                   attribute store
    x.update(..) / .append / .extend / .insert / .sort / .reverse / .pop / .popitem / .clear / .remove /
    .setdefault / .add / .discard / .fill / .resize / .put / .itemset / .partition / .setflags
    f(..., out=x)                         NumPy output argument
whose *root name* x is not provably a local that was created inside the function (a literal, a
comprehension, an arithmetic result, a call of an allocating constructor such as dict/list/np.zeros/
copy.deepcopy/defaultdict) -- flow-insensitively: EVERY binding of the name must be such an expression.
A write one level deeper (`x[i][j] = e`, `x[k].append(e)`, `x[k] += [e]`) goes into an ELEMENT of x and
is only accepted when x is a `defaultdict(list|dict|set|int|float)` created in the function.

The sites that remain are pinned below (ALLOW) with a reviewed reason each.  A site that is not pinned makes
the obligation fail; the check then searches for a concrete mutated argument with the monitor.

Site keys are insensitive to line numbers, formatting, comments and to renaming of locals (every
function-local name is printed as `_`).  Fail-closed: a file that does not parse raises Unsupported."""
from __future__ import annotations

import ast
from collections import Counter
from pathlib import Path


class Unsupported(Exception):
    pass


MUTATORS = {"update", "append", "extend", "insert", "sort", "reverse", "pop", "popitem", "clear", "remove",
            "setdefault", "add", "discard", "fill", "resize", "put", "itemset", "partition", "setflags",
            "difference_update", "intersection_update", "symmetric_difference_update", "appendleft", "popleft"}
# calls whose result is a new object (or an immutable value)
ALLOCATORS = {"dict", "list", "set", "tuple", "frozenset", "sorted", "defaultdict", "OrderedDict", "Counter",
              "deepcopy", "range", "zip", "map", "filter", "enumerate", "reversed", "str", "int", "float", "bool",
              "len", "sum", "min", "max", "abs", "round", "repr", "hash", "isinstance", "any", "all",
              "array", "zeros", "ones", "empty", "full", "repeat", "tile", "concatenate", "arange", "linspace",
              "zeros_like", "ones_like", "empty_like", "full_like", "cumsum", "cumprod", "diff", "exp", "log",
              "sqrt", "mean", "var", "std", "quantile", "percentile", "searchsorted", "argsort", "stack",
              "vstack", "hstack", "where", "maximum", "minimum", "copy", "astype", "tolist", "format", "join",
              "split", "lower", "upper", "strip", "date", "timedelta", "Triangle", "TriangleSlice", "Cell",
              "CumulativeCell", "IncrementalCell", "Metadata", "DataFrame", "Series", "Matrix", "MatrixIndex",
              "replace", "derive_fields", "derive_metadata", "select", "StringIO", "BytesIO", "default_rng",
              "normal", "lognormal", "gamma", "uniform", "choice", "groupby", "valmap", "namedtuple", "Chart",
              "to_cumulative", "to_incremental", "clip", "filter_", "add_months", "id_to_month", "month_to_id",
              "resolution_delta", "standardize_resolution", "dev_lag", "dev_lags"}
DEFAULT_FACTORIES = {"list", "dict", "set", "int", "float"}


def _root(e):
    depth = 0
    while isinstance(e, (ast.Subscript, ast.Attribute, ast.Starred)):
        if isinstance(e, (ast.Subscript, ast.Attribute)):
            depth += 1
        e = e.value
    return (e.id if isinstance(e, ast.Name) else None), depth, e


def _callee(f):
    if isinstance(f, ast.Name):
        return f.id
    if isinstance(f, ast.Attribute):
        return f.attr
    return None


class _Fn:
    """Flow-insensitive binding table of one function body (nested functions are separate)."""

    def __init__(self, node, qual, is_ctor):
        self.node, self.qual, self.is_ctor = node, qual, is_ctor
        self.params = set()
        a = node.args
        for x in a.posonlyargs + a.args + a.kwonlyargs:
            self.params.add(x.arg)
        if a.vararg:
            self.params.add(a.vararg.arg)
        if a.kwarg:
            self.params.add(a.kwarg.arg)
        self.bind: dict[str, list] = {}
        self.locals = set(self.params)
        self._collect(node)

    def _b(self, target, how):
        if isinstance(target, ast.Name):
            self.bind.setdefault(target.id, []).append(how)
            self.locals.add(target.id)
        elif isinstance(target, (ast.Tuple, ast.List)):
            for t in target.elts:
                self._b(t, ("element", how))
        elif isinstance(target, ast.Starred):
            self._b(target.value, ("element", how))

    def _collect(self, fn):
        for n in _walk_same_scope(fn):
            if isinstance(n, ast.Assign):
                for t in n.targets:
                    self._b(t, ("expr", n.value))
            elif isinstance(n, ast.AnnAssign) and n.value is not None:
                self._b(n.target, ("expr", n.value))
            elif isinstance(n, ast.AugAssign):
                self._b(n.target, ("aug", n.value))
            elif isinstance(n, (ast.For, ast.AsyncFor)):
                self._b(n.target, ("iter", n.iter))
            elif isinstance(n, (ast.With, ast.AsyncWith)):
                for it in n.items:
                    if it.optional_vars is not None:
                        self._b(it.optional_vars, ("with", it.context_expr))
            elif isinstance(n, ast.comprehension):
                self._b(n.target, ("iter", n.iter))
            elif isinstance(n, ast.NamedExpr):
                self._b(n.target, ("expr", n.value))
            elif isinstance(n, ast.ExceptHandler) and n.name:
                self.bind.setdefault(n.name, []).append(("fresh",))
                self.locals.add(n.name)
            elif isinstance(n, (ast.Import, ast.ImportFrom)):
                for al in n.names:
                    self.locals.add((al.asname or al.name).split(".")[0])

    # ---- is the expression a new object / an immutable value?
    def fresh(self, e, seen=()):
        if isinstance(e, (ast.Constant, ast.JoinedStr, ast.Dict, ast.List, ast.Set, ast.Tuple, ast.ListComp,
                          ast.DictComp, ast.SetComp, ast.GeneratorExp, ast.BinOp, ast.UnaryOp, ast.Compare,
                          ast.Lambda)):
            return True
        if isinstance(e, ast.BoolOp):
            return all(self.fresh(v, seen) for v in e.values)
        if isinstance(e, ast.IfExp):
            return self.fresh(e.body, seen) and self.fresh(e.orelse, seen)
        if isinstance(e, ast.Call):
            return _callee(e.func) in ALLOCATORS
        if isinstance(e, ast.Name):
            return self.fresh_name(e.id, seen)
        return False

    def fresh_name(self, name, seen=()):
        if name in seen:
            return True
        if name in self.params or name not in self.bind:
            return False
        for how in self.bind[name]:
            if how[0] == "fresh":
                continue
            if how[0] == "aug":          # x op= e keeps x's own freshness (new object or the same one)
                continue
            if how[0] != "expr" or not self.fresh(how[1], seen + (name,)):
                return False
        return True

    def default_container(self, name):
        """name is only ever bound to defaultdict(list|dict|set|int|float) (no seed)."""
        hows = self.bind.get(name)
        if not hows or name in self.params:
            return False
        for how in hows:
            if how[0] != "expr":
                return False
            e = how[1]
            if not (isinstance(e, ast.Call) and _callee(e.func) == "defaultdict" and len(e.args) == 1
                    and isinstance(e.args[0], ast.Name) and e.args[0].id in DEFAULT_FACTORIES and not e.keywords):
                return False
        return True

    def origin(self, name):
        if name is None:
            return "expression"
        if name in self.params:
            if name in ("self", "cls") and self.is_ctor:
                return "self-in-constructor"
            return "parameter"
        if name not in self.bind:
            return "global" if name not in self.locals else "import"
        if self.fresh_name(name):
            return "fresh-local"
        kinds = sorted({h[0] for h in self.bind[name]})
        return "local-from-" + "+".join(kinds)


def _walk_same_scope(fn):
    """Nodes of the function body, not descending into nested function/class definitions (lambdas and
    comprehensions belong to the enclosing function)."""
    stack = list(ast.iter_child_nodes(fn))
    while stack:
        n = stack.pop()
        yield n
        if isinstance(n, (ast.FunctionDef, ast.AsyncFunctionDef, ast.ClassDef)):
            continue
        stack.extend(ast.iter_child_nodes(n))


class _Anon(ast.NodeTransformer):
    def __init__(self, locals_):
        self.locals = locals_

    def visit_Name(self, n):
        return ast.copy_location(ast.Name(id="_", ctx=n.ctx), n) if n.id in self.locals else n


def _text(node, locals_):
    import copy as _copy

    return ast.unparse(_Anon(locals_).visit(_copy.deepcopy(node)))


def _sites_of(fn: _Fn, rel):
    out = []

    def add(kind, target, stmt, lineno, deep_extra=0):
        name, depth, base = _root(target)
        depth += deep_extra
        org = fn.origin(name)
        ok = False
        if org == "self-in-constructor" and depth == 1:
            ok = True
        elif org == "fresh-local":
            ok = depth <= 1 or (name is not None and fn.default_container(name))
        if ok:
            return
        out.append({
            "file": rel, "function": fn.qual, "kind": kind, "origin": org + ("" if depth <= 1 else f"/depth{depth}"),
            "text": _text(stmt, fn.locals), "line": lineno, "source": ast.unparse(stmt)[:160],
        })

    for n in _walk_same_scope(fn.node):
        if isinstance(n, ast.AugAssign):
            # `x op= e` on a bare name writes the OBJECT x (depth 1 w.r.t. the name) when x is mutable;
            # on x[i] / x.a it reads the element and may write INTO it (one level deeper)
            if isinstance(n.target, ast.Name):
                name = n.target.id
                if fn.origin(name) != "fresh-local":
                    out.append({"file": rel, "function": fn.qual, "kind": "augassign", "origin": fn.origin(name),
                                "text": _text(n, fn.locals), "line": n.lineno, "source": ast.unparse(n)[:160]})
            else:
                add("augassign-store", n.target, n, n.lineno, deep_extra=1)
        elif isinstance(n, (ast.Assign, ast.AnnAssign)):
            targets = n.targets if isinstance(n, ast.Assign) else [n.target]
            flat = []
            for t in targets:
                flat += t.elts if isinstance(t, (ast.Tuple, ast.List)) else [t]
            for t in flat:
                if isinstance(t, (ast.Subscript, ast.Attribute)):
                    add("store", t, n, n.lineno)
        elif isinstance(n, ast.Delete):
            for t in n.targets:
                if isinstance(t, (ast.Subscript, ast.Attribute)):
                    add("delete", t, n, n.lineno)
        elif isinstance(n, ast.Call):
            if isinstance(n.func, ast.Attribute) and n.func.attr in MUTATORS:
                # receiver.mutator(...): writes the receiver object
                recv = n.func.value
                name, depth, _ = _root(recv)
                # `d.pop(k)` / `.setdefault` on dict(..)/.copy() results etc.: receiver must be a name chain
                if isinstance(recv, ast.Call):
                    continue                     # method on a temporary
                add("call." + n.func.attr, ast.Attribute(value=recv, attr=n.func.attr, ctx=ast.Load()), n, n.lineno)
            for kw in n.keywords:
                if kw.arg == "out":
                    add("out=", ast.Attribute(value=kw.value, attr="out", ctx=ast.Load()), n, n.lineno)
    return out


def scan(repo) -> list[dict]:
    """All in-place sites of bermuda/**/*.py whose root is not a fresh local."""
    root = Path(repo) / "bermuda"
    sites = []
    for p in sorted(root.rglob("*.py")):
        rel = str(p.relative_to(Path(repo)))
        try:
            tree = ast.parse(p.read_text())
        except SyntaxError as ex:
            raise Unsupported(f"{rel}: does not parse: {ex}") from ex

        def visit(node, qual, cls):
            for ch in ast.iter_child_nodes(node):
                if isinstance(ch, ast.ClassDef):
                    visit(ch, f"{qual}{ch.name}.", ch.name)
                elif isinstance(ch, (ast.FunctionDef, ast.AsyncFunctionDef)):
                    is_ctor = cls is not None and ch.name in ("__init__", "__post_init__", "__new__", "__setstate__")
                    sites.extend(_sites_of(_Fn(ch, f"{qual}{ch.name}", is_ctor), rel))
                    visit(ch, f"{qual}{ch.name}.", None)
                else:
                    visit(ch, qual, cls)

        visit(tree, "", None)
        # module level statements (e.g. SUMMARIZE_DEFAULTS |= {...}) are executed once at import and do not
        # receive arguments: not screened
    return sites


def key(site) -> str:
    return f"{site['file']}::{site['function']}::{site['kind']}::{site['origin']}::{site['text']}"


def compare(sites, allow=None):
    """Returns (new_sites, vanished_keys).  Multiset comparison: a second copy of a pinned statement in
    the same function is new."""
    allow = ALLOW if allow is None else allow
    have = Counter(key(s) for s in sites)
    new = []
    seen = Counter()
    for s in sites:
        k = key(s)
        seen[k] += 1
        if k not in allow or seen[k] > allow[k][0]:
            new.append(s)
    vanished = [k for k in allow if have.get(k, 0) < allow[k][0]]
    return new, vanished


# ------------------------------------------------------------------------------------------------
# Reviewed allow-list: key -> (count, reason).  Reviewed against /repo at the `fix:` commits (2026-10-01).
# Regenerate candidates with:  python -m translate.t_inplace /repo
ALLOW: dict[str, tuple[int, str]] = {
    'bermuda/date_utils.py::id_to_month::augassign::parameter::_ += 1':
        (1, 'id is an int parameter: `+=` rebinds an immutable number'),
    'bermuda/date_utils.py::resolution_delta::augassign::local-from-aug+element::_ *= -1':
        (1, 'quantity is an int unpacked from the resolution tuple: `*=` rebinds an immutable number'),
    'bermuda/date_utils.py::standardize_resolution::augassign::local-from-aug+element::_ *= 12':
        (1, 'quantity is an int unpacked from the resolution tuple: `*=` rebinds an immutable number'),
    'bermuda/date_utils.py::standardize_resolution::augassign::local-from-aug+element::_ *= 3':
        (1, 'quantity is an int unpacked from the resolution tuple: `*=` rebinds an immutable number'),
    'bermuda/date_utils.py::standardize_resolution::augassign::local-from-aug+element::_ *= 7':
        (1, 'quantity is an int unpacked from the resolution tuple: `*=` rebinds an immutable number'),
    "bermuda/io/array.py::array_data_frame_to_triangle::store::parameter::_['period'] = _['period'].apply(parse_date)":
        (1, 'df was rebound to df.rename(...) (a copy) on the previous line; argument is a DataFrame, not a Triangle/Cell/Metadata'),
    "bermuda/io/array.py::statics_data_frame_to_triangle::store::parameter::_['period'] = _['period'].apply(parse_date)":
        (1, 'df was rebound to df.rename(...) (a copy) on the previous line; argument is a DataFrame, not a Triangle/Cell/Metadata'),
    'bermuda/io/binary_input.py::_BodyRawIO.readinto::store::parameter::_[:_] = _':
        (1, "io.RawIOBase.readinto protocol: filling the caller's buffer is the contract; no Triangle/Cell/Metadata involved"),
    'bermuda/io/data_frame_input.py::_check_index_columns::store::parameter::_[_] = pd.to_datetime(_[_])':
        (1, "converts date columns of the caller's DataFrame in place -- a DataFrame argument, outside C03's Triangle/Cell/Metadata scope (reported as an observation)"),
    'bermuda/io/data_frame_input.py::_create_metadata_details::store::fresh-local/depth2::_[_][_] = _':
        (1, 'details is a local list of dicts created by a comprehension in this function'),
    'bermuda/io/data_frame_input.py::_create_metadata_details::store::fresh-local/depth2::_[_][_] = _[_]':
        (1, 'details is a local list of dicts created by a comprehension in this function'),
    'bermuda/io/data_frame_input.py::long_data_frame_to_triangle::store::fresh-local/depth3::_[_].values[_] = _':
        (1, 'cells is a local dict of Cell objects constructed in this function from data-frame rows; the store goes into the values dict of those new cells (reader, no Triangle argument)'),
    'bermuda/io/data_frame_input.py::long_data_frame_to_triangle::store::fresh-local/depth3::_[_].values[_] = np.array(_)':
        (1, 'cells is a local dict of Cell objects constructed in this function from data-frame rows; the store goes into the values dict of those new cells (reader, no Triangle argument)'),
    'bermuda/io/data_frame_input.py::wide_data_frame_to_triangle::store::local-from-expr::_[_] = None if all((_ is None for _ in _)) else np.array(_)':
        (1, 'values is a dict comprehension built two statements earlier (later rebound by tlz.valfilter, which returns a new dict); its entries are fresh lists/arrays from _clean_list_column'),
    'bermuda/io/data_frame_input.py::wide_data_frame_to_triangle::store::local-from-expr::_[_] = _[0]':
        (1, 'values is a dict comprehension built two statements earlier (later rebound by tlz.valfilter, which returns a new dict); its entries are fresh lists/arrays from _clean_list_column'),
    'bermuda/io/data_frame_input.py::wide_data_frame_to_triangle::store::local-from-expr::_[_] = _[_][0]':
        (1, 'values is a dict comprehension built two statements earlier (later rebound by tlz.valfilter, which returns a new dict); its entries are fresh lists/arrays from _clean_list_column'),
    'bermuda/io/data_frame_output.py::triangle_to_long_data_frame::store::local-from-expr::_.evaluation_date = pd.PeriodIndex(_date_to_period_index(_.evaluation_date))':
        (1, 'df is the DataFrame built in this function from rows'),
    'bermuda/io/data_frame_output.py::triangle_to_long_data_frame::store::local-from-expr::_.period_end = pd.to_datetime(_.period_end)':
        (1, 'df is the DataFrame built in this function from rows'),
    'bermuda/io/data_frame_output.py::triangle_to_long_data_frame::store::local-from-expr::_.period_start = pd.to_datetime(_.period_start)':
        (1, 'df is the DataFrame built in this function from rows'),
    'bermuda/io/data_frame_output.py::triangle_to_long_data_frame::store::local-from-expr::_.prev_evaluation_date = pd.PeriodIndex(_date_to_period_index(_.prev_evaluation_date))':
        (1, 'df is the DataFrame built in this function from rows'),
    'bermuda/io/data_frame_output.py::triangle_to_wide_data_frame::store::local-from-expr::_.evaluation_date = pd.PeriodIndex(_date_to_period_index(_.evaluation_date)).to_timestamp()':
        (1, 'df is the DataFrame built in this function from rows (pd.DataFrame(rows), _drop_constant_scenario)'),
    'bermuda/io/data_frame_output.py::triangle_to_wide_data_frame::store::local-from-expr::_.period_end = pd.to_datetime(_.period_end)':
        (1, 'df is the DataFrame built in this function from rows (pd.DataFrame(rows), _drop_constant_scenario)'),
    'bermuda/io/data_frame_output.py::triangle_to_wide_data_frame::store::local-from-expr::_.period_start = pd.to_datetime(_.period_start)':
        (1, 'df is the DataFrame built in this function from rows (pd.DataFrame(rows), _drop_constant_scenario)'),
    'bermuda/io/data_frame_output.py::triangle_to_wide_data_frame::store::local-from-expr::_.prev_evaluation_date = pd.PeriodIndex(_date_to_period_index(_.prev_evaluation_date))':
        (1, 'df is the DataFrame built in this function from rows (pd.DataFrame(rows), _drop_constant_scenario)'),
    'bermuda/matrix/matrix.py::Matrix.__setitem__::store::parameter/depth2::_.data[_, _, _, _] = _':
        (1, 'Matrix is a mutable container by design (__setitem__); not a Triangle/Cell/Metadata'),
    "bermuda/plot.py::_plot_growth_curve::augassign::local-from-aug+expr::_ += alt.Chart(_).mark_line(opacity=0.2).encode(x=alt.X('dev_lag:Q'), y=alt.Y(f'{_}.metric[{_}]:Q'), detail=f'{_}:N', color=_)":
        (1, 'altair charts define __add__ only: `+=` rebinds to a new LayerChart'),
    "bermuda/plot.py::_plot_mountain::augassign::local-from-aug+expr::_ += _.mark_area().encode(y=alt.Y(f'{_}.q5:Q'), y2=alt.Y2(f'{_}.q95:Q'), color=_, opacity=_)":
        (1, 'altair charts define __add__ only: `+=` rebinds to a new LayerChart'),
    'bermuda/plot.py::_plot_mountain::augassign::local-from-aug+expr::_ += _.mark_point(filled=True, size=100).encode(color=_)':
        (1, 'altair charts define __add__ only: `+=` rebinds to a new LayerChart'),
    "bermuda/plot.py::_plot_mountain::augassign::local-from-aug+expr::_ += _.mark_rule(thickness=5).encode(y=alt.Y(f'{_}.q5:Q').title(_), y2=alt.Y2(f'{_}.q95:Q'), color=_, opacity=_)":
        (1, 'altair charts define __add__ only: `+=` rebinds to a new LayerChart'),
    "bermuda/plot.py::_plot_right_edge::augassign::local-from-aug+expr::_ += alt.Chart(_).mark_area(opacity=0.5).encode(x=alt.X('yearmonth(period_start):T'), y=alt.Y(f'{_}.q5:Q').axis(title='Loss Ratio %', format='.0f'), y2=alt.Y2(f'{_}.q95:Q'), color=alt.Color(f'{_}.field:N'))":
        (1, 'altair charts define __add__ only: `+=` rebinds to a new LayerChart'),
    "bermuda/plot.py::_plot_right_edge::augassign::local-from-aug+expr::_ += alt.Chart(_).mark_line(size=1).encode(x=alt.X('yearmonth(period_start):T', axis=alt.Axis(labelAngle=0)).title('Period Start'), y=alt.Y(f'{_}.mean:Q', scale=alt.Scale(zero=True), axis=alt.Axis(format='.0f')).title('Loss Ratio %'), color=alt.Color(f'{_}.field:N').legend(title=None)).interactive()":
        (1, 'altair charts define __add__ only: `+=` rebinds to a new LayerChart'),
    "bermuda/plot.py::_plot_right_edge::augassign::local-from-aug+expr::_ += alt.Chart(_).mark_point(size=max(20, 100 / _), filled=True, opacity=1).encode(x=alt.X('yearmonth(period_start):T', axis=alt.Axis(labelAngle=0)).title('Period Start'), y=alt.Y(f'{_}.mean:Q', scale=alt.Scale(zero=True), axis=alt.Axis(format='.0f')).title('Loss Ratio %'), color=alt.Color(f'{_}.field:N').legend(title=None), tooltip=[alt.Tooltip('period_start:T', title='Period Start'), alt.Tooltip('period_end:T', title='Period End'), alt.Tooltip('dev_lag:O', title='Dev Lag'), alt.Tooltip('evaluation_date:T', title='Evaluation Date'), alt.Tooltip(f'{_}.tooltip:N', title='Field')])":
        (1, 'altair charts define __add__ only: `+=` rebinds to a new LayerChart'),
    "bermuda/plot.py::_plot_right_edge::augassign::local-from-aug+expr::_ += alt.Chart(_).mark_rule(thickness=3).encode(x=alt.X('yearmonth(period_start):T').title('Period Start'), y=alt.Y(f'{_}.q5:Q').axis(title='Loss Ratio %', format='.0f'), y2=alt.Y2(f'{_}.q95:Q'), color=alt.Color(f'{_}.field:N'))":
        (1, 'altair charts define __add__ only: `+=` rebinds to a new LayerChart'),
    "bermuda/plot.py::_slice_label::augassign::local-from-aug+element+expr::_ += ' '":
        (1, 'label is a str: `+=` rebinds'),
    "bermuda/plot.py::_slice_label::augassign::local-from-aug+element+expr::_ += '; '":
        (1, 'label is a str: `+=` rebinds'),
    'bermuda/plot.py::_slice_label::augassign::local-from-aug+element+expr::_ += _':
        (3, 'label is a str: `+=` rebinds'),
    'bermuda/utils/basis.py::_accident_quarter_to_policy_year_slice::store::local-from-element::_[_] = _ / _':
        (1, 'py_shares iterates the values of accident_quarter_py_shares, a defaultdict(dict) filled in this function (modelled in Heap.v: policy_year_cell)'),
    'bermuda/utils/basis.py::_policy_earned_premium_share_by_month::augassign-store::fresh-local/depth2::_[_ + _] += _':
        (1, 'earned_premium_by_month is a dict comprehension of zeros created in this function; entries are floats'),
    'bermuda/utils/basis.py::_policy_earned_premium_share_by_month::augassign-store::fresh-local/depth2::_[_ + _] += _ / 2':
        (1, 'earned_premium_by_month is a dict comprehension of zeros created in this function; entries are floats'),
    'bermuda/utils/basis.py::_policy_earned_premium_share_by_month::augassign-store::fresh-local/depth2::_[_] += _ / 2':
        (1, 'earned_premium_by_month is a dict comprehension of zeros created in this function; entries are floats'),
    'bermuda/utils/extend.py::make_pred_triangle_complement::call.append::fresh-local/depth2::_[_].append((_.period_start, _.evaluation_date))':
        (1, 'init_cells is a local dict whose list entries are created two lines above in this function'),
}



if __name__ == "__main__":
    import json
    import sys

    ss = scan(sys.argv[1] if len(sys.argv) > 1 else "/repo")
    new, gone = compare(ss)
    for s in ss:
        flag = "NEW " if s in new else "    "
        print(f"{flag}{s['file']}:{s['line']} {s['function']} [{s['kind']}; {s['origin']}] {s['source']}")
    print(f"{len(ss)} sites, {len(new)} not pinned, {len(gone)} pinned but vanished", file=sys.stderr)
    if "--json" in sys.argv:
        print(json.dumps({key(s): [1, ""] for s in ss}, indent=1))
