"""T-stateless -- syntactic screen of bermuda/**/*.py for HIDDEN STATE that outlives a call.

Every model in coq/Model is a Gallina FUNCTION of the operation's arguments (plus explicit oracles for draws):
"the result of a call does not depend on which calls were made before it in the process" is an assumption of
the whole development.  This screen ties that assumption to the source text on every run.  A *state site* is

    G  a `global` / `nonlocal` statement
    D  a parameter default that is not an immutable constant (None, number, string, bytes, bool, Ellipsis, a tuple
       of such, a negative number, an attribute/name reference such as `np.nan` or a module constant) -- a list /
       dict / set display, a comprehension, or ANY call (`bytearray(4)`, `_State()`): evaluated once at import,
       shared by all calls
    M  a write through a module-level name bound to a mutable container or object (list / dict / set display or a call
       at module level), from inside a function: `NAME op= e`, `NAME[i] = e`, `NAME.update(..)` and the other mutator
       methods, also through a local alias bound by `alias = NAME`
    C  a memoising decorator (`cache`, `lru_cache`, `cached_property`, `cached`) -- state by design, pinned with reason

The sites found in the unchanged tree are pinned in PINNED with a reviewed reason each; a site that is not pinned
(or a pinned D-site whose parameter is now also written to in the body) makes the obligation fail.  The check then runs the
sequence oracles of harness/statecarry.py to find a concrete sequence of calls on which a result depends on an earlier
call.  Keys are insensitive to line numbers and formatting.  Fail closed: a file that does not parse raises Unsupported."""
from __future__ import annotations

import ast
from pathlib import Path


class Unsupported(Exception):
    pass


MUTATORS = {"update", "append", "extend", "insert", "sort", "reverse", "pop", "popitem", "clear", "remove",
            "setdefault", "add", "discard", "fill", "resize", "put", "itemset", "setflags", "write", "seek", "truncate",
            "readinto", "difference_update", "intersection_update", "symmetric_difference_update", "appendleft", "popleft",
            "__setitem__", "__delitem__", "__ior__", "__iadd__"}
MEMO = {"cache", "lru_cache", "cached_property", "cached", "memoize"}


def _immutable_const(e) -> bool:
    if isinstance(e, ast.Constant):
        return True
    if isinstance(e, ast.UnaryOp) and isinstance(e.op, (ast.USub, ast.UAdd)) and _immutable_const(e.operand):
        return True
    if isinstance(e, ast.Tuple):
        return all(_immutable_const(x) for x in e.elts)
    if isinstance(e, ast.Lambda):                        # a function object: immutable
        return True
    if isinstance(e, (ast.Name, ast.Attribute)):         # a reference (np.nan, SOME_CONSTANT); mutable module names are M's business
        return True
    return False


def _mutable_expr(e) -> bool:
    return isinstance(e, (ast.List, ast.Dict, ast.Set, ast.ListComp, ast.DictComp, ast.SetComp, ast.Call))


def _root(e):
    while isinstance(e, (ast.Subscript, ast.Attribute)):
        e = e.value
    return e.id if isinstance(e, ast.Name) else None


def _dec_name(d):
    if isinstance(d, ast.Call):
        d = d.func
    if isinstance(d, ast.Attribute):
        return d.attr
    if isinstance(d, ast.Name):
        return d.id
    return None


def _writes(fn, names):
    """names (a set) written IN PLACE inside function node fn -> list of (name, how)"""
    out = []
    alias = {}
    for node in ast.walk(fn):
        if isinstance(node, ast.Assign) and len(node.targets) == 1 and isinstance(node.targets[0], ast.Name) \
                and isinstance(node.value, ast.Name) and node.value.id in names:
            alias[node.targets[0].id] = node.value.id
    watch = set(names) | set(alias)

    def canon(n):
        return alias.get(n, n)

    for node in ast.walk(fn):
        if isinstance(node, ast.AugAssign):
            r = _root(node.target)
            if r in watch:
                out.append((canon(r), "augmented assignment"))
        elif isinstance(node, (ast.Assign, ast.Delete)):
            for t in node.targets:
                if isinstance(t, (ast.Subscript, ast.Attribute)) and _root(t) in watch:
                    out.append((canon(_root(t)), "item / attribute store"))
        elif isinstance(node, ast.Call) and isinstance(node.func, ast.Attribute) and node.func.attr in MUTATORS:
            r = _root(node.func.value)
            if r in watch:
                out.append((canon(r), "." + node.func.attr + "()"))
        if isinstance(node, ast.Call):
            for a in list(node.args) + [k.value for k in node.keywords]:
                if isinstance(a, ast.Name) and a.id in watch and isinstance(node.func, ast.Attribute) \
                        and node.func.attr in ("readinto", "readinto1", "recv_into"):
                    out.append((canon(a.id), "filled by ." + node.func.attr + "()"))
    return out


def scan(repo) -> list[str]:
    repo = Path(repo)
    sites = []
    for f in sorted((repo / "bermuda").rglob("*.py")):
        rel = f.relative_to(repo).as_posix()
        try:
            tree = ast.parse(f.read_text())
        except SyntaxError as ex:
            raise Unsupported(f"{rel} does not parse: {ex}")
        module_mut = set()
        for st in tree.body:
            tgts = []
            if isinstance(st, ast.Assign):
                tgts, val = st.targets, st.value
            elif isinstance(st, ast.AnnAssign) and st.value is not None:
                tgts, val = [st.target], st.value
            for t in tgts:
                if isinstance(t, ast.Name) and _mutable_expr(val):
                    module_mut.add(t.id)

        def visit(node, qual):
            for ch in ast.iter_child_nodes(node):
                if isinstance(ch, (ast.FunctionDef, ast.AsyncFunctionDef)):
                    q = f"{qual}.{ch.name}" if qual else ch.name
                    for d in ch.decorator_list:
                        if _dec_name(d) in MEMO:
                            sites.append(f"C {rel}:{q} @{_dec_name(d)}")
                    a = ch.args
                    pos = a.posonlyargs + a.args
                    pairs = list(zip(pos[len(pos) - len(a.defaults):], a.defaults)) + \
                        [(p, d) for p, d in zip(a.kwonlyargs, a.kw_defaults) if d is not None]
                    mutable_params = set()
                    for p, d in pairs:
                        if not _immutable_const(d):
                            mutable_params.add(p.arg)
                            sites.append(f"D {rel}:{q}({p.arg}={ast.unparse(d)})")
                    for name, how in sorted(set(_writes(ch, mutable_params))):
                        sites.append(f"D! {rel}:{q}: default of `{name}` written in the body ({how})")
                    own = {n.id for n in ast.walk(ch) if isinstance(n, ast.Name) and isinstance(n.ctx, ast.Store)} | \
                        {x.arg for x in pos + a.kwonlyargs}
                    globs = {n for s in ast.walk(ch) if isinstance(s, ast.Global) for n in s.names}
                    shadowed = (own - globs)
                    for name, how in sorted(set(_writes(ch, {m for m in module_mut if m not in shadowed}))):
                        sites.append(f"M {rel}:{q}: module-level `{name}` written ({how})")
                    for s in ast.walk(ch):
                        if isinstance(s, (ast.Global, ast.Nonlocal)) and s in ch.body or \
                                (isinstance(s, (ast.Global, ast.Nonlocal)) and any(s in getattr(b, "body", []) for b in ast.walk(ch))):
                            sites.append(f"G {rel}:{q}: {type(s).__name__.lower()} {', '.join(s.names)}")
                    visit(ch, q)
                elif isinstance(ch, ast.ClassDef):
                    visit(ch, f"{qual}.{ch.name}" if qual else ch.name)
                else:
                    visit(ch, qual)

        visit(tree, "")
    return sorted(set(sites))


# sites of the unchanged tree, each with the reason it does not make a result depend on earlier calls
PINNED = {
    'C bermuda/plot.py:build_plot_data @cache':
        "memo keyed by triangle equality; C20's cache probe and derived-input stream (finding P2 for the shared result)",
    'C bermuda/triangle.py:Triangle.common_metadata @cached_property':
        'per-object memo of a function of the immutable cell list; C13 compares every accessor with the cells on derived triangles (aliasing of the handed-out list: finding A1)',
    'C bermuda/triangle.py:Triangle.eval_date_resolution @cached_property':
        'per-object memo of a function of the immutable cell list; C13 compares every accessor with the cells on derived triangles (aliasing of the handed-out list: finding A1)',
    'C bermuda/triangle.py:Triangle.evaluation_date @cached_property':
        'per-object memo of a function of the immutable cell list; C13 compares every accessor with the cells on derived triangles (aliasing of the handed-out list: finding A1)',
    'C bermuda/triangle.py:Triangle.evaluation_dates @cached_property':
        'per-object memo of a function of the immutable cell list; C13 compares every accessor with the cells on derived triangles (aliasing of the handed-out list: finding A1)',
    'C bermuda/triangle.py:Triangle.experience_gaps @cached_property':
        'per-object memo of a function of the immutable cell list; C13 compares every accessor with the cells on derived triangles (aliasing of the handed-out list: finding A1)',
    'C bermuda/triangle.py:Triangle.field_cell_counts @cached_property':
        'per-object memo of a function of the immutable cell list; C13 compares every accessor with the cells on derived triangles (aliasing of the handed-out list: finding A1)',
    'C bermuda/triangle.py:Triangle.field_slice_counts @cached_property':
        'per-object memo of a function of the immutable cell list; C13 compares every accessor with the cells on derived triangles (aliasing of the handed-out list: finding A1)',
    'C bermuda/triangle.py:Triangle.fields @cached_property':
        'per-object memo of a function of the immutable cell list; C13 compares every accessor with the cells on derived triangles (aliasing of the handed-out list: finding A1)',
    'C bermuda/triangle.py:Triangle.has_consistent_currency @cached_property':
        'per-object memo of a function of the immutable cell list; C13 compares every accessor with the cells on derived triangles (aliasing of the handed-out list: finding A1)',
    'C bermuda/triangle.py:Triangle.has_consistent_risk_basis @cached_property':
        'per-object memo of a function of the immutable cell list; C13 compares every accessor with the cells on derived triangles (aliasing of the handed-out list: finding A1)',
    'C bermuda/triangle.py:Triangle.has_consistent_values_shapes @cached_property':
        'per-object memo of a function of the immutable cell list; C13 compares every accessor with the cells on derived triangles (aliasing of the handed-out list: finding A1)',
    'C bermuda/triangle.py:Triangle.is_disjoint @cached_property':
        'per-object memo of a function of the immutable cell list; C13 compares every accessor with the cells on derived triangles (aliasing of the handed-out list: finding A1)',
    'C bermuda/triangle.py:Triangle.is_empty @cached_property':
        'per-object memo of a function of the immutable cell list; C13 compares every accessor with the cells on derived triangles (aliasing of the handed-out list: finding A1)',
    'C bermuda/triangle.py:Triangle.is_incremental @cached_property':
        'per-object memo of a function of the immutable cell list; C13 compares every accessor with the cells on derived triangles (aliasing of the handed-out list: finding A1)',
    'C bermuda/triangle.py:Triangle.is_multi_slice @cached_property':
        'per-object memo of a function of the immutable cell list; C13 compares every accessor with the cells on derived triangles (aliasing of the handed-out list: finding A1)',
    'C bermuda/triangle.py:Triangle.is_slicewise_disjoint @cached_property':
        'per-object memo of a function of the immutable cell list; C13 compares every accessor with the cells on derived triangles (aliasing of the handed-out list: finding A1)',
    'C bermuda/triangle.py:Triangle.metadata @cached_property':
        'per-object memo of a function of the immutable cell list; C13 compares every accessor with the cells on derived triangles (aliasing of the handed-out list: finding A1)',
    'C bermuda/triangle.py:Triangle.metadata_differences @cached_property':
        'per-object memo of a function of the immutable cell list; C13 compares every accessor with the cells on derived triangles (aliasing of the handed-out list: finding A1)',
    'C bermuda/triangle.py:Triangle.num_samples @cached_property':
        'per-object memo of a function of the immutable cell list; C13 compares every accessor with the cells on derived triangles (aliasing of the handed-out list: finding A1)',
    'C bermuda/triangle.py:Triangle.period_resolution @cached_property':
        'per-object memo of a function of the immutable cell list; C13 compares every accessor with the cells on derived triangles (aliasing of the handed-out list: finding A1)',
    'C bermuda/triangle.py:Triangle.periods @cached_property':
        'per-object memo of a function of the immutable cell list; C13 compares every accessor with the cells on derived triangles (aliasing of the handed-out list: finding A1)',
    "D bermuda/plot.py:plot_atas(metric_spec=['Paid ATA'])":
        'mutable display evaluated once but only READ in the body (a write would add a D! site)',
    "D bermuda/plot.py:plot_ballistic(axis_metrics={'Paid Loss Ratio': lambda cell: 100 * cell['paid_loss'] / cell['earned_premium'], 'Reported Loss Ratio': lambda cell: 100 * cell['reported_loss'] / cell['earned_premium']})":
        'mutable display evaluated once but only READ in the body (a write would add a D! site)',
    "D bermuda/plot.py:plot_broom(axis_metrics={'Paid/Reported Ratio': lambda cell: cell['paid_loss'] / cell['reported_loss'], 'Paid Loss Ratio': lambda cell: 100 * cell['paid_loss'] / cell['earned_premium']})":
        'mutable display evaluated once but only READ in the body (a write would add a D! site)',
    "D bermuda/plot.py:plot_drip(axis_metrics={'Reported Loss Ratio': lambda cell: 100 * cell['reported_loss'] / cell['earned_premium'], 'Open Claim Share': lambda cell: 100 * cell['open_claims'] / cell['reported_claims']})":
        'mutable display evaluated once but only READ in the body (a write would add a D! site)',
    "D bermuda/plot.py:plot_growth_curve(metric_spec=['Paid Loss Ratio'])":
        'mutable display evaluated once but only READ in the body (a write would add a D! site)',
    "D bermuda/plot.py:plot_heatmap(metric_spec=['Paid Loss Ratio'])":
        'mutable display evaluated once but only READ in the body (a write would add a D! site)',
    "D bermuda/plot.py:plot_hose(axis_metrics={'Paid Loss Ratio': lambda cell: 100 * cell['paid_loss'] / cell['earned_premium'], 'Incremental Paid Loss Ratio': lambda cell, prev_cell: 100 * (cell['paid_loss'] / cell['earned_premium'] - prev_cell['paid_loss'] / prev_cell['earned_premium'])})":
        'mutable display evaluated once but only READ in the body (a write would add a D! site)',
    "D bermuda/plot.py:plot_mountain(metric_spec=['Paid Loss Ratio'])":
        'mutable display evaluated once but only READ in the body (a write would add a D! site)',
    "D bermuda/plot.py:plot_sunset(metric_spec=['Paid Incremental ATA'])":
        'mutable display evaluated once but only READ in the body (a write would add a D! site)',
    'D bermuda/utils/aggregate.py:aggregate(eval_origin=datetime.date(1999, 12, 31))':
        'immutable date object',
    'D bermuda/utils/aggregate.py:aggregate(period_origin=datetime.date(1999, 12, 31))':
        'immutable date object',
    "D bermuda/utils/backfill.py:backfill(static_fields=['earned_premium'])":
        'mutable display evaluated once but only READ in the body (a write would add a D! site)',
    'D bermuda/utils/basis.py:_accident_quarter_to_policy_year_slice(policy_year_origin=datetime.date(2020, 1, 1))':
        'immutable date object',
    'D bermuda/utils/basis.py:accident_quarter_to_policy_year(policy_year_origin=datetime.date(2020, 1, 1))':
        'immutable date object',
    "D bermuda/utils/fields.py:add_statics(statics=['earned_premium', 'earned_exposure'])":
        'mutable display evaluated once but only READ in the body (a write would add a D! site)',
    'G bermuda/io/binary_input.py:_open_s3_stream: global _S3':
        'lazily created S3 client (network path, outside every property)',
}


def compare(sites):
    new = [s for s in sites if s not in PINNED]
    gone = [s for s in PINNED if s not in sites]
    return new, gone


if __name__ == "__main__":
    import sys

    for s in scan(sys.argv[1] if len(sys.argv) > 1 else "/repo"):
        print(("   " if s in PINNED else "NEW") + " " + s)
