"""T-frame: fail-closed extraction of the decision-carrying parts of the data-frame readers and of the
Matrix index arithmetic into build/C14/GenFrame.v.

From bermuda/io/data_frame_input.py
  * the constants INDEX_CUM_COLUMNS, INDEX_COLUMNS, METADATA_COLUMNS, CORE_SET (evaluated by a
    tiny evaluator for list literals, `+`, names, `set(...)`);
  * the `df.groupby([...] + [col for col in METADATA_COLUMNS[a:b] if col in df.columns] + detail_cols
    + loss_detail_cols, dropna=False)` key list of wide_data_frame_to_triangle and of
    long_data_frame_to_triangle, as a list of key parts
        KCol "name" | KOpt "name" (taken iff present in df.columns) | KDetail | KLoss;
  * the column list of `group_df.sort_values([...])` inside `if len(group_df) > 1:` of each reader;
  * the (column, attribute) pairs of `_clean_metadata_column(df, "<col>", metadata.<attr>)` in
    _create_metadata.
From bermuda/matrix/index.py, bermuda/io/matrix.py, bermuda/io/rich_matrix.py
  * which step the development index is divided by (`ndx_resolution` of _resolve_dev_ndx) and which step
    matrix_to_triangle / rich_matrix_to_triangle multiply the index by:  SMin | SDev | SExp.

Anything of another shape raises Unsupported (the check then reports a failed obligation and searches for
a failing input with the direct oracles)."""
from __future__ import annotations

import ast
from pathlib import Path


class Unsupported(Exception):
    pass


def _fn(tree, name):
    for n in ast.walk(tree):
        if isinstance(n, ast.FunctionDef) and n.name == name:
            return n
    raise Unsupported(f"function {name} not found")


def _src(n):
    try:
        return ast.unparse(n)
    except Exception:  # noqa: BLE001
        return type(n).__name__


# ------------------------------------------------------------------ constants
def eval_const(node, env):
    """list-of-strings evaluator: list literal, Name, a + b, set(x), x[a:b]"""
    if isinstance(node, ast.List):
        out = []
        for e in node.elts:
            if not (isinstance(e, ast.Constant) and isinstance(e.value, str)):
                raise Unsupported(f"non-string list element {_src(e)}")
            out.append(e.value)
        return out
    if isinstance(node, ast.Name):
        if node.id not in env:
            raise Unsupported(f"unknown name {node.id} in constant expression")
        return list(env[node.id])
    if isinstance(node, ast.BinOp) and isinstance(node.op, ast.Add):
        return eval_const(node.left, env) + eval_const(node.right, env)
    if isinstance(node, ast.Call) and isinstance(node.func, ast.Name) and node.func.id == "set" \
            and len(node.args) == 1 and not node.keywords:
        seen, out = set(), []
        for x in eval_const(node.args[0], env):
            if x not in seen:
                seen.add(x)
                out.append(x)
        return out
    if isinstance(node, ast.Subscript) and isinstance(node.slice, ast.Slice):
        base = eval_const(node.value, env)
        sl = node.slice

        def ival(x):
            if x is None:
                return None
            if isinstance(x, ast.Constant) and isinstance(x.value, int):
                return x.value
            if isinstance(x, ast.UnaryOp) and isinstance(x.op, ast.USub) and isinstance(x.operand, ast.Constant):
                return -x.operand.value
            raise Unsupported(f"slice bound {_src(x)}")
        if sl.step is not None:
            raise Unsupported("slice step")
        return base[ival(sl.lower):ival(sl.upper)]
    raise Unsupported(f"constant expression {_src(node)}")


def module_consts(tree):
    env = {}
    for st in tree.body:
        if isinstance(st, ast.Assign) and len(st.targets) == 1 and isinstance(st.targets[0], ast.Name):
            name = st.targets[0].id
            if name in ("INDEX_CUM_COLUMNS", "INDEX_COLUMNS", "METADATA_COLUMNS", "CORE_SET"):
                env[name] = eval_const(st.value, env)
    for k in ("INDEX_CUM_COLUMNS", "INDEX_COLUMNS", "METADATA_COLUMNS", "CORE_SET"):
        if k not in env:
            raise Unsupported(f"constant {k} not found")
    return env


# ------------------------------------------------------------------ groupby key lists
def key_parts(node, env):
    """BinOp(+) chain -> list of ('col', name) | ('opt', name) | ('detail',) | ('loss',)"""
    if isinstance(node, ast.BinOp) and isinstance(node.op, ast.Add):
        return key_parts(node.left, env) + key_parts(node.right, env)
    if isinstance(node, ast.List):
        return [("col", c) for c in eval_const(node, env)]
    if isinstance(node, ast.Name):
        if node.id == "detail_cols":
            return [("detail",)]
        if node.id == "loss_detail_cols":
            return [("loss",)]
        if node.id in env:
            return [("col", c) for c in env[node.id]]
        raise Unsupported(f"unknown name {node.id} in groupby key")
    if isinstance(node, ast.Subscript):
        return [("col", c) for c in eval_const(node, env)]
    if isinstance(node, ast.ListComp):
        # [col for col in <const list> if col in df.columns]
        if len(node.generators) != 1:
            raise Unsupported("nested comprehension in groupby key")
        g = node.generators[0]
        if not (isinstance(g.target, ast.Name) and isinstance(node.elt, ast.Name) and node.elt.id == g.target.id):
            raise Unsupported(f"comprehension element {_src(node.elt)}")
        base = eval_const(g.iter, env)
        if not g.ifs:
            return [("col", c) for c in base]
        if len(g.ifs) != 1:
            raise Unsupported("several conditions in groupby comprehension")
        c = g.ifs[0]
        ok = (isinstance(c, ast.Compare) and len(c.ops) == 1 and isinstance(c.ops[0], ast.In)
              and isinstance(c.left, ast.Name) and c.left.id == g.target.id
              and isinstance(c.comparators[0], ast.Attribute) and c.comparators[0].attr == "columns"
              and isinstance(c.comparators[0].value, ast.Name) and c.comparators[0].value.id == "df")
        if not ok:
            raise Unsupported(f"comprehension condition {_src(c)}")
        return [("opt", x) for x in base]
    raise Unsupported(f"groupby key part {_src(node)}")


def reader_spec(fn, env):
    """(key parts, sort columns) of one reader function"""
    loops = []
    for n in ast.walk(fn):
        if isinstance(n, ast.For) and isinstance(n.iter, ast.Call) and isinstance(n.iter.func, ast.Attribute) \
                and n.iter.func.attr == "groupby":
            loops.append(n)
    if len(loops) != 1:
        raise Unsupported(f"{fn.name}: expected exactly one `for ... in df.groupby(...)` loop, found {len(loops)}")
    loop = loops[0]
    call = loop.iter
    if not (isinstance(call.func.value, ast.Name) and call.func.value.id == "df"):
        raise Unsupported(f"{fn.name}: groupby on {_src(call.func.value)}")
    if len(call.args) != 1:
        raise Unsupported(f"{fn.name}: groupby positional arguments")
    kws = {k.arg: k.value for k in call.keywords}
    if set(kws) != {"dropna"} or not (isinstance(kws["dropna"], ast.Constant) and kws["dropna"].value is False):
        raise Unsupported(f"{fn.name}: groupby keywords {sorted(kws)} (expected dropna=False)")
    parts = key_parts(call.args[0], env)
    # sort_values inside `if len(group_df) > 1:`
    sort_cols = []
    gname = None
    tgt = loop.target
    if isinstance(tgt, ast.Tuple) and len(tgt.elts) == 2 and isinstance(tgt.elts[1], ast.Name):
        gname = tgt.elts[1].id
    else:
        raise Unsupported(f"{fn.name}: groupby loop target {_src(tgt)}")
    for st in loop.body:
        if isinstance(st, ast.If):
            t = st.test
            is_len = (isinstance(t, ast.Compare) and len(t.ops) == 1 and isinstance(t.ops[0], ast.Gt)
                      and isinstance(t.left, ast.Call) and isinstance(t.left.func, ast.Name) and t.left.func.id == "len"
                      and len(t.left.args) == 1 and isinstance(t.left.args[0], ast.Name) and t.left.args[0].id == gname
                      and isinstance(t.comparators[0], ast.Constant) and t.comparators[0].value == 1)
            if not is_len:
                continue
            for n in ast.walk(st):
                if isinstance(n, ast.Call) and isinstance(n.func, ast.Attribute) and n.func.attr == "sort_values":
                    if not (isinstance(n.func.value, ast.Name) and n.func.value.id == gname):
                        raise Unsupported(f"{fn.name}: sort_values on {_src(n.func.value)}")
                    if len(n.args) != 1 or n.keywords:
                        raise Unsupported(f"{fn.name}: sort_values arguments {_src(n)}")
                    # must be assigned back to the group variable
                    sort_cols = eval_const(n.args[0], env)
            for n in ast.walk(st):
                if isinstance(n, ast.Assign) and isinstance(n.value, ast.Call) and isinstance(n.value.func, ast.Attribute) \
                        and n.value.func.attr == "sort_values":
                    if not (len(n.targets) == 1 and isinstance(n.targets[0], ast.Name) and n.targets[0].id == gname):
                        raise Unsupported(f"{fn.name}: sorted group assigned to {_src(n.targets[0])}")
    for n in ast.walk(loop):
        if isinstance(n, ast.Call) and isinstance(n.func, ast.Attribute) and n.func.attr == "sort_values":
            if not sort_cols:
                raise Unsupported(f"{fn.name}: sort_values outside `if len({gname}) > 1`")
    return parts, sort_cols


def meta_attr_pairs(fn):
    out = []
    for n in ast.walk(fn):
        if isinstance(n, ast.Call) and isinstance(n.func, ast.Name) and n.func.id == "_clean_metadata_column":
            if len(n.args) != 3 or n.keywords:
                raise Unsupported(f"_clean_metadata_column call {_src(n)}")
            d, c, a = n.args
            if not (isinstance(d, ast.Name) and d.id == "df" and isinstance(c, ast.Constant) and isinstance(c.value, str)
                    and isinstance(a, ast.Attribute) and isinstance(a.value, ast.Name) and a.value.id == "metadata"):
                raise Unsupported(f"_clean_metadata_column call {_src(n)}")
            out.append((c.value, a.attr, n.lineno))
    # which variable feeds which Metadata(...) keyword
    targets = {}
    for n in ast.walk(fn):
        if isinstance(n, ast.Assign) and isinstance(n.value, ast.Call) and isinstance(n.value.func, ast.Name) \
                and n.value.func.id == "_clean_metadata_column" and len(n.targets) == 1 and isinstance(n.targets[0], ast.Name):
            targets[n.targets[0].id] = n.value.args[1].value
    # the list comprehension Metadata(kw=var ...) for (var...) in zip(lists...)
    for n in ast.walk(fn):
        if isinstance(n, ast.ListComp) and isinstance(n.elt, ast.Call) and isinstance(n.elt.func, ast.Name) \
                and n.elt.func.id == "Metadata":
            g = n.generators[0]
            if not (isinstance(g.iter, ast.Call) and isinstance(g.iter.func, ast.Name) and g.iter.func.id == "zip"
                    and isinstance(g.target, ast.Tuple) and len(g.target.elts) == len(g.iter.args)):
                raise Unsupported("Metadata comprehension is not `for (...) in zip(...)`")
            loopvar_to_list = {}
            for v, l in zip(g.target.elts, g.iter.args):
                if not (isinstance(v, ast.Name) and isinstance(l, ast.Name)):
                    raise Unsupported("Metadata comprehension zip arguments")
                loopvar_to_list[v.id] = l.id
            pairs = []
            for kw in n.elt.keywords:
                if not isinstance(kw.value, ast.Name) or kw.value.id not in loopvar_to_list:
                    raise Unsupported(f"Metadata keyword {kw.arg}={_src(kw.value)}")
                lst = loopvar_to_list[kw.value.id]
                if lst in targets:
                    pairs.append((targets[lst], kw.arg))
            # attribute used as default must be the keyword's attribute too
            dflt = {c: a for c, a, _ in out}
            for col, attr in pairs:
                if dflt.get(col) != attr:
                    # column `col` read with default metadata.<dflt[col]> but stored into attr
                    return [(col, attr if dflt.get(col) == col else f"{attr}|default:{dflt.get(col)}") for col, attr in pairs]
            return pairs
    raise Unsupported("_create_metadata: Metadata(...) comprehension not found")


# ------------------------------------------------------------------ matrix steps
def step_kind(node, prefix_ok, local=None):
    """min(<x>._dev_resolution, <x>._exp_resolution) | <x>._dev_resolution | <x>._exp_resolution"""
    local = local or {}
    if isinstance(node, ast.Name) and node.id in local:
        rest = {k: v for k, v in local.items() if k != node.id}      # follow local aliases, no cycles
        return step_kind(local[node.id], prefix_ok, rest)
    if isinstance(node, ast.Attribute) and prefix_ok(node.value):
        if node.attr in ("_dev_resolution", "dev_resolution"):
            return "SDev"
        if node.attr in ("_exp_resolution", "exp_resolution"):
            return "SExp"
    if isinstance(node, ast.Call) and isinstance(node.func, ast.Name) and node.func.id == "min" \
            and len(node.args) == 2 and not node.keywords:
        ks = {step_kind(a, prefix_ok, local) for a in node.args}
        if ks == {"SDev", "SExp"}:
            return "SMin"
        if len(ks) == 1:
            return ks.pop()
    raise Unsupported(f"development step expression {_src(node)}")


def is_self(n):
    return isinstance(n, ast.Name) and n.id == "self"


def is_mat_index(n):
    return (isinstance(n, ast.Attribute) and n.attr == "index" and isinstance(n.value, ast.Name) and n.value.id == "mat")


def resolve_step(tree):
    fn = _fn(tree, "_resolve_dev_ndx")
    local = {}
    found = None
    for n in ast.walk(fn):
        if isinstance(n, ast.Assign) and len(n.targets) == 1 and isinstance(n.targets[0], ast.Name):
            local[n.targets[0].id] = n.value
    for n in ast.walk(fn):
        # arg_ndx = int((arg - self._dev_origin) / <step>)
        if isinstance(n, ast.Call) and isinstance(n.func, ast.Name) and n.func.id == "int" and len(n.args) == 1:
            e = n.args[0]
            if isinstance(e, ast.BinOp) and isinstance(e.op, ast.Div):
                num = e.left
                ok = (isinstance(num, ast.BinOp) and isinstance(num.op, ast.Sub) and isinstance(num.left, ast.Name)
                      and num.left.id == "arg" and isinstance(num.right, ast.Attribute) and is_self(num.right.value)
                      and num.right.attr == "_dev_origin")
                if not ok:
                    raise Unsupported(f"_resolve_dev_ndx numerator {_src(num)}")
                if found is not None:
                    raise Unsupported("_resolve_dev_ndx: several index computations")
                found = step_kind(e.right, is_self, local)
            else:
                raise Unsupported(f"_resolve_dev_ndx: int({_src(e)})")
    if found is None:
        raise Unsupported("_resolve_dev_ndx: `int((arg - self._dev_origin) / step)` not found")
    return found


def inverse_step(tree, fname):
    fn = _fn(tree, fname)
    local = {}
    for st in fn.body:
        if isinstance(st, ast.Assign) and len(st.targets) == 1 and isinstance(st.targets[0], ast.Name):
            local[st.targets[0].id] = st.value
    if "dev_lags" not in local or not isinstance(local["dev_lags"], ast.ListComp):
        raise Unsupported(f"{fname}: dev_lags list comprehension not found")
    lc = local["dev_lags"]
    g = lc.generators[0]
    ok_iter = (isinstance(g.iter, ast.Call) and isinstance(g.iter.func, ast.Name) and g.iter.func.id == "range"
               and len(g.iter.args) == 1 and isinstance(g.target, ast.Name) and not g.ifs)
    if not ok_iter:
        raise Unsupported(f"{fname}: dev_lags iteration {_src(g.iter)}")
    i = g.target.id
    e = lc.elt
    if not (isinstance(e, ast.Call) and isinstance(e.func, ast.Name) and e.func.id == "float" and len(e.args) == 1):
        raise Unsupported(f"{fname}: dev_lags element {_src(e)}")
    e = e.args[0]
    ok = (isinstance(e, ast.BinOp) and isinstance(e.op, ast.Add) and isinstance(e.left, ast.Attribute)
          and e.left.attr == "_dev_origin" and is_mat_index(e.left.value)
          and isinstance(e.right, ast.BinOp) and isinstance(e.right.op, ast.Mult))
    if not ok:
        raise Unsupported(f"{fname}: dev_lags element {_src(e)}")
    a, b = e.right.left, e.right.right
    if isinstance(a, ast.Name) and a.id == i:
        return step_kind(b, is_mat_index, local)
    if isinstance(b, ast.Name) and b.id == i:
        return step_kind(a, is_mat_index, local)
    raise Unsupported(f"{fname}: dev_lags element {_src(e)}")


# ------------------------------------------------------------------ emit
def cs(s: str) -> str:
    if any(ord(ch) > 126 or ord(ch) < 32 or ch == '"' for ch in s):
        raise Unsupported(f"column name {s!r} is not plain ASCII")
    return f'bs "{s}"'


def clist(xs):
    return "[" + "; ".join(xs) + "]"


def cpart(p):
    return {"col": lambda: f"KCol ({cs(p[1])})", "opt": lambda: f"KOpt ({cs(p[1])})",
            "detail": lambda: "KDetail", "loss": lambda: "KLoss"}[p[0]]()


def extract(repo: Path) -> dict:
    src_in = (Path(repo) / "bermuda/io/data_frame_input.py").read_text()
    tree = ast.parse(src_in)
    env = module_consts(tree)
    wide_key, wide_sort = reader_spec(_fn(tree, "wide_data_frame_to_triangle"), env)
    long_key, long_sort = reader_spec(_fn(tree, "long_data_frame_to_triangle"), env)
    pairs = meta_attr_pairs(_fn(tree, "_create_metadata"))
    ix = ast.parse((Path(repo) / "bermuda/matrix/index.py").read_text())
    mx = ast.parse((Path(repo) / "bermuda/io/matrix.py").read_text())
    rmx = ast.parse((Path(repo) / "bermuda/io/rich_matrix.py").read_text())
    return {
        "consts": env, "wide_key": wide_key, "wide_sort": wide_sort, "long_key": long_key, "long_sort": long_sort,
        "meta_attr": pairs,
        "resolve_step": resolve_step(ix), "inverse_step": inverse_step(mx, "matrix_to_triangle"),
        "rich_inverse_step": inverse_step(rmx, "rich_matrix_to_triangle"),
    }


def emit(d: dict) -> str:
    env = d["consts"]
    L = [
        "(* GENERATED by translate/t_frame.py from bermuda/io/data_frame_input.py, bermuda/matrix/index.py,",
        "   bermuda/io/matrix.py, bermuda/io/rich_matrix.py -- do not edit *)",
        "From Coq Require Import ZArith List Bool String.",
        "From Bermuda Require Import Model.Base Model.Frame Model.MatrixIx.",
        "Import ListNotations.",
        "",
        "Definition frame : frame_spec := mkSpec",
        f"  {clist(cs(c) for c in env['INDEX_CUM_COLUMNS'])}",
        f"  {clist(cs(c) for c in env['INDEX_COLUMNS'])}",
        f"  {clist(cs(c) for c in env['METADATA_COLUMNS'])}",
        f"  {clist(cs(c) for c in env['CORE_SET'])}",
        f"  {clist(cpart(p) for p in d['wide_key'])}",
        f"  {clist(cpart(p) for p in d['long_key'])}",
        f"  {clist(cs(c) for c in d['wide_sort'])}",
        f"  {clist(cs(c) for c in d['long_sort'])}",
        "  " + clist(f"({cs(c)}, {cs(a)})" for c, a in d["meta_attr"]) + ".",
        "",
        f"Definition mspec : matrix_spec := mkMSpec {d['resolve_step']} {d['inverse_step']} {d['rich_inverse_step']}.",
        "",
    ]
    return "\n".join(L)


def translate(repo) -> str:
    return emit(extract(Path(repo)))


if __name__ == "__main__":
    import sys

    print(translate(sys.argv[1] if len(sys.argv) > 1 else "/repo"))
