"""T-bin: fail-closed Python-ast translator for bermuda's binary codec.

Reads  <repo>/bermuda/io/binary.py         -> format constants (evaluated struct.pack calls)
       <repo>/bermuda/io/binary_output.py  -> every _write_* function and triangle_to_binary
       <repo>/bermuda/io/binary_input.py   -> every _read_*  function and binary_to_triangle
and emits a Coq module GenBin.v with
   Definition MAGIC : list Z := ... (one per constant)
   Definition layout : list (string * list string)
where each function is described by the list of its execution PATHS (symbolic execution, see the
comment above FunctionTranslator): per path the assumed conditions, the ordered stream events
   WRITE <CONST> | PACK <fmt> <args> | WRITERAW <expr> | @k UNPACK <fmt> <n> | @k READ <expr> | @k PEEK ..
   | @k CALL <_write_x/_read_x> <symbolic arguments> | LOOP <header> .. ENDLOOP | WITH <ctx> .. ENDWITH
   | WARN | OPAQUE (the S3 branch)
and RETURN <expr> / RAISE <class>.  Expressions are symbolic: parameters are $0,$1,..; results of stream
accesses @k; loop elements elem(E)/index(E); locals are substituted by their definitions (a local that is
mutated in place becomes %0,%1,.. numbered by first appearance); `math.prod(S)` and the accumulate loop
are both prod(S); a dict filled in an enumerate loop and the equivalent comprehension are both
index_table(E).  Hence the description is insensitive to comments, docstrings, formatting, renaming,
exception/warning messages, naming/inlining temporaries, hoisting reads common to all branches in front
of the branching, choosing a value in branches and writing it at one site, if/else vs conditional
expression -- and sensitive to every format string, constant, event order, condition and returned
expression.

Anything outside the expected statement/expression shapes aborts (TranslationError).
"""
from __future__ import annotations

import ast
import copy
import json
import struct
from pathlib import Path


class TranslationError(Exception):
    pass


# ---------------------------------------------------------------------------- constants
def extract_constants(src: str) -> dict[str, list[int]]:
    tree = ast.parse(src)
    out: dict[str, list[int]] = {}
    for node in tree.body:
        if isinstance(node, (ast.Import, ast.ImportFrom)):
            continue
        if isinstance(node, ast.Expr) and isinstance(node.value, ast.Constant):
            continue
        if isinstance(node, ast.Assign) and len(node.targets) == 1 and isinstance(node.targets[0], ast.Name):
            name = node.targets[0].id
            if name == "__all__":
                continue
            v = node.value
            if (isinstance(v, ast.Call) and isinstance(v.func, ast.Attribute) and v.func.attr == "pack"
                    and isinstance(v.func.value, ast.Name) and v.func.value.id == "struct"
                    and len(v.args) == 2 and not v.keywords
                    and all(isinstance(a, ast.Constant) for a in v.args)
                    and isinstance(v.args[0].value, str) and isinstance(v.args[1].value, int)):
                out[name] = list(struct.pack(v.args[0].value, v.args[1].value))
                continue
        raise TranslationError(f"binary.py: unexpected top-level statement: {ast.unparse(node)[:80]}")
    if not out:
        raise TranslationError("binary.py: no constants found")
    return out


# ---------------------------------------------------------------------------- functions
# Each codec function is executed SYMBOLICALLY: locals are substituted by the expressions that define
# them, every stream access becomes an event whose result is the symbol @k, `if` statements and
# conditional expressions fork the execution into PATHS.  A path is described by the conditions it
# assumed (in evaluation order), the stream events it performed (in order) and what it returned.
# Because conditions and events are listed separately and locals never appear, the description does
# not change when a maintainer
#   * names / inlines / renames a temporary, hoists reads that every branch performs in the same order
#     in front of the branching, lets the branches choose a value and writes it at one shared site,
#     turns an if/else around a write into a conditional expression (or back),
#   * replaces `acc = 1; for x in S: acc *= x` by math.prod(S), or a dict filled in an enumerate loop by
#     the equivalent dict comprehension, or splits such a loop in two,
# while every constant, struct format, event order, condition and returned expression still shows.
STREAM_METHODS = {"read", "write", "peek"}
MAX_PATHS = 64


def _is_codec_name(name):
    return name.startswith("_write_") or name.startswith("_read_")


class _State:
    def __init__(self, env, conds=None, events=None):
        self.env = env
        self.conds = conds or []
        self.events = events or []
        self.nev = 0
        self.done = None          # "RETURN <expr>" / "RAISE <cls>" / "BREAK" / "CONTINUE"

    def fork(self):
        st = _State(dict(self.env), list(self.conds), list(self.events))
        st.nev = self.nev
        return st

    def emit(self, text, result=True):
        self.nev += 1
        self.events.append(f"@{self.nev} {text}" if result else text)
        return f"@{self.nev}"


class FunctionTranslator:
    def __init__(self, fn: ast.FunctionDef, consts: set[str], opaque_tests=(), module_tuples=None):
        self.fn = fn
        self.consts = consts
        self.opaque_tests = opaque_tests
        self.module_tuples = module_tuples or {}
        a = fn.args
        if a.vararg or a.kwarg or a.kwonlyargs or a.posonlyargs:
            raise TranslationError(f"{fn.name}: unexpected signature")
        self.params = [x.arg for x in a.args]
        for n in ast.walk(fn):
            if isinstance(n, (ast.Lambda, ast.FunctionDef, ast.AsyncFunctionDef, ast.ClassDef, ast.Global,
                              ast.Nonlocal, ast.Await, ast.Yield, ast.YieldFrom, ast.NamedExpr,
                              ast.Match, ast.Delete)) and n is not fn:
                raise TranslationError(f"{fn.name}: unsupported construct {type(n).__name__}")
        self.stream_params = {p for p in self.params if self._used_as_stream(p)}
        self.ncomp = 0

    def _used_as_stream(self, name):
        for n in ast.walk(self.fn):
            if (isinstance(n, ast.Attribute) and n.attr in STREAM_METHODS and isinstance(n.value, ast.Name)
                    and n.value.id == name):
                return True
        return name in ("stream", "outfile", "infile")

    # ------------------------------------------------------------------ expressions
    def _stream_call(self, e, st):
        """'read'/'write'/'peek' when e is <stream>.<method>(...), where <stream> is a parameter or a local
        bound to a context manager."""
        if (isinstance(e, ast.Call) and isinstance(e.func, ast.Attribute) and e.func.attr in STREAM_METHODS
                and isinstance(e.func.value, ast.Name)):
            nm = e.func.value.id
            if nm in self.stream_params or st.env.get(nm, "").startswith("with("):
                return e.func.attr
        return None

    def sym(self, e, st) -> str:
        """Symbolic value of an expression (text); stream events are emitted in evaluation order."""
        fn = self.fn.name
        if e is None:
            return "None"
        if isinstance(e, ast.Constant):
            return repr(e.value)
        if isinstance(e, ast.JoinedStr):
            return "'<fstring>'"
        if isinstance(e, ast.Name):
            if e.id in st.env:
                return st.env[e.id]
            if e.id in self.params:
                return f"${self.params.index(e.id)}"
            return e.id
        if isinstance(e, ast.Attribute):
            return f"{self._atom(e.value, st)}.{e.attr}"
        if isinstance(e, ast.Subscript):
            # stream.peek(1)[:1]
            if self._stream_call(e.value, st) == "peek":
                args = ",".join(self.sym(a, st) for a in e.value.args)
                return st.emit(f"PEEK {args} [{self._slice(e.slice, st)}]")
            return f"{self._atom(e.value, st)}[{self._slice(e.slice, st)}]"
        if isinstance(e, ast.Call):
            return self._call(e, st)
        if isinstance(e, ast.IfExp):
            raise TranslationError(f"{fn}: conditional expression in an unsupported position")
        if isinstance(e, ast.BoolOp):
            vals = [self.sym(v, st.fork()) for v in e.values[1:]]
            if any(self._has_event(v, st) for v in e.values[1:]):
                raise TranslationError(f"{fn}: stream access inside a short-circuit operator")
            op = " and " if isinstance(e.op, ast.And) else " or "
            return "(" + op.join([self.sym(e.values[0], st)] + vals) + ")"
        if isinstance(e, ast.Compare):
            # x in (a, b, c)  ==  x == a or x == b or x == c   (literal tuple / list, or a module-level
            # constant tuple of names and literals); `not in` is its negation
            if len(e.ops) == 1 and isinstance(e.ops[0], (ast.In, ast.NotIn)):
                rhs = e.comparators[0]
                elts = None
                if isinstance(rhs, (ast.Tuple, ast.List)):
                    elts = rhs.elts
                elif isinstance(rhs, ast.Name) and rhs.id in self.module_tuples and rhs.id not in st.env \
                        and rhs.id not in self.params:
                    elts = self.module_tuples[rhs.id]
                if elts and all(isinstance(x, (ast.Name, ast.Constant)) for x in elts):
                    left = self._atom(e.left, st)
                    txt = "(" + " or ".join(f"{left} == {self.sym(x, st)}" for x in elts) + ")"
                    return txt if isinstance(e.ops[0], ast.In) else f"(not {txt})"
            parts = [self._atom(e.left, st)]
            for op, c in zip(e.ops, e.comparators):
                parts.append(_CMP[type(op)])
                parts.append(self._atom(c, st))
            return " ".join(parts)
        if isinstance(e, ast.BinOp):
            return f"({self.sym(e.left, st)} {_BIN[type(e.op)]} {self.sym(e.right, st)})"
        if isinstance(e, ast.UnaryOp):
            return f"({_UN[type(e.op)]}{self.sym(e.operand, st)})"
        if isinstance(e, (ast.Tuple, ast.List, ast.Set)):
            o, c = {"Tuple": "()", "List": "[]", "Set": "{}"}[type(e).__name__]
            return o + ",".join(self.sym(x, st) for x in e.elts) + ("," if isinstance(e, ast.Tuple) and len(e.elts) == 1 else "") + c
        if isinstance(e, ast.Dict):
            return "{" + ",".join(f"{self.sym(k, st)}:{self.sym(v, st)}" for k, v in zip(e.keys, e.values)) + "}"
        if isinstance(e, ast.Starred):
            return "*" + self.sym(e.value, st)
        if isinstance(e, (ast.ListComp, ast.GeneratorExp, ast.SetComp, ast.DictComp)):
            return self._comp(e, st)
        raise TranslationError(f"{fn}: unsupported expression {type(e).__name__}")

    def _atom(self, e, st):
        t = self.sym(e, st)
        return t

    def _slice(self, sl, st):
        if isinstance(sl, ast.Slice):
            return ":".join("" if x is None else self.sym(x, st) for x in (sl.lower, sl.upper)) + \
                ("" if sl.step is None else ":" + self.sym(sl.step, st))
        return self.sym(sl, st)

    def _has_event(self, e, st):
        for n in ast.walk(e):
            if isinstance(n, ast.Call):
                if self._stream_call(n, st) or (isinstance(n.func, ast.Name) and _is_codec_name(n.func.id)):
                    return True
        return False

    def _call(self, e, st):
        fn = self.fn.name
        f = e.func
        sm = self._stream_call(e, st)
        # struct.unpack(fmt, stream.read(n))
        if isinstance(f, ast.Attribute) and f.attr == "unpack" and isinstance(f.value, ast.Name) and f.value.id == "struct":
            if (len(e.args) == 2 and not e.keywords and isinstance(e.args[0], ast.Constant)
                    and isinstance(e.args[0].value, str) and self._stream_call(e.args[1], st) == "read"
                    and len(e.args[1].args) == 1):
                n = self.sym(e.args[1].args[0], st)
                return st.emit(f"UNPACK {e.args[0].value} {n}")
            raise TranslationError(f"{fn}: unexpected struct.unpack shape: {ast.unparse(e)}")
        if sm == "read":
            if len(e.args) != 1 or e.keywords:
                raise TranslationError(f"{fn}: unexpected read() shape")
            return st.emit(f"READ {self.sym(e.args[0], st)}")
        if sm == "peek":
            return st.emit("PEEK " + ",".join(self.sym(a, st) for a in e.args))
        if sm == "write":
            if len(e.args) != 1 or e.keywords:
                raise TranslationError(f"{fn}: unexpected write() shape")
            x = e.args[0]
            if (isinstance(x, ast.Call) and isinstance(x.func, ast.Attribute) and x.func.attr == "pack"
                    and isinstance(x.func.value, ast.Name) and x.func.value.id == "struct"):
                if not x.args or not isinstance(x.args[0], ast.Constant) or x.keywords:
                    raise TranslationError(f"{fn}: unexpected struct.pack shape")
                args = [self.sym(a, st) for a in x.args[1:]]
                st.emit(f"PACK {x.args[0].value} " + ",".join(args), result=False)
                return "None"
            v = self.sym(x, st)
            if v in self.consts:
                st.emit(f"WRITE {v}", result=False)
            elif v.startswith("struct.pack("):
                raise TranslationError(f"{fn}: struct.pack result written indirectly")
            else:
                st.emit(f"WRITERAW {v}", result=False)
            return "None"
        if isinstance(f, ast.Name) and _is_codec_name(f.id):
            args = []
            for a in e.args:
                v = self.sym(a, st)
                if not (isinstance(a, ast.Name) and a.id in self.stream_params):
                    args.append(v)
            for k in e.keywords:
                args.append(f"{k.arg}={self.sym(k.value, st)}")
            return st.emit(f"CALL {f.id} " + ",".join(args))
        # idioms with a canonical spelling
        ftxt = ast.unparse(f)
        if ftxt == "math.prod" and len(e.args) == 1 and not e.keywords:
            return f"prod({self.sym(e.args[0], st)})"
        callee = self.sym(f, st) if not isinstance(f, ast.Name) else (st.env.get(f.id) or f.id)
        args = [self.sym(a, st) for a in e.args] + [f"{k.arg}={self.sym(k.value, st)}" if k.arg else "**" + self.sym(k.value, st)
                                                   for k in e.keywords]
        return f"{callee}({','.join(args)})"

    def _bind_target(self, t, elem, st, index=None):
        """for-target / comprehension target bound to the element symbol."""
        if isinstance(t, ast.Name):
            st.env[t.id] = elem
        elif isinstance(t, (ast.Tuple, ast.List)):
            for i, x in enumerate(t.elts):
                self._bind_target(x, f"{elem}[{i}]", st)
        else:
            raise TranslationError(f"{self.fn.name}: unsupported loop target")

    def _iter(self, it, target, st):
        """(header text, bind function) for `for target in it`; enumerate(E) is iteration over E with the
        index available as index(E)."""
        if (isinstance(it, ast.Call) and isinstance(it.func, ast.Name) and it.func.id == "enumerate"
                and len(it.args) == 1 and not it.keywords and isinstance(target, (ast.Tuple, ast.List))
                and len(target.elts) == 2):
            base = self.sym(it.args[0], st)
            self._bind_target(target.elts[0], f"index({base})", st)
            self._bind_target(target.elts[1], f"elem({base})", st)
            return base
        base = self.sym(it, st)
        self._bind_target(target, f"elem({base})", st)
        return base

    def _comp(self, e, st):
        fn = self.fn.name
        if len(e.generators) != 1 or e.generators[0].is_async:
            raise TranslationError(f"{fn}: unexpected comprehension")
        g = e.generators[0]
        inner = st.fork()
        base = self._iter(g.iter, g.target, inner)
        st.nev, st.events = inner.nev, inner.events
        ifs = [self.sym(c, inner) for c in g.ifs]
        has_ev = any(self._has_event(x, inner) for x in ([e.elt] if not isinstance(e, ast.DictComp) else [e.key, e.value]))
        if has_ev:
            if g.ifs or isinstance(e, ast.DictComp):
                raise TranslationError(f"{fn}: stream access in a filtered / dict comprehension")
            st.events.append(f"LOOP for in {base}")
            body = inner.fork()
            body.events = []
            v = self.sym(e.elt, body)
            st.events += ["  " + x for x in body.events]
            st.nev = body.nev
            st.events.append("ENDLOOP")
            kind = {"ListComp": "list", "GeneratorExp": "gen", "SetComp": "set"}[type(e).__name__]
            return f"{kind}[{v} for in {base}]"
        cond = (" if " + " and ".join(ifs)) if ifs else ""
        if isinstance(e, ast.DictComp):
            k, v = self.sym(e.key, inner), self.sym(e.value, inner)
            if k == f"elem({base})" and v == f"index({base})" and not ifs:
                return f"index_table({base})"
            return "dict[" + k + ":" + v + " for in " + base + cond + "]"
        kind = {"ListComp": "list", "GeneratorExp": "gen", "SetComp": "set"}[type(e).__name__]
        return f"{kind}[{self.sym(e.elt, inner)} for in {base}{cond}]"

    # ------------------------------------------------------------------ statements
    @staticmethod
    def _split_ifexp(stmt):
        """A statement containing a conditional expression == an if/else around two copies of it."""
        for n in ast.walk(stmt):
            if isinstance(n, ast.IfExp):
                def repl(which):
                    class R(ast.NodeTransformer):
                        def visit_IfExp(self, m):
                            if m is n_ref[0]:
                                return getattr(m, which)
                            return self.generic_visit(m)
                    c = copy.deepcopy(stmt)
                    # locate the same node in the copy by position
                    for a_, b_ in zip(ast.walk(stmt), ast.walk(c)):
                        if a_ is n:
                            n_ref[0] = b_
                            break
                    return R().visit(c)
                n_ref = [None]
                return ast.If(test=copy.deepcopy(n.test), body=[repl("body")], orelse=[repl("orelse")])
        return None

    def block(self, stmts, states):
        for s in stmts:
            nxt = []
            for st in states:
                if st.done is not None:
                    nxt.append(st)
                else:
                    nxt += self.stmt(s, st)
            states = nxt
            if len(states) > MAX_PATHS:
                raise TranslationError(f"{self.fn.name}: more than {MAX_PATHS} paths")
        return states

    def _assign(self, target, value_sym, st):
        fn = self.fn.name
        if isinstance(target, ast.Name):
            st.env[target.id] = value_sym
        elif isinstance(target, (ast.Tuple, ast.List)):
            for i, x in enumerate(target.elts):
                self._assign(x, f"{value_sym}[{i}]", st)
        elif isinstance(target, ast.Subscript) and isinstance(target.value, ast.Name):
            d = target.value.id
            k = self.sym(target.slice, st)
            cur = st.env.get(d, d)
            m = _INDEX_TABLE_KEY.match(k)
            if cur in ("dict()", "{}") and m and value_sym == f"index({m.group(1)})":
                st.env[d] = f"index_table({m.group(1)})"      # d[x] = i  for i, x in enumerate(E)
            else:
                st.env[d] = f"%{d}"                            # mutated local: opaque from here on
        elif isinstance(target, (ast.Subscript, ast.Attribute)):
            pass
        else:
            raise TranslationError(f"{fn}: unsupported assignment target")

    def _mutated_names(self, stmts):
        out = set()
        for s in stmts:
            for n in ast.walk(s):
                if isinstance(n, (ast.Assign, ast.AnnAssign, ast.AugAssign)):
                    ts = n.targets if isinstance(n, ast.Assign) else [n.target]
                    for t in ts:
                        for x in ast.walk(t):
                            if isinstance(x, ast.Name) and isinstance(x.ctx, ast.Store):
                                out.add(x.id)
                            if isinstance(x, ast.Subscript) and isinstance(x.value, ast.Name):
                                out.add(x.value.id)
                elif isinstance(n, ast.Call) and isinstance(n.func, ast.Attribute) and isinstance(n.func.value, ast.Name) \
                        and n.func.attr in ("append", "extend", "add", "update", "insert", "pop", "clear", "setdefault"):
                    out.add(n.func.value.id)
        return out

    def stmt(self, s, st):
        fn = self.fn.name
        split = self._split_ifexp(s) if not isinstance(s, (ast.If, ast.For, ast.While, ast.With)) else None
        if split is not None:
            return self.stmt(split, st)
        if isinstance(s, ast.Expr):
            if isinstance(s.value, ast.Constant):
                return [st]
            if isinstance(s.value, ast.Call) and ast.unparse(s.value.func) == "warnings.warn":
                st.events.append("WARN")
                return [st]
            c = s.value
            if (isinstance(c, ast.Call) and isinstance(c.func, ast.Attribute) and isinstance(c.func.value, ast.Name)
                    and c.func.attr in ("append", "extend", "add", "update", "insert") and not self._stream_call(c, st)):
                for a in c.args:
                    self.sym(a, st)
                st.env[c.func.value.id] = f"%{c.func.value.id}"
                return [st]
            self.sym(s.value, st)
            return [st]
        if isinstance(s, (ast.Assign, ast.AnnAssign)):
            if s.value is None:
                return [st]
            v = self.sym(s.value, st)
            for t in (s.targets if isinstance(s, ast.Assign) else [s.target]):
                self._assign(t, v, st)
            return [st]
        if isinstance(s, ast.AugAssign):
            v = self.sym(s.value, st)
            if isinstance(s.target, ast.Name):
                cur = st.env.get(s.target.id, s.target.id)
                st.env[s.target.id] = f"({cur} {_BIN[type(s.op)]}= {v})" if not cur.startswith("%") else cur
            return [st]
        if isinstance(s, ast.If):
            test_txt = None
            if any(t in ast.unparse(s.test) for t in self.opaque_tests):
                a = st.fork()
                a.conds.append("COND " + self.sym(s.test, a))
                a.done = "OPAQUE"
                b = st
                b.conds.append("COND not " + self.sym(s.test, b))
                return [a] + self.block(s.orelse, [b])
            a = st.fork()
            test_txt = self.sym(s.test, a)
            b = st.fork()
            self.sym(s.test, b)
            a.conds.append("COND " + test_txt)
            b.conds.append("COND not " + test_txt)
            return self.block(s.body, [a]) + self.block(s.orelse, [b])
        if isinstance(s, (ast.For, ast.While)):
            if s.orelse:
                raise TranslationError(f"{fn}: loop with else")
            return [self._loop(s, st)]
        if isinstance(s, ast.Return):
            v = self.sym(s.value, st)
            st.done = "RETURN " + v
            return [st]
        if isinstance(s, ast.Raise):
            exc = s.exc.func if isinstance(s.exc, ast.Call) else s.exc
            st.done = "RAISE " + (ast.unparse(exc) if exc is not None else "")
            return [st]
        if isinstance(s, ast.Break):
            st.done = "BREAK"
            return [st]
        if isinstance(s, ast.Continue):
            st.done = "CONTINUE"
            return [st]
        if isinstance(s, ast.Pass):
            return [st]
        if isinstance(s, ast.With):
            ctx = []
            for it in s.items:
                c = self.sym(it.context_expr, st)
                ctx.append(c)
                if it.optional_vars is not None:
                    if not isinstance(it.optional_vars, ast.Name):
                        raise TranslationError(f"{fn}: unsupported with-target")
                    st.env[it.optional_vars.id] = f"with({c})"
            st.events.append("WITH " + ";".join(ctx))
            out = self.block(s.body, [st])
            for o in out:
                o.events.append("ENDWITH")
            return out
        raise TranslationError(f"{fn}: unsupported statement {type(s).__name__}: {ast.unparse(s)[:60]}")

    def _loop(self, s, st):
        fn = self.fn.name
        # acc = 1; for x in S: acc *= x   ==   prod(S)
        if (isinstance(s, ast.For) and len(s.body) == 1 and isinstance(s.body[0], ast.AugAssign)
                and isinstance(s.body[0].op, ast.Mult) and isinstance(s.body[0].target, ast.Name)
                and isinstance(s.body[0].value, ast.Name) and isinstance(s.target, ast.Name)
                and s.body[0].value.id == s.target.id and st.env.get(s.body[0].target.id) == "1"
                and not self._has_event(s.iter, st)):
            st.env[s.body[0].target.id] = f"prod({self.sym(s.iter, st)})"
            return st
        mutated = self._mutated_names(s.body)
        body0 = st.fork()
        if isinstance(s, ast.For):
            base = self._iter(s.iter, s.target, body0)
            st.nev, st.events = body0.nev, list(body0.events)
            header = f"LOOP for in {base}"
        else:
            header = "LOOP while"
        # names assigned in the body are loop-carried: unknown (opaque) at the top of an iteration, unless the
        # body only ever gives them the index-table form
        for nm in mutated:
            if nm not in ("",) and not (isinstance(s, ast.For) and self._is_index_table_fill(s, nm, body0)):
                body0.env[nm] = f"%{nm}"
        body0.events = []
        body0.conds = []
        if isinstance(s, ast.While):
            t = self.sym(s.test, body0)
            body0.conds.append("COND " + t)
        paths = self.block(s.body, [body0])
        # a loop without stream events, control flow or warnings contributes nothing but its bindings
        significant = any(p.events or (p.done and p.done.split()[0] in ("RETURN", "RAISE")) for p in paths)
        end = st
        end.nev = max(p.nev for p in paths)
        for nm in mutated:
            vals = {p.env.get(nm) for p in paths}
            end.env[nm] = vals.pop() if len(vals) == 1 and next(iter(vals or {None}), None) is None else (
                paths[0].env[nm] if len({p.env.get(nm) for p in paths}) == 1 and str(paths[0].env.get(nm, "")).startswith("index_table(")
                else f"%{nm}")
        if not significant:
            return end
        end.events.append(header)
        for p in paths:
            if len(paths) > 1 or p.conds:
                end.events.append("  PATH " + " ; ".join(p.conds))
            end.events += ["  " + x for x in p.events]
            if p.done:
                end.events.append("  " + p.done)
        end.events.append("ENDLOOP")
        return end

    def _is_index_table_fill(self, loop, name, st):
        cur = st.env.get(name)
        if cur not in ("dict()", "{}"):
            return False
        for n in ast.walk(ast.Module(body=loop.body, type_ignores=[])):
            if isinstance(n, (ast.Assign, ast.AugAssign, ast.AnnAssign)):
                ts = n.targets if isinstance(n, ast.Assign) else [n.target]
                for t in ts:
                    if isinstance(t, ast.Name) and t.id == name:
                        return False
            if isinstance(n, ast.Call) and isinstance(n.func, ast.Attribute) and isinstance(n.func.value, ast.Name) \
                    and n.func.value.id == name:
                return False
        return True

    def run(self):
        st = _State({})
        paths = self.block(self.fn.body, [st])
        out = []
        for p in paths:
            out.append("PATH " + " ; ".join(p.conds))
            out += ["  " + e for e in p.events]
            out.append("  " + (p.done or "RETURN None"))
        return _rename_placeholders(out)


import copy  # noqa: E402
import re  # noqa: E402

_INDEX_TABLE_KEY = re.compile(r"^elem\((.*)\)$")
_CMP = {ast.Eq: "==", ast.NotEq: "!=", ast.Lt: "<", ast.LtE: "<=", ast.Gt: ">", ast.GtE: ">=", ast.Is: "is",
        ast.IsNot: "is not", ast.In: "in", ast.NotIn: "not in"}
_BIN = {ast.Add: "+", ast.Sub: "-", ast.Mult: "*", ast.Div: "/", ast.FloorDiv: "//", ast.Mod: "%", ast.Pow: "**",
        ast.BitOr: "|", ast.BitAnd: "&", ast.BitXor: "^", ast.LShift: "<<", ast.RShift: ">>", ast.MatMult: "@"}
_UN = {ast.Not: "not ", ast.USub: "-", ast.UAdd: "+", ast.Invert: "~"}


def _rename_placeholders(lines):
    """Opaque locals (%name) are numbered by first appearance in the output: local names never show."""
    order = {}

    def r(m):
        return order.setdefault(m.group(0), f"%{len(order)}")

    return [re.sub(r"%[A-Za-z_][A-Za-z0-9_]*", r, ln) for ln in lines]


def translate_module(src: str, consts: set[str], prefixes, extra, modname, opaque_tests=()):
    tree = ast.parse(src)
    out = []
    seen = set()
    # module-level constant tuples / lists of names and literals, assigned exactly once
    module_tuples, assigned = {}, {}
    for node in ast.walk(tree):
        if isinstance(node, (ast.Assign, ast.AugAssign, ast.AnnAssign)):
            for t in (node.targets if isinstance(node, ast.Assign) else [node.target]):
                for x in ast.walk(t):
                    if isinstance(x, ast.Name):
                        assigned[x.id] = assigned.get(x.id, 0) + 1
    for node in tree.body:
        if (isinstance(node, ast.Assign) and len(node.targets) == 1 and isinstance(node.targets[0], ast.Name)
                and isinstance(node.value, (ast.Tuple, ast.List)) and assigned.get(node.targets[0].id) == 1
                and all(isinstance(x, (ast.Name, ast.Constant)) for x in node.value.elts)):
            module_tuples[node.targets[0].id] = node.value.elts
    for node in tree.body:
        if isinstance(node, ast.FunctionDef) and (node.name.startswith(prefixes) or node.name in extra):
            if node.decorator_list:
                raise TranslationError(f"{node.name}: decorated codec function")
            ev = FunctionTranslator(node, consts, opaque_tests, module_tuples).run()
            out.append((f"{modname}.{node.name}", ev))
            seen.add(node.name)
        elif isinstance(node, (ast.AsyncFunctionDef,)):
            raise TranslationError("async function in codec module")
    missing = set(extra) - seen
    if missing:
        raise TranslationError(f"{modname}: expected function(s) not found: {sorted(missing)}")
    return out


def translate(repo: Path):
    io = Path(repo) / "bermuda" / "io"
    consts = extract_constants((io / "binary.py").read_text())
    cset = set(consts)
    writers = translate_module((io / "binary_output.py").read_text(), cset, ("_write_",),
                               ["triangle_to_binary"], "out", opaque_tests=("startswith('s3:')",))
    # the S3 helpers (_open_s3_stream, _parse_s3_uri, _BodyRawIO) are outside the codec
    src_in = (io / "binary_input.py").read_text()
    readers = translate_module(src_in, cset, ("_read_",), ["binary_to_triangle"], "in",
                               opaque_tests=("startswith('s3:')",))
    names_w = {n.split(".")[1] for n, _ in writers}
    names_r = {n.split(".")[1] for n, _ in readers}
    for need in ("_write_triangle", "_write_string_pool", "_write_cell", "_write_metadata", "_write_string",
                 "_write_date", "_write_float", "_write_array", "_write_dict", "_write_generic_value",
                 "_write_binary"):
        if need not in names_w:
            raise TranslationError(f"binary_output.py: {need} not found")
    for need in ("_read_triangle", "_read_string_pool", "_read_cell", "_read_metadata", "_read_string",
                 "_read_date", "_read_float", "_read_array", "_read_dict", "_read_generic_value",
                 "_read_binary"):
        if need not in names_r:
            raise TranslationError(f"binary_input.py: {need} not found")
    return {"constants": consts, "layout": [[n, ev] for n, ev in writers + readers]}


# ---------------------------------------------------------------------------- Coq output
def coq_string(s: str) -> str:
    if any(ord(c) > 126 or ord(c) < 32 for c in s):
        s = s.encode("unicode_escape").decode("ascii")
    return '"' + s.replace('"', '""') + '"'


def to_coq(desc, module_comment="generated by translate/t_bin.py -- do not edit") -> str:
    lines = [f"(* {module_comment} *)",
             "From Coq Require Import ZArith List String.",
             "Import ListNotations.", "Open Scope Z_scope.", "Open Scope string_scope.", ""]
    for name, bs in desc["constants"].items():
        lines.append(f"Definition {name} : list Z := [" + "; ".join(str(b) for b in bs) + "].")
    lines.append("Definition constants : list (string * list Z) := [")
    lines.append(";\n".join(f"  ({coq_string(n)}, {n})" for n in desc["constants"]))
    lines.append("].")
    lines.append("Definition layout : list (string * list string) := [")
    items = []
    for name, evs in desc["layout"]:
        items.append("  (" + coq_string(name) + ", [\n    " + ";\n    ".join(coq_string(e) for e in evs) + "])")
    lines.append(";\n".join(items))
    lines.append("].")
    return "\n".join(lines) + "\n"


def main(argv=None):
    import argparse

    ap = argparse.ArgumentParser()
    ap.add_argument("repo")
    ap.add_argument("--coq")
    ap.add_argument("--json")
    a = ap.parse_args(argv)
    d = translate(Path(a.repo))
    if a.coq:
        Path(a.coq).write_text(to_coq(d))
    if a.json:
        Path(a.json).write_text(json.dumps(d, indent=1))
    if not a.coq and not a.json:
        print(json.dumps(d, indent=1))


if __name__ == "__main__":
    main()
