"""T-bin: fail-closed Python-ast translator for bermuda's binary codec.

Reads  <repo>/bermuda/io/binary.py         -> format constants (evaluated struct.pack calls)
       <repo>/bermuda/io/binary_output.py  -> every _write_* function and triangle_to_binary
       <repo>/bermuda/io/binary_input.py   -> every _read_*  function and binary_to_triangle
and emits a Coq module GenBin.v with
   Definition MAGIC : list Z := ... (one per constant)
   Definition layout : list (string * list string)
where each function is described by the ordered list of its *stream events*:
   WRITE <CONST> | PACK <fmt> <args> | WRITERAW <expr> | UNPACK <fmt> <n> | READ <expr> | PEEK
   | CALL <_write_x/_read_x> <argument / keyword it is bound to>
   | IF/ELIF <cond> | ELSE | ENDIF | LOOP <header> | ENDLOOP | WITH <ctx> | ENDWITH
   | RETURN <expr> | RAISE <class> | WARN | BREAK | CONTINUE | OPAQUE
Expressions are printed with ast.unparse after normalisation: parameters become $0,$1,..; a local
that is assigned once from a pure expression is inlined; other locals become %0,%1,.. in order of
first binding.  Hence the description is insensitive to comments, docstrings, formatting, local
renaming, exception/warning messages and to moving pure statements, and sensitive to every format
string, constant, field order, loop/branch condition and return expression.

Anything outside the expected statement/expression shapes aborts (TranslationError).
"""
from __future__ import annotations

import ast
import copy
import json
import struct
from pathlib import Path


class TranslationError(Exception):
    pass


# ---------------------------------------------------------------------------- constants
def extract_constants(src: str) -> dict[str, list[int]]:
    tree = ast.parse(src)
    out: dict[str, list[int]] = {}
    for node in tree.body:
        if isinstance(node, (ast.Import, ast.ImportFrom)):
            continue
        if isinstance(node, ast.Expr) and isinstance(node.value, ast.Constant):
            continue
        if isinstance(node, ast.Assign) and len(node.targets) == 1 and isinstance(node.targets[0], ast.Name):
            name = node.targets[0].id
            if name == "__all__":
                continue
            v = node.value
            if (isinstance(v, ast.Call) and isinstance(v.func, ast.Attribute) and v.func.attr == "pack"
                    and isinstance(v.func.value, ast.Name) and v.func.value.id == "struct"
                    and len(v.args) == 2 and not v.keywords
                    and all(isinstance(a, ast.Constant) for a in v.args)
                    and isinstance(v.args[0].value, str) and isinstance(v.args[1].value, int)):
                out[name] = list(struct.pack(v.args[0].value, v.args[1].value))
                continue
        raise TranslationError(f"binary.py: unexpected top-level statement: {ast.unparse(node)[:80]}")
    if not out:
        raise TranslationError("binary.py: no constants found")
    return out


# ---------------------------------------------------------------------------- functions
STREAM_METHODS = {"read", "write", "peek"}


def _is_codec_call(node):
    return (isinstance(node, ast.Call) and isinstance(node.func, ast.Name)
            and (node.func.id.startswith("_write_") or node.func.id.startswith("_read_")))


def _stream_method(node, params):
    """'read' / 'write' / 'peek' when node is <param>.<method>(...)."""
    if (isinstance(node, ast.Call) and isinstance(node.func, ast.Attribute)
            and node.func.attr in STREAM_METHODS and isinstance(node.func.value, ast.Name)
            and node.func.value.id in params):
        return node.func.attr
    return None


def _has_effect(node, params):
    for n in ast.walk(node):
        if _is_codec_call(n) or _stream_method(n, params):
            return True
    return False


class FunctionTranslator:
    def __init__(self, fn: ast.FunctionDef, consts: set[str], opaque_tests=()):
        self.fn = fn
        self.consts = consts
        self.opaque_tests = opaque_tests
        a = fn.args
        if a.vararg or a.kwarg or a.kwonlyargs or a.posonlyargs:
            raise TranslationError(f"{fn.name}: unexpected signature")
        self.params = [x.arg for x in a.args]
        self.events: list[str] = []
        self._collect_locals()

    # -- names ---------------------------------------------------------------------------
    def _collect_locals(self):
        assigns: dict[str, list] = {}
        order: list[str] = []

        def bind(name, value):
            if name in self.params:
                assigns.setdefault(name, []).append(None)  # rebinding a parameter: not inlinable
                return
            if name not in assigns:
                order.append(name)
            assigns.setdefault(name, []).append(value)

        def targets(t, value):
            if isinstance(t, ast.Name):
                bind(t.id, value)
            elif isinstance(t, (ast.Tuple, ast.List)):
                for e in t.elts:
                    targets(e, None)
            elif isinstance(t, (ast.Subscript, ast.Attribute)):
                pass
            else:
                raise TranslationError(f"{self.fn.name}: unexpected assignment target")

        for n in ast.walk(self.fn):
            if isinstance(n, ast.Assign):
                for t in n.targets:
                    targets(t, n.value)
            elif isinstance(n, ast.AnnAssign):
                targets(n.target, n.value)
            elif isinstance(n, ast.AugAssign):
                targets(n.target, None)
            elif isinstance(n, (ast.For, ast.comprehension)):
                targets(n.target, None)
            elif isinstance(n, ast.With):
                for it in n.items:
                    if it.optional_vars is not None:
                        targets(it.optional_vars, None)
            elif isinstance(n, ast.Global):
                raise TranslationError(f"{self.fn.name}: global statement")
            elif isinstance(n, (ast.Lambda, ast.FunctionDef, ast.AsyncFunctionDef, ast.ClassDef)) and n is not self.fn:
                raise TranslationError(f"{self.fn.name}: nested definition")
        self.inline = {}
        self.placeholder = {}
        k = 0
        for name in order:
            vals = assigns[name]
            if len(vals) == 1 and vals[0] is not None and not _has_effect(vals[0], self.params):
                self.inline[name] = vals[0]
            else:
                self.placeholder[name] = f"%{k}"
                k += 1
        for name, vals in assigns.items():
            if name in self.params:
                # a rebound parameter keeps its $i name; nothing to inline
                pass

    def norm(self, node, depth=0) -> str:
        if depth > 20:
            raise TranslationError(f"{self.fn.name}: inlining too deep")
        tr = self

        class N(ast.NodeTransformer):
            def visit_Name(self, n):
                if n.id in tr.params:
                    return ast.copy_location(ast.Name(id=f"${tr.params.index(n.id)}", ctx=n.ctx), n)
                if n.id in tr.inline:
                    return ast.parse(tr.norm(tr.inline[n.id], depth + 1), mode="eval").body if False else \
                        _Raw(tr.norm(tr.inline[n.id], depth + 1))
                if n.id in tr.placeholder:
                    return ast.copy_location(ast.Name(id=tr.placeholder[n.id], ctx=n.ctx), n)
                return n

            def visit_JoinedStr(self, n):  # f-strings only occur in messages
                return ast.Constant(value="<fstring>")

        new = N().visit(copy.deepcopy(node))
        ast.fix_missing_locations(new)
        return _unparse(new)

    # -- events --------------------------------------------------------------------------
    def emit(self, s):
        self.events.append(s)

    def expr(self, e, kw=None):
        """Emit the stream events of an expression in evaluation order."""
        if e is None:
            return
        if isinstance(e, ast.Call):
            sm = _stream_method(e, self.params)
            f = e.func
            # struct.unpack(fmt, stream.read(n))
            if (isinstance(f, ast.Attribute) and f.attr == "unpack" and isinstance(f.value, ast.Name)
                    and f.value.id == "struct"):
                if (len(e.args) == 2 and isinstance(e.args[0], ast.Constant) and isinstance(e.args[0].value, str)
                        and _stream_method(e.args[1], self.params) == "read" and len(e.args[1].args) == 1):
                    self.emit(f"UNPACK {e.args[0].value} {self.norm(e.args[1].args[0])}")
                    return
                raise TranslationError(f"{self.fn.name}: unexpected struct.unpack shape: {ast.unparse(e)}")
            if sm == "read":
                if len(e.args) != 1 or e.keywords:
                    raise TranslationError(f"{self.fn.name}: unexpected read() shape")
                self.expr(e.args[0])
                self.emit(f"READ {self.norm(e.args[0])}")
                return
            if sm == "peek":
                self.emit(f"PEEK {','.join(self.norm(a) for a in e.args)}")
                return
            if sm == "write":
                if len(e.args) != 1 or e.keywords:
                    raise TranslationError(f"{self.fn.name}: unexpected write() shape")
                x = e.args[0]
                if isinstance(x, ast.Name) and x.id in self.consts:
                    self.emit(f"WRITE {x.id}")
                elif (isinstance(x, ast.Call) and isinstance(x.func, ast.Attribute) and x.func.attr == "pack"
                      and isinstance(x.func.value, ast.Name) and x.func.value.id == "struct"):
                    if not x.args or not isinstance(x.args[0], ast.Constant) or x.keywords:
                        raise TranslationError(f"{self.fn.name}: unexpected struct.pack shape")
                    for a in x.args[1:]:
                        self.expr(a)
                    self.emit(f"PACK {x.args[0].value} " + ",".join(self.norm(a) for a in x.args[1:]))
                else:
                    self.expr(x)
                    self.emit(f"WRITERAW {self.norm(x)}")
                return
            if _is_codec_call(e):
                descr = []
                for a in e.args:
                    self.expr(a)
                    if not (isinstance(a, ast.Name) and a.id in self.params and self._is_stream_param(a.id)):
                        descr.append(self.norm(a))
                for k in e.keywords:
                    self.expr(k.value)
                    descr.append(f"{k.arg}={self.norm(k.value)}")
                self.emit(f"CALL {f.id} " + (f"->{kw} " if kw else "") + ",".join(descr))
                return
            # any other call: evaluate callee, args, keywords in order
            self.expr(f)
            for a in e.args:
                self.expr(a)
            for k in e.keywords:
                self.expr(k.value, kw=k.arg)
            return
        if isinstance(e, (ast.ListComp, ast.GeneratorExp, ast.SetComp)):
            if not _has_effect(e, self.params):
                return
            if len(e.generators) != 1 or e.generators[0].ifs or e.generators[0].is_async:
                raise TranslationError(f"{self.fn.name}: unexpected comprehension")
            g = e.generators[0]
            self.expr(g.iter)
            self.emit(f"LOOP for in {self.norm(g.iter)}")
            self.expr(e.elt)
            self.emit("ENDLOOP")
            return
        if isinstance(e, (ast.IfExp, ast.DictComp, ast.Lambda, ast.NamedExpr, ast.Await, ast.Yield, ast.YieldFrom)):
            if _has_effect(e, self.params):
                raise TranslationError(f"{self.fn.name}: stream access inside {type(e).__name__}")
            return
        if isinstance(e, ast.BoolOp) and _has_effect(e, self.params):
            raise TranslationError(f"{self.fn.name}: stream access inside a short-circuit operator")
        for child in ast.iter_child_nodes(e):
            if isinstance(child, ast.expr):
                self.expr(child)
            elif isinstance(child, ast.keyword):
                self.expr(child.value, kw=child.arg)
            elif isinstance(child, (ast.expr_context, ast.operator, ast.cmpop, ast.boolop, ast.unaryop)):
                continue
            elif isinstance(child, ast.comprehension):
                raise TranslationError(f"{self.fn.name}: unexpected comprehension")
            # slices etc. are expressions in py>=3.9

    def _is_stream_param(self, name):
        for n in ast.walk(self.fn):
            if (isinstance(n, ast.Attribute) and n.attr in STREAM_METHODS and isinstance(n.value, ast.Name)
                    and n.value.id == name):
                return True
        # a parameter only handed on to other codec functions in the stream position
        return name == "stream" or name in ("outfile", "infile")

    def _significant(self, stmts) -> bool:
        for s in stmts:
            for n in ast.walk(s):
                if isinstance(n, (ast.Return, ast.Raise, ast.Break, ast.Continue)):
                    return True
                if isinstance(n, ast.Assign) and any(isinstance(t, ast.Name) and t.id in self.params
                                                     for t in n.targets):
                    return True
                if _is_codec_call(n) or _stream_method(n, self.params):
                    return True
                if isinstance(n, ast.Call) and ast.unparse(n.func) == "warnings.warn":
                    return True
        return False

    def block(self, stmts):
        for s in stmts:
            self.stmt(s)

    def stmt(self, s):
        fn = self.fn.name
        if isinstance(s, ast.Expr):
            if isinstance(s.value, ast.Constant) and isinstance(s.value.value, str):
                return
            if isinstance(s.value, ast.Call) and ast.unparse(s.value.func) == "warnings.warn":
                self.emit("WARN")
                return
            self.expr(s.value)
        elif isinstance(s, ast.Assign):
            self.expr(s.value)
            for t in s.targets:  # rebinding a parameter is a decision (e.g. the inferred `compress`)
                if isinstance(t, ast.Name) and t.id in self.params:
                    self.emit(f"SET ${self.params.index(t.id)} {self.norm(s.value)}")
        elif isinstance(s, ast.AnnAssign):
            self.expr(s.value)
        elif isinstance(s, ast.AugAssign):
            self.expr(s.value)
        elif isinstance(s, ast.If):
            if not self._significant([s]):
                return
            first = True
            cur = s
            while True:
                test_txt = self.norm(cur.test)
                if any(t in test_txt for t in self.opaque_tests):
                    self.emit(("IF " if first else "ELIF ") + test_txt)
                    self.emit("OPAQUE")
                else:
                    if _has_effect(cur.test, self.params) and not first:
                        raise TranslationError(f"{fn}: stream access in an elif test")
                    self.expr(cur.test)
                    self.emit(("IF " if first else "ELIF ") + test_txt)
                    self.block(cur.body)
                first = False
                if len(cur.orelse) == 1 and isinstance(cur.orelse[0], ast.If):
                    cur = cur.orelse[0]
                    continue
                if cur.orelse and self._significant(cur.orelse):
                    self.emit("ELSE")
                    self.block(cur.orelse)
                break
            self.emit("ENDIF")
        elif isinstance(s, ast.While):
            if s.orelse:
                raise TranslationError(f"{fn}: while/else")
            self.emit(f"LOOP while {self.norm(s.test)}")
            self.expr(s.test)
            self.block(s.body)
            self.emit("ENDLOOP")
        elif isinstance(s, ast.For):
            if s.orelse:
                raise TranslationError(f"{fn}: for/else")
            if not self._significant([s]):
                return
            self.expr(s.iter)
            self.emit(f"LOOP for in {self.norm(s.iter)}")
            self.block(s.body)
            self.emit("ENDLOOP")
        elif isinstance(s, ast.Return):
            self.expr(s.value)
            self.emit("RETURN " + (self.norm(s.value) if s.value is not None else "None"))
        elif isinstance(s, ast.Raise):
            exc = s.exc
            if isinstance(exc, ast.Call):
                exc = exc.func
            self.emit("RAISE " + (ast.unparse(exc) if exc is not None else ""))
        elif isinstance(s, ast.Break):
            self.emit("BREAK")
        elif isinstance(s, ast.Continue):
            self.emit("CONTINUE")
        elif isinstance(s, ast.Pass):
            return
        elif isinstance(s, ast.With):
            for it in s.items:
                self.expr(it.context_expr)
            self.emit("WITH " + ";".join(self.norm(it.context_expr) for it in s.items))
            self.block(s.body)
            self.emit("ENDWITH")
        else:
            raise TranslationError(f"{fn}: unsupported statement {type(s).__name__}: {ast.unparse(s)[:60]}")

    def run(self):
        self.block(self.fn.body)
        return self.events


class _Raw(ast.AST):
    """Pre-rendered sub-expression (an inlined local), printed in parentheses."""
    _fields = ()

    def __init__(self, text):
        super().__init__()
        self.text = text


def _unparse(node) -> str:
    class U(ast._Unparser):  # noqa: SLF001 - CPython's own unparser, extended for _Raw
        def visit__Raw(self, n):
            self.write("(" + n.text + ")")

    return U().visit(node)


def translate_module(src: str, consts: set[str], prefixes, extra, modname, opaque_tests=()):
    tree = ast.parse(src)
    out = []
    seen = set()
    for node in tree.body:
        if isinstance(node, ast.FunctionDef) and (node.name.startswith(prefixes) or node.name in extra):
            if node.decorator_list:
                raise TranslationError(f"{node.name}: decorated codec function")
            ev = FunctionTranslator(node, consts, opaque_tests).run()
            out.append((f"{modname}.{node.name}", ev))
            seen.add(node.name)
        elif isinstance(node, (ast.AsyncFunctionDef,)):
            raise TranslationError("async function in codec module")
    missing = set(extra) - seen
    if missing:
        raise TranslationError(f"{modname}: expected function(s) not found: {sorted(missing)}")
    return out


def translate(repo: Path):
    io = Path(repo) / "bermuda" / "io"
    consts = extract_constants((io / "binary.py").read_text())
    cset = set(consts)
    writers = translate_module((io / "binary_output.py").read_text(), cset, ("_write_",),
                               ["triangle_to_binary"], "out", opaque_tests=("startswith('s3:')",))
    # the S3 helpers (_open_s3_stream, _parse_s3_uri, _BodyRawIO) are outside the codec
    src_in = (io / "binary_input.py").read_text()
    readers = translate_module(src_in, cset, ("_read_",), ["binary_to_triangle"], "in",
                               opaque_tests=("startswith('s3:')",))
    names_w = {n.split(".")[1] for n, _ in writers}
    names_r = {n.split(".")[1] for n, _ in readers}
    for need in ("_write_triangle", "_write_string_pool", "_write_cell", "_write_metadata", "_write_string",
                 "_write_date", "_write_float", "_write_array", "_write_dict", "_write_generic_value",
                 "_write_binary"):
        if need not in names_w:
            raise TranslationError(f"binary_output.py: {need} not found")
    for need in ("_read_triangle", "_read_string_pool", "_read_cell", "_read_metadata", "_read_string",
                 "_read_date", "_read_float", "_read_array", "_read_dict", "_read_generic_value",
                 "_read_binary"):
        if need not in names_r:
            raise TranslationError(f"binary_input.py: {need} not found")
    return {"constants": consts, "layout": [[n, ev] for n, ev in writers + readers]}


# ---------------------------------------------------------------------------- Coq output
def coq_string(s: str) -> str:
    if any(ord(c) > 126 or ord(c) < 32 for c in s):
        s = s.encode("unicode_escape").decode("ascii")
    return '"' + s.replace('"', '""') + '"'


def to_coq(desc, module_comment="generated by translate/t_bin.py -- do not edit") -> str:
    lines = [f"(* {module_comment} *)",
             "From Coq Require Import ZArith List String.",
             "Import ListNotations.", "Open Scope Z_scope.", "Open Scope string_scope.", ""]
    for name, bs in desc["constants"].items():
        lines.append(f"Definition {name} : list Z := [" + "; ".join(str(b) for b in bs) + "].")
    lines.append("Definition constants : list (string * list Z) := [")
    lines.append(";\n".join(f"  ({coq_string(n)}, {n})" for n in desc["constants"]))
    lines.append("].")
    lines.append("Definition layout : list (string * list string) := [")
    items = []
    for name, evs in desc["layout"]:
        items.append("  (" + coq_string(name) + ", [\n    " + ";\n    ".join(coq_string(e) for e in evs) + "])")
    lines.append(";\n".join(items))
    lines.append("].")
    return "\n".join(lines) + "\n"


def main(argv=None):
    import argparse

    ap = argparse.ArgumentParser()
    ap.add_argument("repo")
    ap.add_argument("--coq")
    ap.add_argument("--json")
    a = ap.parse_args(argv)
    d = translate(Path(a.repo))
    if a.coq:
        Path(a.coq).write_text(to_coq(d))
    if a.json:
        Path(a.json).write_text(json.dumps(d, indent=1))
    if not a.coq and not a.json:
        print(json.dumps(d, indent=1))


if __name__ == "__main__":
    main()
