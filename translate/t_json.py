"""T-json: fail-closed Python-ast translator for bermuda/io/json.py (+ Metadata.as_dict).

Emits a Coq module GenJson.v with one definition

    Definition layout : Json.layout := {| L_slices := ...; L_meta_out := ...; ... |}.

holding the decision-carrying tables of the JSON codec:

  triangle_to_dict      the single top-level key; slices come from tri.slices.values()
  Metadata.as_dict      key order and the attribute each key reads
  _slice_to_dict        which keys survive ("not None and not {}" plus the always-kept keys), the key
                        of the cell list (after the metadata keys), cells in slice_.cells order
  _cell_to_dict         date keys in order, strftime format, the key added for IncrementalCell,
                        the values key (merged last), ndarray -> tolist() / anything else unchanged
  object_hook           dispatch order and the keys each branch tests, the action of each branch
  _parse_cell_set       Metadata keyword <- obj.get(key[, default]); the key of the cell list
  _parse_observation    values key; list -> np.array; the key whose presence selects the first class;
                        the two classes and their keyword <- obj[key] tables; default date format

Local variable names, comments, docstrings, formatting and statement layout inside expressions do not
matter (variables are identified by the role they are bound in); any other shape raises Unsupported.
"""
from __future__ import annotations

import ast
import copy
from pathlib import Path


class Unsupported(Exception):
    pass


def fail(where, node=None, why=""):
    txt = ""
    if node is not None:
        try:
            txt = ast.unparse(node)[:160]
        except Exception:  # noqa: BLE001
            txt = repr(node)
    raise Unsupported(f"{where}: unexpected shape {why} :: {txt}")


ATTR = {
    "risk_basis": "ARisk", "country": "ACountry", "currency": "ACurrency",
    "reinsurance_basis": "AReins", "loss_definition": "ALossDef",
    "per_occurrence_limit": "ALimit", "details": "ADetails", "loss_details": "ALossDetails",
}
DATTR = {"period_start": "DPs", "period_end": "DPe", "evaluation_date": "DEv",
         "prev_evaluation_date": "DPrev"}
KIND = {"Cell": "KCell", "CumulativeCell": "KCum", "IncrementalCell": "KInc"}


def body_of(fn):
    """Function body without the docstring."""
    b = list(fn.body)
    if b and isinstance(b[0], ast.Expr) and isinstance(b[0].value, ast.Constant) and isinstance(b[0].value.value, str):
        b = b[1:]
    return b


def find_func(tree, name, cls=None):
    scope = tree.body
    if cls:
        cs = [n for n in tree.body if isinstance(n, ast.ClassDef) and n.name == cls]
        if len(cs) != 1:
            fail(f"class {cls}", None, "not found exactly once")
        scope = cs[0].body
    fs = [n for n in scope if isinstance(n, ast.FunctionDef) and n.name == name]
    if len(fs) != 1:
        fail(f"function {cls + '.' if cls else ''}{name}", None, "not found exactly once")
    return fs[0]


def is_name(n, ident):
    return isinstance(n, ast.Name) and n.id == ident


def const_str(n, where):
    if isinstance(n, ast.Constant) and isinstance(n.value, str):
        return n.value
    fail(where, n, "expected a string literal")


def params(fn):
    a = fn.args
    if a.vararg or a.kwarg or a.kwonlyargs or a.posonlyargs:
        fail(fn.name, None, "unexpected parameter kinds")
    return [x.arg for x in a.args]


def single_return(fn):
    b = body_of(fn)
    if len(b) != 1 or not isinstance(b[0], ast.Return) or b[0].value is None:
        fail(fn.name, fn, "expected a single return statement")
    return b[0].value


def comp1(node, where, kind):
    """A comprehension with exactly one `for` and at most one `if`; returns (elt(s), target, iter, ifs)."""
    if not isinstance(node, kind) or len(node.generators) != 1:
        fail(where, node, "expected a one-generator comprehension")
    g = node.generators[0]
    if g.is_async:
        fail(where, node, "async comprehension")
    return g.target, g.iter, g.ifs


def attr_chain(n):
    """a.b.c -> ['a','b','c'] or None"""
    out = []
    while isinstance(n, ast.Attribute):
        out.append(n.attr)
        n = n.value
    if isinstance(n, ast.Name):
        out.append(n.id)
        return out[::-1]
    return None


def call_of(n, where, nargs=None, kw=False):
    if not isinstance(n, ast.Call) or (n.keywords and not kw) or (nargs is not None and len(n.args) != nargs):
        fail(where, n, "expected a call")
    return n


# ------------------------------------------------------------------------------- encoder side
def t_as_dict(meta_tree):
    fn = find_func(meta_tree, "as_dict", "Metadata")
    (self_,) = params(fn)
    d = single_return(fn)
    if not isinstance(d, ast.Dict):
        fail("Metadata.as_dict", d, "expected a dict display")
    out = []
    for k, v in zip(d.keys, d.values):
        key = const_str(k, "Metadata.as_dict key")
        if isinstance(v, ast.Call):  # copy.deepcopy(self.x)
            c = call_of(v, "Metadata.as_dict", 1)
            if attr_chain(c.func) != ["copy", "deepcopy"]:
                fail("Metadata.as_dict", v, "only copy.deepcopy(self.attr) is understood")
            v = c.args[0]
        ch = attr_chain(v)
        if not ch or len(ch) != 2 or ch[0] != self_ or ch[1] not in ATTR:
            fail("Metadata.as_dict", v, "expected self.<metadata attribute>")
        out.append((key, ATTR[ch[1]]))
    return out


def t_triangle_to_dict(tree):
    fn = find_func(tree, "triangle_to_dict")
    (tri,) = params(fn)
    d = single_return(fn)
    if not isinstance(d, ast.Dict) or len(d.keys) != 1:
        fail("triangle_to_dict", d, "expected a one-key dict")
    key = const_str(d.keys[0], "triangle_to_dict")
    tgt, it, ifs = comp1(d.values[0], "triangle_to_dict", ast.ListComp)
    elt = d.values[0].elt
    if ifs or not isinstance(tgt, ast.Name):
        fail("triangle_to_dict", d.values[0], "filter or pattern in the slice loop")
    c = call_of(elt, "triangle_to_dict", 1)
    if not is_name(c.func, "_slice_to_dict") or not is_name(c.args[0], tgt.id):
        fail("triangle_to_dict", elt, "expected _slice_to_dict(<loop variable>)")
    ci = call_of(it, "triangle_to_dict", 0)
    if attr_chain(ci.func) != [tri, "slices", "values"]:
        fail("triangle_to_dict", it, "expected <tri>.slices.values()")
    return key


def t_slice_to_dict(tree):
    fn = find_func(tree, "_slice_to_dict")
    (sl,) = params(fn)
    d = single_return(fn)
    if not isinstance(d, ast.Dict) or len(d.keys) != 2 or d.keys[0] is not None:
        fail("_slice_to_dict", d, "expected {**<metadata comprehension>, <cells key>: [...]}")
    dc = d.values[0]
    tgt, it, ifs = comp1(dc, "_slice_to_dict", ast.DictComp)
    if not (isinstance(tgt, ast.Tuple) and len(tgt.elts) == 2 and all(isinstance(e, ast.Name) for e in tgt.elts)):
        fail("_slice_to_dict", dc, "expected `for k, v in`")
    k, v = tgt.elts[0].id, tgt.elts[1].id
    if not (is_name(dc.key, k) and is_name(dc.value, v)):
        fail("_slice_to_dict", dc, "keys or values are transformed")
    ci = call_of(it, "_slice_to_dict", 0)
    ch = attr_chain(ci.func)
    inner = ci.func.value if isinstance(ci.func, ast.Attribute) and ci.func.attr == "items" else None
    ok = False
    if inner is not None and isinstance(inner, ast.Call) and not inner.args and not inner.keywords:
        f = inner.func  # slice_.cells[0].metadata.as_dict
        if (isinstance(f, ast.Attribute) and f.attr == "as_dict" and isinstance(f.value, ast.Attribute)
                and f.value.attr == "metadata" and isinstance(f.value.value, ast.Subscript)):
            sub = f.value.value
            if (attr_chain(sub.value) == [sl, "cells"] and isinstance(sub.slice, ast.Constant)
                    and sub.slice.value == 0):
                ok = True
    if not ok:
        fail("_slice_to_dict", it, "expected <slice>.cells[0].metadata.as_dict().items()")
    if len(ifs) != 1:
        fail("_slice_to_dict", dc, "expected exactly one filter")
    always = t_presence(ifs[0], k, v)
    cells_key = const_str(d.keys[1], "_slice_to_dict")
    tgt2, it2, ifs2 = comp1(d.values[1], "_slice_to_dict", ast.ListComp)
    if ifs2 or not isinstance(tgt2, ast.Name) or attr_chain(it2) != [sl, "cells"]:
        fail("_slice_to_dict", d.values[1], "expected [... for cell in <slice>.cells]")
    c = call_of(d.values[1].elt, "_slice_to_dict", 1)
    if not is_name(c.func, "_cell_to_dict") or not is_name(c.args[0], tgt2.id):
        fail("_slice_to_dict", c, "expected _cell_to_dict(<loop variable>)")
    return always, cells_key


def is_base_presence(n, v):
    """`v is not None and v != {}`"""
    if not (isinstance(n, ast.BoolOp) and isinstance(n.op, ast.And) and len(n.values) == 2):
        return False
    a, b = n.values
    ok_a = (isinstance(a, ast.Compare) and is_name(a.left, v) and len(a.ops) == 1 and isinstance(a.ops[0], ast.IsNot)
            and isinstance(a.comparators[0], ast.Constant) and a.comparators[0].value is None)
    ok_b = (isinstance(b, ast.Compare) and is_name(b.left, v) and len(b.ops) == 1 and isinstance(b.ops[0], ast.NotEq)
            and isinstance(b.comparators[0], ast.Dict) and not b.comparators[0].keys)
    return ok_a and ok_b


def t_presence(n, k, v):
    """base  |  base or k == "x" [or k == "y" ...]   (in any order) -> list of always-kept keys"""
    if is_base_presence(n, v):
        return []
    if isinstance(n, ast.BoolOp) and isinstance(n.op, ast.Or):
        base = [x for x in n.values if is_base_presence(x, v)]
        rest = [x for x in n.values if not is_base_presence(x, v)]
        if len(base) != 1:
            fail("_slice_to_dict filter", n, "expected `v is not None and v != {}`")
        out = []
        for x in rest:
            if (isinstance(x, ast.Compare) and len(x.ops) == 1 and isinstance(x.ops[0], ast.Eq)):
                l, r = x.left, x.comparators[0]
                if is_name(l, k) and isinstance(r, ast.Constant) and isinstance(r.value, str):
                    out.append(r.value)
                    continue
                if is_name(r, k) and isinstance(l, ast.Constant) and isinstance(l.value, str):
                    out.append(l.value)
                    continue
            fail("_slice_to_dict filter", x, "expected k == '<key>'")
        return out
    fail("_slice_to_dict filter", n, "presence condition not understood")


def strftime_of(n, cell, where):
    """cell.<attr>.strftime(FMT) -> (attr, FMT)"""
    c = call_of(n, where, 1)
    ch = attr_chain(c.func)
    if not ch or len(ch) != 3 or ch[0] != cell or ch[2] != "strftime" or ch[1] not in DATTR:
        fail(where, n, "expected <cell>.<date attribute>.strftime(fmt)")
    return DATTR[ch[1]], const_str(c.args[0], where)


def t_cell_to_dict(tree):
    fn = find_func(tree, "_cell_to_dict")
    (cell,) = params(fn)
    dicts = {}      # local name -> list of (key, payload)
    prev_out = []
    fmts = set()
    tolist = None
    values_key = None
    ret = None
    for st in body_of(fn):
        if isinstance(st, ast.Assign) and len(st.targets) == 1 and isinstance(st.targets[0], ast.Name) \
                and isinstance(st.value, ast.Dict):
            name = st.targets[0].id
            entries = []
            for k, v in zip(st.value.keys, st.value.values):
                key = const_str(k, "_cell_to_dict")
                if isinstance(v, ast.DictComp):
                    tgt, it, ifs = comp1(v, "_cell_to_dict", ast.DictComp)
                    if ifs or not (isinstance(tgt, ast.Tuple) and len(tgt.elts) == 2
                                   and all(isinstance(e, ast.Name) for e in tgt.elts)):
                        fail("_cell_to_dict", v, "expected `for field, value in`")
                    f, val = tgt.elts[0].id, tgt.elts[1].id
                    ci = call_of(it, "_cell_to_dict", 0)
                    if attr_chain(ci.func) != [cell, "values", "items"] or not is_name(v.key, f):
                        fail("_cell_to_dict", v, "expected {field: ... for field, value in <cell>.values.items()}")
                    e = v.value
                    ok = (isinstance(e, ast.IfExp) and is_name(e.orelse, val)
                          and isinstance(e.body, ast.Call) and not e.body.args and not e.body.keywords
                          and attr_chain(e.body.func) == [val, "tolist"]
                          and isinstance(e.test, ast.Call) and is_name(e.test.func, "isinstance")
                          and len(e.test.args) == 2 and is_name(e.test.args[0], val)
                          and attr_chain(e.test.args[1]) == ["np", "ndarray"])
                    if not ok:
                        fail("_cell_to_dict", e, "expected `value.tolist() if isinstance(value, np.ndarray) else value`")
                    tolist = True
                    entries.append((key, "VALUES"))
                else:
                    a, fmt = strftime_of(v, cell, "_cell_to_dict")
                    fmts.add(fmt)
                    entries.append((key, a))
            dicts[name] = entries
        elif isinstance(st, ast.If) and not st.orelse:
            t = st.test
            if not (isinstance(t, ast.Call) and is_name(t.func, "isinstance") and len(t.args) == 2
                    and is_name(t.args[0], cell) and is_name(t.args[1], "IncrementalCell")):
                fail("_cell_to_dict", t, "expected isinstance(<cell>, IncrementalCell)")
            # `<dict>.update({k: v, ...})` and `<dict>[k] = v` (one or several) are the same thing
            pairs, targets = [], set()
            for b in st.body:
                if isinstance(b, ast.Expr) and isinstance(b.value, ast.Call):
                    c = call_of(b.value, "_cell_to_dict", 1)
                    ch = attr_chain(c.func)
                    if not ch or len(ch) != 2 or ch[1] != "update" or ch[0] not in dicts or not isinstance(c.args[0], ast.Dict):
                        fail("_cell_to_dict", c, "expected <dict>.update({...}) or <dict>[key] = value")
                    pairs += list(zip(c.args[0].keys, c.args[0].values))
                    targets.add(ch[0])
                elif (isinstance(b, ast.Assign) and len(b.targets) == 1 and isinstance(b.targets[0], ast.Subscript)
                      and isinstance(b.targets[0].value, ast.Name) and b.targets[0].value.id in dicts):
                    pairs.append((b.targets[0].slice, b.value))
                    targets.add(b.targets[0].value.id)
                else:
                    fail("_cell_to_dict", b, "expected <dict>.update({...}) or <dict>[key] = value")
            if len(targets) != 1 or not pairs:
                fail("_cell_to_dict", st, "the IncrementalCell keys must go into one dict")
            for k, v in pairs:
                a, fmt = strftime_of(v, cell, "_cell_to_dict")
                fmts.add(fmt)
                prev_out.append((const_str(k, "_cell_to_dict"), a))
            target = targets.pop()
        elif isinstance(st, ast.Return):
            ret = st.value
        else:
            fail("_cell_to_dict", st, "statement not understood")
    if not (isinstance(ret, ast.Dict) and all(k is None for k in ret.keys) and len(ret.keys) == 2
            and all(isinstance(v, ast.Name) and v.id in dicts for v in ret.values)):
        fail("_cell_to_dict", ret, "expected {**<dates>, **<values>}")
    first, second = dicts[ret.values[0].id], dicts[ret.values[1].id]
    if any(p == "VALUES" for _, p in first) or len(second) != 1 or second[0][1] != "VALUES":
        fail("_cell_to_dict", ret, "expected the dates first and the single values entry last")
    if prev_out and target != ret.values[0].id:
        fail("_cell_to_dict", ret, "the IncrementalCell key is added to another dict")
    values_key = second[0][0]
    if len(fmts) != 1 or tolist is not True:
        fail("_cell_to_dict", fn, "date formats differ or values are not exported by tolist()")
    return first, prev_out, values_key, tolist, fmts.pop()


# ------------------------------------------------------------------------------- decoder side
def in_test(n, obj):
    """"k" in obj  /  "k" in obj.keys()  -> k"""
    if isinstance(n, ast.Compare) and len(n.ops) == 1 and isinstance(n.ops[0], ast.In):
        r = n.comparators[0]
        if is_name(r, obj) or (isinstance(r, ast.Call) and not r.args and attr_chain(r.func) == [obj, "keys"]):
            return const_str(n.left, "key test")
    fail("key test", n, "expected '<key>' in obj")


def subscript_key(n, obj, where):
    if isinstance(n, ast.Subscript) and is_name(n.value, obj):
        return const_str(n.slice, where)
    fail(where, n, "expected obj['<key>']")


def t_object_hook(tree):
    fn = find_func(tree, "object_hook", "TriangleDecoder")
    self_, obj = params(fn)
    table = []
    slices_in = None
    b = body_of(fn)
    if not b or not (isinstance(b[-1], ast.Return) and is_name(b[-1].value, obj)):
        fail("object_hook", fn, "expected a final `return obj`")
    for st in b[:-1]:
        if not (isinstance(st, ast.If) and not st.orelse and len(st.body) == 1 and isinstance(st.body[0], ast.Return)):
            fail("object_hook", st, "expected `if <key tests>: return ...`")
        t = st.test
        if isinstance(t, ast.BoolOp) and isinstance(t.op, ast.And):
            ks = [in_test(x, obj) for x in t.values]
        else:
            ks = [in_test(t, obj)]
        r = st.body[0].value
        c = call_of(r, "object_hook")
        if is_name(c.func, "sum") and len(c.args) == 2 and isinstance(c.args[1], ast.List) and not c.args[1].elts:
            slices_in = subscript_key(c.args[0], obj, "object_hook")
            act = "AConcat"
        elif attr_chain(c.func) == [self_, "_parse_cell_set"] and len(c.args) == 1 and is_name(c.args[0], obj):
            act = "ACellSet"
        elif attr_chain(c.func) == [self_, "_parse_observation"] and len(c.args) == 1 and is_name(c.args[0], obj):
            act = "AObservation"
        else:
            fail("object_hook", r, "action not understood")
        table.append((ks, act))
    if slices_in is None:
        fail("object_hook", fn, "no sum(obj[...], []) branch")
    return table, slices_in


def t_parse_cell_set(tree):
    fn = find_func(tree, "_parse_cell_set", "TriangleDecoder")
    ps = params(fn)
    obj = ps[-1]
    b = body_of(fn)
    if len(b) != 2 or not isinstance(b[0], ast.Assign) or not isinstance(b[1], ast.Return):
        fail("_parse_cell_set", fn, "expected `metadata = Metadata(...)` and a return")
    mname = b[0].targets[0].id if isinstance(b[0].targets[0], ast.Name) else None
    c = call_of(b[0].value, "_parse_cell_set", 0, kw=True)
    if not is_name(c.func, "Metadata"):
        fail("_parse_cell_set", c, "expected Metadata(...)")
    table = []
    for kw in c.keywords:
        if kw.arg not in ATTR:
            fail("_parse_cell_set", c, f"unknown keyword {kw.arg}")
        g = call_of(kw.value, "_parse_cell_set")
        if attr_chain(g.func) != [obj, "get"] or len(g.args) not in (1, 2):
            fail("_parse_cell_set", kw.value, "expected obj.get(key[, default])")
        key = const_str(g.args[0], "_parse_cell_set")
        if len(g.args) == 1 or (isinstance(g.args[1], ast.Constant) and g.args[1].value is None):
            dflt = "DfNone"
        elif isinstance(g.args[1], ast.Constant) and isinstance(g.args[1].value, str):
            dflt = f"(DfStr {cstr(g.args[1].value)})"
        elif isinstance(g.args[1], ast.Dict) and not g.args[1].keys:
            dflt = "DfEmptyDict"
        else:
            fail("_parse_cell_set", g.args[1], "default not understood")
        table.append((ATTR[kw.arg], key, dflt))
    r = b[1].value
    tgt, it, ifs = comp1(r, "_parse_cell_set", ast.ListComp)
    if ifs or not isinstance(tgt, ast.Name):
        fail("_parse_cell_set", r, "unexpected comprehension")
    e = call_of(r.elt, "_parse_cell_set", 0, kw=True)
    if (attr_chain(e.func) != [tgt.id, "replace"] or len(e.keywords) != 1 or e.keywords[0].arg != "metadata"
            or not is_name(e.keywords[0].value, mname)):
        fail("_parse_cell_set", r.elt, "expected ob.replace(metadata=metadata)")
    return table, subscript_key(it, obj, "_parse_cell_set")


class _SubstNames(ast.NodeTransformer):
    def __init__(self, env):
        self.env = env

    def visit_Name(self, n):
        if isinstance(n.ctx, ast.Load) and n.id in self.env:
            return copy.deepcopy(self.env[n.id])
        return n


def inline_helper(e, cls_node, self_name, depth=0):
    """`self.h(a, b)` / `Cls.h(a, b)` where h is a method / staticmethod of the class whose body is a single
    `return <expr>` over plain positional parameters  ->  <expr> with the arguments substituted (pure argument
    expressions only: names, attributes, constants, subscripts).  Anything else is returned unchanged."""
    if not (isinstance(e, ast.Call) and isinstance(e.func, ast.Attribute) and isinstance(e.func.value, ast.Name)
            and e.func.value.id in (self_name, cls_node.name) and not e.keywords and depth < 3):
        return e
    hs = [n for n in cls_node.body if isinstance(n, ast.FunctionDef) and n.name == e.func.attr]
    if len(hs) != 1:
        return e
    h = hs[0]
    b = body_of(h)
    a = h.args
    if (len(b) != 1 or not isinstance(b[0], ast.Return) or b[0].value is None or a.vararg or a.kwarg or a.kwonlyargs
            or a.defaults or a.posonlyargs):
        return e
    static = any(isinstance(d, ast.Name) and d.id == "staticmethod" for d in h.decorator_list)
    if any(not ((isinstance(d, ast.Name) and d.id == "staticmethod")) for d in h.decorator_list):
        return e
    ps = [x.arg for x in a.args]
    env = {}
    if not static:
        if not ps or e.func.value.id != self_name:
            return e
        env[ps[0]] = ast.Name(id=self_name, ctx=ast.Load())
        ps = ps[1:]
    if len(ps) != len(e.args):
        return e
    for arg in e.args:
        for n in ast.walk(arg):
            if not isinstance(n, (ast.Name, ast.Attribute, ast.Constant, ast.Subscript, ast.Load)):
                return e
    env.update(dict(zip(ps, e.args)))
    if len(set(env)) != len(env):
        return e
    out = _SubstNames(env).visit(copy.deepcopy(b[0].value))
    return inline_helper(out, cls_node, self_name, depth + 1)


def t_parse_observation(tree):
    cls_node = [n for n in tree.body if isinstance(n, ast.ClassDef) and n.name == "TriangleDecoder"][0]
    fn = find_func(tree, "_parse_observation", "TriangleDecoder")
    self_, obj = params(fn)
    b = body_of(fn)
    # keyword dictionaries hoisted into locals:  name = {"kw": <expr>, ...}  between the values comprehension and the
    # `if`, used ONLY as `**name` in the constructor calls.  `C(a=x, **name)` passes the same keyword arguments; the
    # dictionary is evaluated where it is assigned, i.e. BEFORE the call's own keywords, which fixes the parse order.
    hoisted = {}
    while (len(b) > 3 and isinstance(b[1], ast.Assign) and len(b[1].targets) == 1 and isinstance(b[1].targets[0], ast.Name)
           and isinstance(b[1].value, ast.Dict) and all(isinstance(k, ast.Constant) and isinstance(k.value, str) for k in b[1].value.keys)):
        name = b[1].targets[0].id
        if name in hoisted:
            fail("_parse_observation", b[1], "keyword dictionary assigned twice")
        hoisted[name] = [ast.keyword(arg=k.value, value=v) for k, v in zip(b[1].value.keys, b[1].value.values)]
        b = [b[0]] + b[2:]
    if len(b) != 3 or not isinstance(b[0], ast.Assign) or not isinstance(b[1], ast.If) or not isinstance(b[2], ast.Return):
        fail("_parse_observation", fn, "expected values = {...}; if ...: cell = A(...) else: cell = B(...); return cell")
    for hname in hoisted:          # the local must not be read, changed or passed on anywhere else
        uses = [n for n in ast.walk(fn) if isinstance(n, ast.Name) and n.id == hname]
        splats = [kw.value for n in ast.walk(fn) if isinstance(n, ast.Call) for kw in n.keywords if kw.arg is None]
        if sum(1 for u in uses if isinstance(u.ctx, ast.Store)) != 1 or any(
                isinstance(u.ctx, ast.Load) and not any(u is sp for sp in splats) for u in uses):
            fail("_parse_observation", fn, f"keyword dictionary {hname} is used other than as **{hname}")
    vname = b[0].targets[0].id if isinstance(b[0].targets[0], ast.Name) else None
    dc = b[0].value
    tgt, it, ifs = comp1(dc, "_parse_observation", ast.DictComp)
    if ifs or not (isinstance(tgt, ast.Tuple) and len(tgt.elts) == 2 and all(isinstance(e, ast.Name) for e in tgt.elts)):
        fail("_parse_observation", dc, "expected `for k, v in`")
    k, v = tgt.elts[0].id, tgt.elts[1].id
    ci = call_of(it, "_parse_observation", 0)
    if not (isinstance(ci.func, ast.Attribute) and ci.func.attr == "items"):
        fail("_parse_observation", it, "expected obj['<values key>'].items()")
    values_in = subscript_key(ci.func.value, obj, "_parse_observation")
    e = dc.value
    ok = (is_name(dc.key, k) and isinstance(e, ast.IfExp) and is_name(e.orelse, v)
          and isinstance(e.body, ast.Call) and attr_chain(e.body.func) == ["np", "array"]
          and len(e.body.args) == 1 and not e.body.keywords and is_name(e.body.args[0], v)
          and isinstance(e.test, ast.Call) and is_name(e.test.func, "isinstance") and len(e.test.args) == 2
          and is_name(e.test.args[0], v) and is_name(e.test.args[1], "list"))
    if not ok:
        fail("_parse_observation", dc, "expected {k: np.array(v) if isinstance(v, list) else v ...}")
    inc_test = in_test(b[1].test, obj)

    def ctor(stmts):
        if len(stmts) != 1 or not isinstance(stmts[0], ast.Assign) or not isinstance(stmts[0].targets[0], ast.Name):
            fail("_parse_observation", stmts[0] if stmts else fn, "expected `cell = <Class>(...)`")
        c = call_of(stmts[0].value, "_parse_observation", 0, kw=True)
        if not isinstance(c.func, ast.Name) or c.func.id not in KIND:
            fail("_parse_observation", c, "unknown cell class")
        table, has_values = [], False
        # effective keywords in EVALUATION order: hoisted dictionaries (built before the call, in assignment order)
        # first, then the call's own keywords; an inline **{...} literal keeps its position
        early, own = [], []
        for kw in c.keywords:
            if kw.arg is not None:
                own.append(kw)
            elif isinstance(kw.value, ast.Name) and kw.value.id in hoisted:
                early.append(kw.value.id)
            elif isinstance(kw.value, ast.Dict) and all(isinstance(k, ast.Constant) and isinstance(k.value, str) for k in kw.value.keys):
                own += [ast.keyword(arg=k.value, value=v) for k, v in zip(kw.value.keys, kw.value.values)]
            else:
                fail("_parse_observation", c, "** of something that is not a local keyword dictionary")
        keywords = [k for h in hoisted if h in early for k in hoisted[h]] + own
        if len({k.arg for k in keywords}) != len(keywords) or len(set(early)) != len(early):
            fail("_parse_observation", c, "a keyword is passed twice")
        for kw in keywords:
            if kw.arg == "values":
                if not is_name(kw.value, vname):
                    fail("_parse_observation", kw.value, "values=<the converted dict> expected")
                has_values = True
                continue
            if kw.arg not in DATTR:
                fail("_parse_observation", c, f"unknown keyword {kw.arg}")
            # datetime.datetime.strptime(obj[key], self.date_format).date(), possibly through a one-line helper
            d = call_of(inline_helper(kw.value, cls_node, self_), "_parse_observation", 0)
            if not (isinstance(d.func, ast.Attribute) and d.func.attr == "date"):
                fail("_parse_observation", kw.value, "expected strptime(...).date()")
            s = call_of(d.func.value, "_parse_observation", 2)
            if attr_chain(s.func) not in (["datetime", "datetime", "strptime"], ["datetime", "strptime"]):
                fail("_parse_observation", s, "expected datetime.datetime.strptime")
            if attr_chain(s.args[1]) != [self_, "date_format"]:
                fail("_parse_observation", s.args[1], "expected self.date_format")
            table.append((DATTR[kw.arg], subscript_key(s.args[0], obj, "_parse_observation")))
        if not has_values:
            fail("_parse_observation", c, "values= not passed")
        return KIND[c.func.id], table, stmts[0].targets[0].id

    k_if, t_if, n1 = ctor(b[1].body)
    k_else, t_else, n2 = ctor(b[1].orelse)
    if n1 != n2 or not is_name(b[2].value, n1):
        fail("_parse_observation", b[2], "expected `return cell`")
    return values_in, inc_test, k_if, t_if, k_else, t_else


def t_date_format_default(tree):
    """default of date_format in TriangleDecoder.__init__ and the entry points (must agree)"""
    fmts = set()
    for name, cls in (("__init__", "TriangleDecoder"), ("json_to_triangle", None), ("json_string_to_triangle", None)):
        fn = find_func(tree, name, cls)
        names = [a.arg for a in fn.args.args]
        if "date_format" not in names:
            fail(name, fn, "no date_format parameter")
        i = names.index("date_format") - (len(names) - len(fn.args.defaults))
        if i < 0:
            fail(name, fn, "date_format has no default")
        fmts.add(const_str(fn.args.defaults[i], name))
    if len(fmts) != 1:
        fail("date_format defaults", None, f"differ: {sorted(fmts)}")
    init = find_func(tree, "__init__", "TriangleDecoder")
    # object_hook=self.object_hook must be installed
    src = ast.unparse(init)
    if "object_hook=self.object_hook" not in src or "self.date_format = date_format" not in src:
        fail("TriangleDecoder.__init__", init, "hook or date_format not installed")
    return fmts.pop()


# ------------------------------------------------------------------------------- Coq output
def cstr(s: str) -> str:
    for ch in s:
        if ord(ch) > 126 or ord(ch) < 32 or ch == '"':
            raise Unsupported(f"key {s!r} is not printable ASCII")
    return f'(str_of_string "{s}")'


def clist(items):
    return "[" + "; ".join(items) + "]"


def describe(repo: Path) -> dict:
    jtree = ast.parse((repo / "bermuda/io/json.py").read_text())
    mtree = ast.parse((repo / "bermuda/base/metadata.py").read_text())
    d = {}
    d["slices"] = t_triangle_to_dict(jtree)
    d["meta_out"] = t_as_dict(mtree)
    d["always"], d["cells"] = t_slice_to_dict(jtree)
    d["cell_out"], d["prev_out"], d["values"], d["tolist"], d["fmt_out"] = t_cell_to_dict(jtree)
    d["dispatch"], d["slices_in"] = t_object_hook(jtree)
    d["meta_in"], d["cells_in"] = t_parse_cell_set(jtree)
    (d["values_in"], d["inc_test"], d["class_if"], d["dates_if"], d["class_else"],
     d["dates_else"]) = t_parse_observation(jtree)
    d["fmt_in"] = t_date_format_default(jtree)
    return d


def emit(d: dict) -> str:
    b = lambda x: "true" if x else "false"  # noqa: E731
    L = [
        "(* GENERATED by translate/t_json.py from bermuda/io/json.py and bermuda/base/metadata.py *)",
        "From Coq Require Import ZArith List String.",
        "From Bermuda Require Import Model.Base Model.Json.",
        "Import ListNotations.",
        "Definition layout : Json.layout := {|",
        f"  L_slices := {cstr(d['slices'])};",
        "  L_meta_out := " + clist(f"({cstr(k)}, {a})" for k, a in d["meta_out"]) + ";",
        "  L_always := " + clist(cstr(k) for k in d["always"]) + ";",
        f"  L_cells := {cstr(d['cells'])};",
        "  L_cell_out := " + clist(f"({cstr(k)}, {a})" for k, a in d["cell_out"]) + ";",
        "  L_prev_out := " + clist(f"({cstr(k)}, {a})" for k, a in d["prev_out"]) + ";",
        f"  L_values := {cstr(d['values'])};",
        f"  L_tolist := {b(d['tolist'])};",
        f"  L_fmt_out := {cstr(d['fmt_out'])};",
        "  L_dispatch := " + clist("(" + clist(cstr(k) for k in ks) + f", {a})" for ks, a in d["dispatch"]) + ";",
        f"  L_slices_in := {cstr(d['slices_in'])};",
        "  L_meta_in := " + clist(f"({a}, {cstr(k)}, {df})" for a, k, df in d["meta_in"]) + ";",
        f"  L_cells_in := {cstr(d['cells_in'])};",
        f"  L_values_in := {cstr(d['values_in'])};",
        "  L_np_array := true;",
        f"  L_inc_test := {cstr(d['inc_test'])};",
        f"  L_class_if := {d['class_if']};",
        "  L_dates_if := " + clist(f"({a}, {cstr(k)})" for a, k in d["dates_if"]) + ";",
        f"  L_class_else := {d['class_else']};",
        "  L_dates_else := " + clist(f"({a}, {cstr(k)})" for a, k in d["dates_else"]) + ";",
        f"  L_fmt_in := {cstr(d['fmt_in'])} |}}.",
        "",
    ]
    return "\n".join(L)


def translate(repo) -> str:
    return emit(describe(Path(repo)))


if __name__ == "__main__":
    import sys

    print(translate(sys.argv[1] if len(sys.argv) > 1 else "/repo"))
