"""T-pred: fail-closed translator of the decision-carrying predicates of the selection and join
operators  ->  GenPred.v  (descriptions interpreted by coq/Model/Select.v and coq/Model/Join.v).

select part (C11)   bermuda/triangle.py
    Triangle.clip         every `if <bound> is not None: cells = filter(lambda cell: <cmp>, cells)`
                          -> (which bound, cell attribute, comparison operator, guard kind); any order
    Triangle.__getitem__  the three filter lambdas / clip keywords / date.min-date.max defaults
    TriangleSlice.__getitem__  the same for the two-index form
join part (C10)     bermuda/utils/join.py, bermuda/utils/merge.py
    join                  index-key tuples (cumulative / incremental), the set operation forming
                          `all_coordinates`, the if/elif chain over join_type: each branch's keep
                          condition evaluated on (both present, left only, right only); any order
    _merge_cell_pair      `{**cell1.values, **cell2.values}` order, which cell is `.replace`d
    coalesce              grouping-key tuple, `cell_options[<0|-1>]`

How it fails closed: the decision nodes are cut out of the function, what remains (the plumbing) is
compared -- after stripping docstrings and exception messages and renaming local variables by order
of first appearance -- with the same skeleton of a reference text kept below.  Any other shape
raises Unsupported naming the first differing line.  Insensitive to comments, formatting,
docstrings, messages, local renaming, order of the clip filters and of the join branches.
"""
from __future__ import annotations

import ast
import copy
import difflib
from pathlib import Path


try:
    from translate import normalize as nz
except ImportError:  # run as a script
    import sys as _sys

    _sys.path.insert(0, str(Path(__file__).resolve().parent.parent))
    from translate import normalize as nz


class Unsupported(Exception):
    pass


def src(node):
    try:
        return ast.unparse(node)
    except Exception:  # noqa: BLE001
        return repr(node)


def bail(node, why):
    raise Unsupported(f"{why}: `{src(node)[:200]}` (line {getattr(node, 'lineno', '?')})")


def find_def(tree, name, cls=None):
    body = tree.body
    if cls is not None:
        for n in body:
            if isinstance(n, ast.ClassDef) and n.name == cls:
                body = n.body
                break
        else:
            raise Unsupported(f"class {cls} not found")
    hits = [n for n in body if isinstance(n, ast.FunctionDef) and n.name == name]
    if len(hits) != 1:
        raise Unsupported(f"{len(hits)} definitions of {cls + '.' if cls else ''}{name}")
    return hits[0]


def strip_doc(fn):
    b = fn.body
    if b and isinstance(b[0], ast.Expr) and isinstance(b[0].value, ast.Constant) and isinstance(b[0].value.value, str):
        return b[1:]
    return b


# ------------------------------------------------------------------------------ skeleton compare
class _Holes(ast.NodeTransformer):
    def __init__(self, holes):
        self.ids = {id(h): i for i, h in enumerate(holes)}

    def generic_visit(self, node):
        return super().generic_visit(node)

    def visit(self, node):
        if id(node) in self.ids:
            return ast.copy_location(ast.Constant(value=f"<HOLE{self.ids[id(node)]}>"), node)
        if isinstance(node, ast.Raise) and node.exc is not None:
            exc = node.exc
            name = exc.func if isinstance(exc, ast.Call) else exc
            # a `raise (X(...))` keeps only the class
            return ast.copy_location(ast.Raise(exc=copy.deepcopy(name), cause=None), node)
        if isinstance(node, ast.Call) and src(node.func) in ("warn", "warnings.warn"):
            return ast.copy_location(ast.Call(func=copy.deepcopy(node.func), args=[], keywords=[]), node)
        return super().visit(node)


def skeleton(fn: ast.FunctionDef, holes) -> str:
    """Normalised text of the function with the hole nodes cut out."""
    fn2 = _Holes(holes).visit(fn)  # holes are replaced in place (we work on a private parse)
    fn2.body = strip_doc(fn2)
    fn2.decorator_list = []
    fn2.returns = None
    for a in fn2.args.args + fn2.args.kwonlyargs:
        a.annotation = None
    # locals: parameters, assigned names, lambda parameters, comprehension targets
    local = []

    def add(n):
        if n not in local:
            local.append(n)

    for n in ast.walk(fn2):
        if isinstance(n, ast.arg):
            add(n.arg)
        elif isinstance(n, ast.Name) and isinstance(n.ctx, ast.Store):
            add(n.id)
    ren = {n: f"v{i}" for i, n in enumerate(local)}
    for n in ast.walk(fn2):
        if isinstance(n, ast.arg):
            n.arg = ren[n.arg]
        elif isinstance(n, ast.Name) and n.id in ren:
            n.id = ren[n.id]
        elif isinstance(n, ast.keyword) and n.arg in ren and False:
            pass
    fn2.name = "f"
    ast.fix_missing_locations(fn2)
    return ast.unparse(fn2)


def same_skeleton(what, actual_fn, actual_holes, ref_src, ref_holes_of):
    ref_fn = ast.parse(ref_src).body[0]
    ref_holes = ref_holes_of(ref_fn)
    if len(ref_holes) != len(actual_holes):
        raise Unsupported(f"{what}: {len(actual_holes)} decision nodes found, {len(ref_holes)} expected")
    a = skeleton(actual_fn, actual_holes)
    r = skeleton(ref_fn, ref_holes)
    if a != r:
        d = [ln for ln in difflib.unified_diff(r.splitlines(), a.splitlines(), "expected", "source", lineterm="", n=0)
             if not ln.startswith(("---", "+++", "@@"))]
        raise Unsupported(f"{what}: unexpected shape outside the translated predicates: " + " | ".join(d[:6]))


# ------------------------------------------------------------------------------ clip
BOUNDS = {"min_eval": "BMinEval", "max_eval": "BMaxEval", "min_period": "BMinPeriod",
          "max_period": "BMaxPeriod", "min_dev": "BMinDev", "max_dev": "BMaxDev"}
ATTRS = {"evaluation_date": "AEval", "period_start": "APeriodStart", "period_end": "APeriodEnd",
         "prev_evaluation_date": "APrevEval"}
OPS = {ast.Lt: "OpLt", ast.LtE: "OpLe", ast.Gt: "OpGt", ast.GtE: "OpGe", ast.Eq: "OpEq", ast.NotEq: "OpNe"}
FLIP = {"OpLt": "OpGt", "OpLe": "OpGe", "OpGt": "OpLt", "OpGe": "OpLe", "OpEq": "OpEq", "OpNe": "OpNe"}


def cell_attr(node, cellvar, unit_param=None):
    """cell.<attribute> | cell.dev_lag(<unit parameter>)  -> attribute constructor or None"""
    if isinstance(node, ast.Attribute) and isinstance(node.value, ast.Name) and node.value.id == cellvar:
        if node.attr in ATTRS:
            return ATTRS[node.attr]
        bail(node, "unknown cell attribute")
    if (isinstance(node, ast.Call) and isinstance(node.func, ast.Attribute) and node.func.attr == "dev_lag"
            and isinstance(node.func.value, ast.Name) and node.func.value.id == cellvar):
        if (len(node.args) == 1 and not node.keywords and isinstance(node.args[0], ast.Name)
                and node.args[0].id == unit_param):
            return "ADevLag"
        bail(node, "dev_lag must be called with the dev_lag_unit parameter")
    return None


def lambda_cmp(lam, unit_param=None):
    """lambda cell: <cell attr> <op> <name>   (either side)  -> (attr, op normalised to attr-on-the-left, name)"""
    if not (isinstance(lam, ast.Lambda) and len(lam.args.args) == 1 and not lam.args.kwonlyargs
            and not lam.args.vararg and not lam.args.kwarg and not lam.args.defaults):
        bail(lam, "expected a one-argument lambda")
    cv = lam.args.args[0].arg
    b = lam.body
    if not (isinstance(b, ast.Compare) and len(b.ops) == 1 and type(b.ops[0]) in OPS):
        bail(lam, "expected a single comparison")
    op = OPS[type(b.ops[0])]
    left, right = b.left, b.comparators[0]
    la, ra = cell_attr(left, cv, unit_param), cell_attr(right, cv, unit_param)
    if la and isinstance(right, ast.Name) and right.id != cv:
        return la, op, right.id
    if ra and isinstance(left, ast.Name) and left.id != cv:
        return ra, FLIP[op], left.id
    bail(lam, "expected `cell.<attr> <op> <bound>`")


def translate_clip(tree):
    fn = find_def(tree, "clip", "Triangle")
    kw = [a.arg for a in fn.args.kwonlyargs] + [a.arg for a in fn.args.args]
    for b in BOUNDS:
        if b not in kw:
            raise Unsupported(f"clip has no parameter {b}")
    if "dev_lag_unit" not in kw:
        raise Unsupported("clip has no parameter dev_lag_unit")
    body = strip_doc(fn)
    if len(body) < 2:
        bail(fn, "clip body too short")
    first, last = body[0], body[-1]
    if not (isinstance(first, ast.Assign) and len(first.targets) == 1 and isinstance(first.targets[0], ast.Name)
            and src(first.value) in ("self._cells", "self.cells")):
        bail(first, "expected `cells = self._cells`")
    var = first.targets[0].id
    if not (isinstance(last, ast.Return) and src(last.value) in (f"Triangle(list({var}))", f"Triangle({var})")):
        bail(last, "expected `return Triangle(list(cells))`")
    entries = []
    for st in body[1:-1]:
        if not (isinstance(st, ast.If) and not st.orelse and len(st.body) == 1):
            bail(st, "expected `if <bound> ...: cells = filter(...)` without else")
        t = st.test
        if (isinstance(t, ast.Compare) and len(t.ops) == 1 and isinstance(t.ops[0], ast.IsNot)
                and isinstance(t.left, ast.Name) and isinstance(t.comparators[0], ast.Constant)
                and t.comparators[0].value is None):
            gname, guard = t.left.id, "GNotNone"
        elif isinstance(t, ast.Name):
            gname, guard = t.id, "GTruthy"
        else:
            bail(t, "unsupported guard")
        a = st.body[0]
        if not (isinstance(a, ast.Assign) and len(a.targets) == 1 and isinstance(a.targets[0], ast.Name)
                and a.targets[0].id == var and isinstance(a.value, ast.Call)
                and isinstance(a.value.func, ast.Name) and a.value.func.id == "filter"
                and len(a.value.args) == 2 and not a.value.keywords
                and isinstance(a.value.args[1], ast.Name) and a.value.args[1].id == var):
            bail(a, "expected `cells = filter(<lambda>, cells)`")
        attr, op, bname = lambda_cmp(a.value.args[0], "dev_lag_unit")
        if bname != gname:
            bail(st, f"guard tests `{gname}` but the filter compares with `{bname}`")
        if bname not in BOUNDS:
            bail(st, "comparison with something that is not a clip bound")
        entries.append((BOUNDS[bname], attr, op, guard))
    return entries


# ------------------------------------------------------------------------------ __getitem__
REF_GETITEM = '''
def __getitem__(self, index):
    if isinstance(index, int):
        return self._cells[index]
    if isinstance(index, slice):
        return Triangle(self._cells[index])
    if len(index) == 3:
        period_slice, evaluation_slice, metadata = index
    else:
        raise ValueError("x")
    if metadata and metadata != slice(None, None, None):
        filtered = self.filter(lambda cell: cell.metadata == metadata)
    else:
        filtered = self
    if isinstance(period_slice, slice):
        period_start = period_slice.start
        period_end = period_slice.stop
    elif isinstance(period_slice, datetime.date):
        period_start, period_end = period_slice, period_slice
    else:
        raise ValueError("x")
    if not period_start:
        period_start = datetime.date.min
    if not period_end:
        period_end = datetime.date.max
    filtered = filtered.filter(lambda cell: period_start <= cell.period_start <= period_end)
    if isinstance(evaluation_slice, slice):
        evaluation_start = evaluation_slice.start
        evaluation_end = evaluation_slice.stop
    elif isinstance(evaluation_slice, datetime.date):
        evaluation_start, evaluation_end = evaluation_slice, evaluation_slice
    else:
        raise ValueError("x")
    clipped = filtered.clip(min_eval=evaluation_start, max_eval=evaluation_end)
    if any(isinstance(ind, slice) for ind in index):
        return clipped
    return clipped._cells[0]
'''


REF_GETITEM_SLICE = '''
def __getitem__(self, index):
    if isinstance(index, int):
        return self._cells[index]
    if isinstance(index, slice):
        return TriangleSlice(self._cells[index])
    if len(index) == 2:
        period_slice, evaluation_slice = index
    else:
        raise ValueError("x")
    if isinstance(period_slice, slice):
        period_start = period_slice.start
        period_end = period_slice.stop
    elif isinstance(period_slice, datetime.date):
        period_start, period_end = period_slice, period_slice
    else:
        raise ValueError("x")
    if not period_start:
        period_start = datetime.date.min
    if not period_end:
        period_end = datetime.date.max
    filtered = self.filter(lambda cell: period_start <= cell.period_start <= period_end)
    if isinstance(evaluation_slice, slice):
        evaluation_start = evaluation_slice.start
        evaluation_end = evaluation_slice.stop
    elif isinstance(evaluation_slice, datetime.date):
        evaluation_start, evaluation_end = evaluation_slice, evaluation_slice
    else:
        raise ValueError("x")
    clipped = filtered.clip(min_eval=evaluation_start, max_eval=evaluation_end)
    if any(isinstance(ind, slice) for ind in index):
        return TriangleSlice(clipped.cells)
    return clipped._cells[0]
'''


def _getitem_nodes(fn, n_lambdas=2):
    """decision nodes in a fixed order: [(meta lambda,) period lambda, lo default, hi default, clip call]"""
    lambdas = [n for n in ast.walk(fn) if isinstance(n, ast.Lambda)]
    lambdas.sort(key=lambda n: (n.lineno, n.col_offset))
    if len(lambdas) != n_lambdas:
        raise Unsupported(f"__getitem__: {len(lambdas)} lambdas, {n_lambdas} expected")
    dfl = []
    for st in strip_doc(fn):
        if (isinstance(st, ast.If) and isinstance(st.test, ast.UnaryOp) and isinstance(st.test.op, ast.Not)
                and len(st.body) == 1 and isinstance(st.body[0], ast.Assign) and not st.orelse):
            dfl.append(st.body[0].value)
    if len(dfl) != 2:
        raise Unsupported(f"__getitem__: {len(dfl)} `if not x: x = default` statements, 2 expected")
    clips = [n for n in ast.walk(fn) if isinstance(n, ast.Call) and isinstance(n.func, ast.Attribute)
             and n.func.attr == "clip"]
    if len(clips) != 1:
        raise Unsupported(f"__getitem__: {len(clips)} clip calls, 1 expected")
    return lambdas + dfl + clips


def translate_getitem(tree, cls="Triangle"):
    fn = find_def(tree, "__getitem__", cls)
    with_meta = cls == "Triangle"
    nodes = _getitem_nodes(fn, 2 if with_meta else 1)
    if with_meta:
        lam_meta, lam_period, d_lo, d_hi, clipcall = nodes
    else:
        lam_period, d_lo, d_hi, clipcall = nodes
        lam_meta = ast.parse("lambda cell: cell.metadata == metadata").body[0].value   # no metadata component
    # cell.metadata <op> metadata
    if not (len(lam_meta.args.args) == 1 and isinstance(lam_meta.body, ast.Compare) and len(lam_meta.body.ops) == 1):
        bail(lam_meta, "metadata filter")
    cv = lam_meta.args.args[0].arg
    c = lam_meta.body
    sides = [src(c.left), src(c.comparators[0])]
    if f"{cv}.metadata" not in sides or type(c.ops[0]) not in OPS:
        bail(lam_meta, "expected `cell.metadata == metadata`")
    other = c.comparators[0] if sides[0] == f"{cv}.metadata" else c.left
    if not isinstance(other, ast.Name):
        bail(lam_meta, "expected a comparison with the metadata index")
    meta_name = other.id
    meta_op = OPS[type(c.ops[0])]
    if meta_op not in ("OpEq", "OpNe"):
        bail(lam_meta, "metadata can only be compared with == / !=")
    # lo <= cell.<attr> <= hi  (chained) or  a and b
    cv = lam_period.args.args[0].arg
    b = lam_period.body
    if isinstance(b, ast.Compare) and len(b.ops) == 2:
        mid = cell_attr(b.comparators[0], cv)
        if not (mid and isinstance(b.left, ast.Name) and isinstance(b.comparators[1], ast.Name)
                and type(b.ops[0]) in OPS and type(b.ops[1]) in OPS):
            bail(lam_period, "expected `lo <= cell.<attr> <= hi`")
        attr = mid
        lo_name, lo_op = b.left.id, FLIP[OPS[type(b.ops[0])]]
        hi_name, hi_op = b.comparators[1].id, OPS[type(b.ops[1])]
    else:
        bail(lam_period, "expected a chained comparison `lo <= cell.<attr> <= hi`")

    def dflt(n):
        s = src(n)
        if s in ("datetime.date.min", "date.min"):
            return "DMin"
        if s in ("datetime.date.max", "date.max"):
            return "DMax"
        bail(n, "unsupported default")

    # which variable receives which default
    dstmts = [st for st in strip_doc(fn) if isinstance(st, ast.If) and isinstance(st.test, ast.UnaryOp)
              and isinstance(st.test.op, ast.Not)]
    dmap = {}
    for st in dstmts:
        if not (isinstance(st.test.operand, ast.Name) and isinstance(st.body[0].targets[0], ast.Name)
                and st.body[0].targets[0].id == st.test.operand.id):
            bail(st, "expected `if not x: x = <default>`")
        dmap[st.test.operand.id] = dflt(st.body[0].value)
    lo_d, hi_d = dmap.get(lo_name, "DNoDefault"), dmap.get(hi_name, "DNoDefault")
    # which variable comes from .start / .stop of the period slice and of the evaluation slice
    starts, stops = {}, {}
    for n in ast.walk(fn):
        if (isinstance(n, ast.Assign) and len(n.targets) == 1 and isinstance(n.targets[0], ast.Name)
                and isinstance(n.value, ast.Attribute) and isinstance(n.value.value, ast.Name)):
            if n.value.attr == "start":
                starts[n.targets[0].id] = n.value.value.id
            elif n.value.attr == "stop":
                stops[n.targets[0].id] = n.value.value.id
    if lo_name not in starts or hi_name not in stops or starts[lo_name] != stops[hi_name]:
        bail(lam_period, "the lower/upper bound must be the .start/.stop of the same slice")
    # clip(min_eval=<start of evaluation slice>, max_eval=<stop ...>)
    if clipcall.args or len(clipcall.keywords) != 2:
        bail(clipcall, "expected clip(<kw>=evaluation_start, <kw>=evaluation_end)")
    ev_lo = ev_hi = None
    for k in clipcall.keywords:
        if k.arg not in BOUNDS or not isinstance(k.value, ast.Name):
            bail(clipcall, "unsupported clip keyword")
        if k.value.id in starts and starts[k.value.id] != starts[lo_name]:
            ev_lo = BOUNDS[k.arg]
        elif k.value.id in stops and stops[k.value.id] != starts[lo_name]:
            ev_hi = BOUNDS[k.arg]
        else:
            bail(clipcall, "clip argument is not the evaluation slice's start/stop")
    if ev_lo is None or ev_hi is None:
        bail(clipcall, "clip must receive both ends of the evaluation slice")
    # the period slice is the first, the evaluation slice the second element of the index, the
    # metadata the third: checked by the skeleton (tuple unpacking order) below
    if with_meta:
        same_skeleton("Triangle.__getitem__", fn, nodes, REF_GETITEM, _getitem_nodes)
    else:
        same_skeleton("TriangleSlice.__getitem__", fn, nodes, REF_GETITEM_SLICE, lambda f: _getitem_nodes(f, 1))
    del meta_name
    return dict(attr=attr, lo_op=lo_op, hi_op=hi_op, lo_d=lo_d, hi_d=hi_d, ev_lo=ev_lo, ev_hi=ev_hi, meta_op=meta_op)


# ------------------------------------------------------------------------------ join
REF_JOIN = '''
def join(tri1, tri2, join_type="full", on=None):
    if min(len(tri1), len(tri2)) > 0 and type(tri1.cells[0]) != type(tri2.cells[0]):
        raise ValueError("x")
    if on:
        tri1 = _select_metadata(tri1, on)
        tri2 = _select_metadata(tri2, on)
    if tri1.is_incremental:
        tri1_cells = {(cell.metadata, cell.period_start, cell.period_end, cell.evaluation_date, cell.prev_evaluation_date): cell for cell in tri1}
        tri2_cells = {(cell.metadata, cell.period_start, cell.period_end, cell.evaluation_date, cell.prev_evaluation_date): cell for cell in tri2}
    else:
        tri1_cells = {(cell.metadata, cell.period_start, cell.period_end, cell.evaluation_date): cell for cell in tri1}
        tri2_cells = {(cell.metadata, cell.period_start, cell.period_end, cell.evaluation_date): cell for cell in tri2}
    all_coordinates = set(tri1_cells.keys()) | set(tri2_cells.keys())
    cell_pairs = [(tri1_cells.get(coord), tri2_cells.get(coord)) for coord in all_coordinates]
    if join_type == "full":
        return cell_pairs
    else:
        raise ValueError("x")
'''
KATTR = {"metadata": ["KMeta"], "period_start": ["KPs"], "period_end": ["KPe"], "evaluation_date": ["KEv"],
         "prev_evaluation_date": ["KPrev"], "period": ["KPs", "KPe"]}
SETOPS = {ast.BitOr: "SUnion", ast.BitAnd: "SInter", ast.Sub: "SDiffLR"}


def key_tuple(node, cv):
    if not isinstance(node, ast.Tuple):
        bail(node, "expected a key tuple")
    out = []
    for e in node.elts:
        if not (isinstance(e, ast.Attribute) and isinstance(e.value, ast.Name) and e.value.id == cv
                and e.attr in KATTR):
            bail(e, "unsupported key component")
        out += KATTR[e.attr]
    return out


def _join_nodes(fn):
    """[4 dict-comprehension keys (source order), the set BinOp, the join_type if-chain]"""
    dcs = [n for n in ast.walk(fn) if isinstance(n, ast.DictComp)]
    dcs.sort(key=lambda n: (n.lineno, n.col_offset))
    if len(dcs) != 4:
        raise Unsupported(f"join: {len(dcs)} dict comprehensions, 4 expected")
    binops = [n for st in strip_doc(fn) for n in ast.walk(st)
              if isinstance(n, ast.BinOp) and type(n.op) in (ast.BitOr, ast.BitAnd, ast.Sub, ast.BitXor)]
    if len(binops) != 1:
        raise Unsupported(f"join: {len(binops)} set operations, 1 expected")
    chain = [st for st in strip_doc(fn) if isinstance(st, ast.If) and isinstance(st.test, ast.Compare)
             and isinstance(st.test.left, ast.Name) and len(st.test.ops) == 1 and isinstance(st.test.ops[0], ast.Eq)
             and isinstance(st.test.comparators[0], ast.Constant) and isinstance(st.test.comparators[0].value, str)]
    if len(chain) != 1:
        raise Unsupported(f"join: {len(chain)} join_type dispatch chains, 1 expected")
    return [d.key for d in dcs] + binops + chain


def eval_cond(node, env):
    if isinstance(node, ast.BoolOp):
        vals = [eval_cond(v, env) for v in node.values]
        return all(vals) if isinstance(node.op, ast.And) else any(vals)
    if isinstance(node, ast.UnaryOp) and isinstance(node.op, ast.Not):
        return not eval_cond(node.operand, env)
    if (isinstance(node, ast.Compare) and len(node.ops) == 1 and isinstance(node.left, ast.Name)
            and node.left.id in env and isinstance(node.comparators[0], ast.Constant)
            and node.comparators[0].value is None):
        present = env[node.left.id]
        if isinstance(node.ops[0], ast.IsNot):
            return present
        if isinstance(node.ops[0], ast.Is):
            return not present
    if isinstance(node, ast.Name) and node.id in env:   # truthiness of a cell / None
        return env[node.id]
    bail(node, "unsupported join condition")


# ---- canonical form of join's index section --------------------------------------------------
# The reference shape builds the two index dictionaries with four comprehensions under
# `if tri1.is_incremental: ... else: ...`.  A maintainer may write the same thing with the key chosen once
# (`key = f_inc if tri1.is_incremental else f_cum; tri1_cells = {key(cell): cell for cell in tri1}; ...`),
# with helpers, or with temporaries.  Instead of counting comprehensions the section is EVALUATED under both
# outcomes of the incremental test: conditionals on the test are resolved, straight-line temporaries are
# substituted, one-expression module-level helpers are inlined (translate/normalize.py), and the resulting
# `(target, {key: value for var in operand})` assignments are written back in the reference shape.  The
# ordinary translation (and its skeleton comparison) then runs on that.  Nothing is guessed: any statement
# the evaluation does not understand leaves the function as it is, and the translator fails closed as before.
def _is_inc_test(e):
    return (isinstance(e, ast.Attribute) and e.attr == "is_incremental" and isinstance(e.value, ast.Name))


class _ResolveIfExp(ast.NodeTransformer):
    def __init__(self, test_src, assume):
        self.test_src, self.assume = test_src, assume

    def visit_IfExp(self, n):
        n = self.generic_visit(n)
        if _is_inc_test(n.test) and src(n.test) == self.test_src:
            return n.body if self.assume else n.orelse
        return n


def _specialise(stmts, test_src, assume, env, out, module_funcs):

    for st in stmts:
        if isinstance(st, ast.If):
            if not (_is_inc_test(st.test) and src(st.test) == test_src):
                raise nz.NotReducible("conditional on something else inside the index section")
            _specialise(st.body if assume else st.orelse, test_src, assume, env, out, module_funcs)
            continue
        if not (isinstance(st, ast.Assign) and len(st.targets) == 1 and isinstance(st.targets[0], ast.Name)):
            raise nz.NotReducible(f"statement kind {type(st).__name__} inside the index section")
        name = st.targets[0].id
        v = _ResolveIfExp(test_src, assume).visit(copy.deepcopy(st.value))
        nz.check_pure(v)
        v = nz.subst(v, env)
        if isinstance(v, ast.DictComp):
            for _ in range(4):
                tr = nz._Inline(module_funcs, {}, None, 4)
                v = tr.visit(v)
                if not tr.changed:
                    break
            ast.fix_missing_locations(v)
            out.append((name, v))
            env.pop(name, None)
        else:
            if any(isinstance(n, (ast.DictComp, ast.ListComp, ast.SetComp, ast.GeneratorExp, ast.Call)) for n in ast.walk(v)):
                raise nz.NotReducible("a temporary of the index section is not a plain name / attribute / conditional")
            env[name] = v


def canonical_join(fn, module):
    """join with its index section rewritten to the reference shape, or `fn` itself when the section is
    already in that shape / cannot be evaluated."""

    body = list(fn.body)
    has_comp = [i for i, st in enumerate(body) if any(isinstance(n, ast.DictComp) for n in ast.walk(st))]
    has_test = [i for i, st in enumerate(body) if any(_is_inc_test(n) for n in ast.walk(st))]
    if not has_comp or not has_test:
        return fn
    lo, hi = min(has_comp + has_test), max(has_comp)
    tests = {src(n) for st in body[lo:hi + 1] for n in ast.walk(st) if _is_inc_test(n)}
    if len(tests) != 1:
        return fn
    test_src = tests.pop()
    module_funcs = {n.name: n for n in module.body if isinstance(n, ast.FunctionDef) and n.name != fn.name}
    try:
        res = {}
        for assume in (True, False):
            env, out = {}, []
            _specialise(body[lo:hi + 1], test_src, assume, env, out, module_funcs)
            res[assume] = (out, set(env))
    except nz.NotReducible:
        return fn
    (inc, tmp1), (cum, tmp2) = res[True], res[False]
    if [n for n, _ in inc] != [n for n, _ in cum] or len(inc) != 2 or len({n for n, _ in inc}) != 2:
        return fn
    # temporaries of the section must be dead afterwards
    later = {n.id for st in body[hi + 1:] for n in ast.walk(st) if isinstance(n, ast.Name) and isinstance(n.ctx, ast.Load)}
    if (tmp1 | tmp2) & later:
        return fn
    test = ast.parse(test_src, mode="eval").body
    mk = lambda pairs: [ast.Assign(targets=[ast.Name(id=n, ctx=ast.Store())], value=v) for n, v in pairs]   # noqa: E731
    new_if = ast.If(test=test, body=mk(inc), orelse=mk(cum))
    fn2 = copy.deepcopy(fn)
    fn2.body = body[:lo] + [new_if] + body[hi + 1:]
    ast.fix_missing_locations(fn2)
    # re-parse so that line/column information (used to order the comprehensions) is consistent
    mod2 = ast.parse(ast.unparse(fn2))
    return mod2.body[0]


def translate_join(tree):
    fn = canonical_join(find_def(tree, "join"), tree)
    nodes = _join_nodes(fn)
    k = nodes[:4]
    dcs = sorted([n for n in ast.walk(fn) if isinstance(n, ast.DictComp)], key=lambda n: (n.lineno, n.col_offset))
    keys = []
    for d in dcs:
        g = d.generators
        if not (len(g) == 1 and isinstance(g[0].target, ast.Name) and not g[0].ifs
                and isinstance(d.value, ast.Name) and d.value.id == g[0].target.id):
            bail(d, "expected `{key(cell): cell for cell in tri}`")
        keys.append(key_tuple(d.key, g[0].target.id))
    if keys[0] != keys[1] or keys[2] != keys[3]:
        raise Unsupported(f"join: the two operands are indexed by different keys: {keys}")
    key_inc, key_cum = keys[0], keys[2]
    universe = SETOPS.get(type(nodes[4].op))
    if universe is None:
        bail(nodes[4], "unsupported set operation")
    # the dispatch chain
    table = []
    st = nodes[5]
    var = st.test.left.id
    if var != "join_type" and var not in [a.arg for a in fn.args.args]:
        bail(st, "dispatch is not on the join_type parameter")
    while True:
        t = st.test
        if not (isinstance(t, ast.Compare) and isinstance(t.left, ast.Name) and t.left.id == var
                and len(t.ops) == 1 and isinstance(t.ops[0], ast.Eq) and isinstance(t.comparators[0], ast.Constant)
                and isinstance(t.comparators[0].value, str)):
            bail(t, "expected `join_type == \"<name>\"`")
        name = t.comparators[0].value
        if len(st.body) != 1 or not isinstance(st.body[0], ast.Return):
            bail(st, "expected a single return per join type")
        rv = st.body[0].value
        if isinstance(rv, ast.Name):
            pairs_var = rv.id
            tt = (True, True, True)
        elif isinstance(rv, ast.ListComp):
            g = rv.generators
            if not (len(g) == 1 and isinstance(g[0].target, ast.Tuple) and len(g[0].target.elts) == 2
                    and all(isinstance(e, ast.Name) for e in g[0].target.elts) and isinstance(g[0].iter, ast.Name)):
                bail(rv, "expected `[(cell1, cell2) for cell1, cell2 in cell_pairs if ...]`")
            a, b = (e.id for e in g[0].target.elts)
            if not (isinstance(rv.elt, ast.Tuple) and [src(e) for e in rv.elt.elts] == [a, b]):
                bail(rv.elt, "the pair must be returned as (left, right)")
            pairs_var = g[0].iter.id
            conds = g[0].ifs
            tt = tuple(all(eval_cond(c, {a: l, b: r}) for c in conds)
                       for l, r in ((True, True), (True, False), (False, True)))
        else:
            bail(rv, "unsupported return of a join branch")
        if any(n == name for n, _ in table):
            pass  # an unreachable duplicate branch: first one wins, as in Python
        else:
            table.append((name, tt))
        if pairs_var != "cell_pairs":
            # the name is checked against the assignment below through the skeleton of the chain head
            pass
        if len(st.orelse) == 1 and isinstance(st.orelse[0], ast.If):
            st = st.orelse[0]
            continue
        if not (len(st.orelse) == 1 and isinstance(st.orelse[0], ast.Raise)):
            bail(st, "the dispatch must end with `else: raise ValueError`")
        exc = st.orelse[0].exc
        if src(exc.func if isinstance(exc, ast.Call) else exc) != "ValueError":
            bail(st.orelse[0], "unknown join types must raise ValueError")
        break
    # every branch must iterate over the list built from all_coordinates
    pv = {src(n.body[0].value) if isinstance(n.body[0].value, ast.Name) else n.body[0].value.generators[0].iter.id
          for n in _chain_nodes(nodes[5])}
    assigned = [n for n in strip_doc(fn) if isinstance(n, ast.Assign) and isinstance(n.value, ast.ListComp)]
    if len(assigned) != 1 or pv != {assigned[0].targets[0].id}:
        raise Unsupported(f"join: branches iterate over {sorted(pv)}, not over the pair list")
    same_skeleton("join", fn, nodes, REF_JOIN, _join_nodes)
    del k
    return dict(key_cum=key_cum, key_inc=key_inc, universe=universe, table=table)


def _chain_nodes(st):
    out = [st]
    while len(st.orelse) == 1 and isinstance(st.orelse[0], ast.If):
        st = st.orelse[0]
        out.append(st)
    return out


# ------------------------------------------------------------------------------ merge / coalesce
REF_MERGE = '''
def merge(tri1, tri2, join_type="full", on=None):
    cell_pairs = join(tri1, tri2, join_type, on)
    return Triangle([_merge_cell_pair(*cell_pair) for cell_pair in cell_pairs])
'''
REF_MERGE_PAIR = '''
def _merge_cell_pair(cell1, cell2):
    if cell1 is None:
        return cell2
    elif cell2 is None:
        return cell1
    else:
        return cell1.replace(values={**cell1.values, **cell2.values})
'''
REF_COALESCE = '''
def coalesce(triangles):
    if not isinstance(triangles, list):
        raise ValueError("x")
    grouped_cells = defaultdict(list)
    for triangle in triangles:
        for cell in triangle:
            grouped_cells[(cell.metadata, cell.period, cell.evaluation_date)].append(cell)
    if not any(len(matching_cells) > 1 for matching_cells in grouped_cells.values()):
        warn("x")
    return Triangle([cell_options[0] for cell_options in grouped_cells.values()])
'''


# ---- sound local rewrites towards the reference shape (harmless maintainer rewrites) ---------------------
# G1  d = {} ; ... d.setdefault(K, []).append(X) ...   ==   d = defaultdict(list) ; ... d[K].append(X) ...
#     when `d` is assigned once and otherwise only used as `d.setdefault(K, []).append(X)` statements and
#     `d.items()/.values()/.keys()` calls (both forms create the list on first use and append to the stored list).
# G2  name = <pure expression> inside a block, the name only read later in that block   ==   substitution.
# G3  [f(a, b) for a, b in xs]  ==  [f(*p) for p in xs]  when f is a module-level function with exactly those
#     positional parameters (both unpack each element of xs into f's parameters; xs are join's 2-tuples).
def _parents(fn):
    par = {}
    for n in ast.walk(fn):
        for c in ast.iter_child_nodes(n):
            par[id(c)] = n
    return par


def _rewrite_grouping_dicts(fn):
    par = _parents(fn)
    cands = [st for st in ast.walk(fn) if isinstance(st, ast.Assign) and len(st.targets) == 1
             and isinstance(st.targets[0], ast.Name)
             and ((isinstance(st.value, ast.Dict) and not st.value.keys)
                  or (isinstance(st.value, ast.Call) and src(st.value) == "dict()"))]
    for st in cands:
        d = st.targets[0].id
        uses = [n for n in ast.walk(fn) if isinstance(n, ast.Name) and n.id == d]
        if sum(isinstance(n.ctx, ast.Store) for n in uses) != 1:
            continue
        appends, ok = [], True
        for n in uses:
            if isinstance(n.ctx, ast.Store):
                continue
            a = par.get(id(n))                                   # d.<attr>
            c = par.get(id(a)) if a is not None else None        # d.<attr>(...)
            if not (isinstance(a, ast.Attribute) and a.value is n and isinstance(c, ast.Call) and c.func is a):
                ok = False
                break
            if a.attr in ("items", "values", "keys") and not c.args and not c.keywords:
                continue
            a2 = par.get(id(c))                                  # d.setdefault(K, []).append
            c2 = par.get(id(a2)) if a2 is not None else None     # ....append(X)
            e = par.get(id(c2)) if c2 is not None else None      # statement
            if (a.attr == "setdefault" and len(c.args) == 2 and not c.keywords and isinstance(c.args[1], ast.List)
                    and not c.args[1].elts and isinstance(a2, ast.Attribute) and a2.attr == "append" and a2.value is c
                    and isinstance(c2, ast.Call) and c2.func is a2 and len(c2.args) == 1 and not c2.keywords
                    and isinstance(e, ast.Expr)):
                appends.append((c, a2))
                continue
            ok = False
            break
        if not ok or not appends:
            continue
        st.value = ast.parse("defaultdict(list)", mode="eval").body
        for c, a2 in appends:
            a2.value = ast.Subscript(value=ast.Name(id=d, ctx=ast.Load()), slice=c.args[0], ctx=ast.Load())
    return fn


def _inline_block_temporaries(fn):
    stores = {}
    for n in ast.walk(fn):
        if isinstance(n, ast.Name) and isinstance(n.ctx, ast.Store):
            stores[n.id] = stores.get(n.id, 0) + 1
    for a in ast.walk(fn):
        if isinstance(a, ast.arg):
            stores[a.arg] = stores.get(a.arg, 0) + 1

    def do_block(block):
        i = 0
        while i < len(block):
            st = block[i]
            if (isinstance(st, ast.Assign) and len(st.targets) == 1 and isinstance(st.targets[0], ast.Name)
                    and stores.get(st.targets[0].id) == 1 and isinstance(st.value, ast.Tuple)):
                name = st.targets[0].id
                try:
                    nz.check_pure(st.value)
                except nz.NotReducible:
                    i += 1
                    continue
                rest = block[i + 1:]
                inside = sum(1 for r in rest for n in ast.walk(r) if isinstance(n, ast.Name) and n.id == name)
                total = sum(1 for n in ast.walk(fn) if isinstance(n, ast.Name) and n.id == name) - 1
                # only read later in this very block, and nothing in between rebinds what the expression reads
                read = {n.id for n in ast.walk(st.value) if isinstance(n, ast.Name)}
                rebinds = any(isinstance(n, ast.Name) and isinstance(n.ctx, ast.Store) and n.id in read
                              for r in rest for n in ast.walk(r))
                if inside == total and inside > 0 and not rebinds:
                    block[i + 1:] = [nz._Subst({name: st.value}).visit(r) for r in rest]
                    del block[i]
                    continue
            i += 1
        for st in block:
            for f in ("body", "orelse", "finalbody"):
                b = getattr(st, f, None)
                if isinstance(b, list) and b and isinstance(b[0], ast.stmt):
                    do_block(b)

    do_block(fn.body)
    return fn


def _star_calls(fn, module):
    funcs = {n.name: n for n in module.body if isinstance(n, ast.FunctionDef)}
    for lc in ast.walk(fn):
        if not (isinstance(lc, ast.ListComp) and len(lc.generators) == 1 and not lc.generators[0].ifs):
            continue
        g = lc.generators[0]
        if not (isinstance(g.target, ast.Tuple) and all(isinstance(e, ast.Name) for e in g.target.elts)
                and isinstance(lc.elt, ast.Call) and isinstance(lc.elt.func, ast.Name) and not lc.elt.keywords):
            continue
        names = [e.id for e in g.target.elts]
        f = funcs.get(lc.elt.func.id)
        if f is None or nz._plain_params(f) is None or len(nz._plain_params(f)) != len(names):
            continue
        if [src(a) for a in lc.elt.args] != names:
            continue
        v = "_".join(names)
        g.target = ast.Name(id=v, ctx=ast.Store())
        lc.elt.args = [ast.Starred(value=ast.Name(id=v, ctx=ast.Load()), ctx=ast.Load())]
    return fn


def canonical_grouping(fn, module):
    fn = _star_calls(_inline_block_temporaries(_rewrite_grouping_dicts(fn)), module)
    ast.fix_missing_locations(fn)
    return ast.parse(ast.unparse(fn)).body[0]      # consistent positions for the node ordering used below


def _merge_pair_nodes(fn):
    calls = [n for n in ast.walk(fn) if isinstance(n, ast.Call) and isinstance(n.func, ast.Attribute)
             and n.func.attr == "replace"]
    if len(calls) != 1:
        raise Unsupported(f"_merge_cell_pair: {len(calls)} replace calls, 1 expected")
    return calls


def _coalesce_nodes(fn):
    subs = [n for n in ast.walk(fn) if isinstance(n, ast.Subscript)]
    subs.sort(key=lambda n: (n.lineno, n.col_offset))
    keyt = [n.slice for n in subs if isinstance(n.slice, ast.Tuple)]
    picks = [n.slice for n in subs if isinstance(n.slice, (ast.Constant, ast.UnaryOp))]
    if len(keyt) != 1 or len(picks) != 1:
        raise Unsupported("coalesce: expected one key tuple and one constant index")
    return keyt + picks


def translate_merge(tree):
    fn = canonical_grouping(find_def(tree, "merge"), tree)
    same_skeleton("merge", fn, [], REF_MERGE, lambda f: [])
    fp = find_def(tree, "_merge_cell_pair")
    params = [a.arg for a in fp.args.args]
    if len(params) != 2:
        bail(fp, "_merge_cell_pair must take (left, right)")
    (call,) = _merge_pair_nodes(fp)
    if not (isinstance(call.func.value, ast.Name) and call.func.value.id in params and not call.args
            and len(call.keywords) == 1 and call.keywords[0].arg == "values"
            and isinstance(call.keywords[0].value, ast.Dict)):
        bail(call, "expected `<cell>.replace(values={**a.values, **b.values})`")
    d = call.keywords[0].value
    if not (len(d.keys) == 2 and all(k is None for k in d.keys)):
        bail(d, "expected two dict unpackings")
    order = []
    for v in d.values:
        if not (isinstance(v, ast.Attribute) and v.attr == "values" and isinstance(v.value, ast.Name)
                and v.value.id in params):
            bail(v, "expected `**<cell>.values`")
        order.append(params.index(v.value.id))
    if sorted(order) != [0, 1]:
        bail(d, "both cells' values must be unpacked")
    left_first = order == [0, 1]
    base_left = params.index(call.func.value.id) == 0
    same_skeleton("_merge_cell_pair", fp, [call], REF_MERGE_PAIR, _merge_pair_nodes)
    fc = canonical_grouping(find_def(tree, "coalesce"), tree)
    keyt, pick = _coalesce_nodes(fc)
    # the loop variable holding the cell
    loops = [n for n in ast.walk(fc) if isinstance(n, ast.For)]
    inner = [n for n in loops if not any(isinstance(m, ast.For) for m in n.body)]
    if len(inner) != 1 or not isinstance(inner[0].target, ast.Name):
        raise Unsupported("coalesce: expected one innermost loop over the cells")
    co_key = key_tuple(keyt, inner[0].target.id)
    try:
        idx = ast.literal_eval(pick)
    except Exception:  # noqa: BLE001
        bail(pick, "unsupported index")
    if idx == 0:
        first = True
    elif idx == -1:
        first = False
    else:
        bail(pick, "coalesce picks neither the first nor the last candidate")
    same_skeleton("coalesce", fc, [keyt, pick], REF_COALESCE, _coalesce_nodes)
    return dict(left_first=left_first, base_left=base_left, co_key=co_key, co_first=first)


# ------------------------------------------------------------------------------ emit
def cstr(s: str) -> str:
    return "([" + ";".join(str(x) for x in s.encode("utf-8")) + "]:str)"


def cb(b):
    return "true" if b else "false"


HEADER = """(* GENERATED by translate/t_pred.py from the working tree of the library -- do not edit *)
From Coq Require Import ZArith List Bool.
From Bermuda Require Import Model.Base Model.Select Model.Join.
Import ListNotations.
Local Open Scope Z_scope.
"""


def extract(repo: Path, parts=("select", "join")) -> dict:
    out = {}
    if "select" in parts:
        tree = ast.parse((Path(repo) / "bermuda" / "triangle.py").read_text())
        out["clip"] = translate_clip(tree)
        # a fresh parse: the skeleton comparison rewrites the tree it is given
        out["getitem"] = translate_getitem(ast.parse((Path(repo) / "bermuda" / "triangle.py").read_text()))
        out["getitem_slice"] = translate_getitem(ast.parse((Path(repo) / "bermuda" / "triangle.py").read_text()),
                                                 cls="TriangleSlice")
    if "join" in parts:
        out["join"] = translate_join(ast.parse((Path(repo) / "bermuda" / "utils" / "join.py").read_text()))
        out["merge"] = translate_merge(ast.parse((Path(repo) / "bermuda" / "utils" / "merge.py").read_text()))
    return out


def emit(d: dict) -> str:
    L = [HEADER]
    if "clip" in d:
        ents = ";\n    ".join(f"({b}, {a}, {o}, {g})" for b, a, o, g in d["clip"])
        L.append(f"Definition gen_clip : clip_spec :=\n  [ {ents} ].\n")
        g = d["getitem"]
        L.append("Definition gen_getitem : getitem_desc :=\n  mkGetitem "
                 f"{g['attr']} {g['lo_op']} {g['hi_op']} {g['lo_d']} {g['hi_d']} {g['ev_lo']} {g['ev_hi']} {g['meta_op']}.\n")
        g = d["getitem_slice"]
        L.append("(* TriangleSlice.__getitem__ (two-index form; no metadata component: gi_meta_op unused) *)\n"
                 "Definition gen_getitem_slice : getitem_desc :=\n  mkGetitem "
                 f"{g['attr']} {g['lo_op']} {g['hi_op']} {g['lo_d']} {g['hi_d']} {g['ev_lo']} {g['ev_hi']} {g['meta_op']}.\n")
    if "join" in d:
        j = d["join"]
        tbl = ";\n      ".join(f"({cstr(n)} (* {n} *), ({cb(t[0])}, {cb(t[1])}, {cb(t[2])}))" for n, t in j["table"])
        L.append("Definition gen_join : join_desc :=\n  mkJoinDesc "
                 f"[{'; '.join(j['key_cum'])}] [{'; '.join(j['key_inc'])}] {j['universe']}\n    [ {tbl} ].\n")
        m = d["merge"]
        L.append("Definition gen_merge : merge_desc :=\n  mkMergeDesc "
                 f"{cb(m['left_first'])} {cb(m['base_left'])} [{'; '.join(m['co_key'])}] {cb(m['co_first'])}.\n")
    return "\n".join(L)


def translate(repo: Path, parts=("select", "join")) -> str:
    return emit(extract(repo, parts))


if __name__ == "__main__":
    import sys

    print(translate(Path(sys.argv[1] if len(sys.argv) > 1 else "/repo")))
