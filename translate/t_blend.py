"""T-blend: describe what bermuda/utils/summarize.py says about blending, as a Coq term (build/C16/GenBlend.v).

Reads  BLEND_METHOD_TYPE, blend, blend_cells, blend_samples, _linear_blend, _mixture_blend  and emits
`Definition d : blend_desc` (coq/Model/BlendDesc.v):

  DECISIONS (the model blendD is parametrised by them)
    bd_methods          the string literals of  BLEND_METHOD_TYPE = Literal[...]
    bd_checks           blend(): the `if <test>: raise <E>(...)` statements before the coordinate index, in source
                        order, each classified by its canonical test text (IsList / Single / Method / Lengths /
                        CellType) with its exception class
    bd_dict_transposed  whether the dict weights are iterated over  np.concatenate(...).T  (one vector per cell)
    bd_dict_len_err     the `len(weight_list) != 1 and len(weight_list) != n_cells` refusal (None = absent)
    bd_missing_err      the class raised by  `except KeyError: raise <E>(...)`
    bd_dispatch/_else   blend_samples: `if method == "<lit>": return <helper>(...)` chain and the final raise
    bd_len_err          blend_samples: `len(weights) != len(values)` refusal
    bd_linlen_err       _linear_blend: `len(val) != S and len(val) != 1` refusal
    bd_sum_err          _mixture_blend: `round(sum(weights), 6) != 1` refusal
    bd_choice_p         np.random.choice(..., p=weights) has the keyword p bound to the weights parameter
    bd_fieldset_err / bd_mixtype_err / bd_mixscalar_err   the three refusals of blend_cells
    bd_header_from      k of  `return cells[k].replace(values=...)`
  RECOGNISED FORMS (bd_shape): for each of the five functions the canonical text of what remains once the
    decisions above are taken out (see `canon_function`): docstrings and messages dropped, single-assignment
    locals inlined, parameters numbered p0.., other local names numbered l0.. in order of appearance.

Fail closed: anything not recognised raises Unsupported naming the construct (an unknown refusal, a second
definition of a function, a dispatch arm that is not `return helper(...)`, ...)."""
from __future__ import annotations

import ast
import copy
from pathlib import Path


class Unsupported(Exception):
    pass


ERRS = {"ValueError", "TypeError", "IndexError", "KeyError", "TriangleError"}


def cstr(s: str) -> str:
    return "[" + ";".join(str(b) for b in s.encode("utf-8")) + "]%Z"


def cstring(s: str) -> str:
    if any(ord(c) < 32 or ord(c) > 126 for c in s):
        raise Unsupported(f"non-printable character in canonical text {s!r}")
    return '"' + s.replace('"', '""') + '"%string'


def cerr(name: str) -> str:
    return name if name in ERRS else "OtherError"


def copt(x) -> str:
    return "None" if x is None else f"(Some {x})"


# ------------------------------------------------------------------------------------------------ canonical form
def get_function(tree: ast.Module, name: str) -> ast.FunctionDef:
    fns = [n for n in ast.walk(tree) if isinstance(n, (ast.FunctionDef, ast.AsyncFunctionDef)) and n.name == name]
    if len(fns) != 1 or fns[0] not in tree.body or not isinstance(fns[0], ast.FunctionDef):
        raise Unsupported(f"expected exactly one module-level `def {name}`, found {len(fns)}")
    fn = fns[0]
    if fn.decorator_list:
        raise Unsupported(f"{name} is decorated")
    a = fn.args
    if a.vararg or a.kwarg or a.kwonlyargs or a.posonlyargs:
        raise Unsupported(f"{name}: parameter list is not plain positional")
    for n in ast.walk(fn):
        if isinstance(n, (ast.Global, ast.Nonlocal, ast.Lambda, ast.NamedExpr, ast.Yield, ast.YieldFrom, ast.Await,
                          ast.ClassDef, ast.With, ast.While, ast.Delete, ast.Import, ast.ImportFrom, ast.Match)) \
                or (isinstance(n, ast.FunctionDef) and n is not fn):
            raise Unsupported(f"{name}: {type(n).__name__} is not handled")
    return fn


def _strip_doc(body):
    out = []
    for s in body:
        if isinstance(s, ast.Expr) and isinstance(s.value, ast.Constant) and isinstance(s.value.value, str):
            continue
        if isinstance(s, ast.Pass):
            continue
        out.append(s)
    return out


def _raise_class(s: ast.Raise) -> str:
    e = s.exc
    if isinstance(e, ast.Call):
        e = e.func
    if not isinstance(e, ast.Name):
        raise Unsupported(f"raise of `{ast.unparse(s)[:60]}`")
    return e.id


class _Prep(ast.NodeTransformer):
    """drop docstrings, messages of raise statements, annotations"""

    def visit_FunctionDef(self, n):
        n.body = _strip_doc(n.body)
        n.returns = None
        for a in n.args.args:
            a.annotation = None
        self.generic_visit(n)
        return n

    def visit_Raise(self, n):
        return ast.Raise(exc=ast.Name(id=_raise_class(n), ctx=ast.Load()), cause=None)

    def visit_AnnAssign(self, n):
        if n.value is None or not n.simple:
            raise Unsupported("annotated declaration")
        return self.generic_visit(ast.Assign(targets=[n.target], value=n.value))


def _events(fn):
    """(name, line) for every binding or mutation of a local name"""
    ev = []
    meth = []

    def tgt(t, line):
        if isinstance(t, ast.Name):
            ev.append((t.id, line))
        elif isinstance(t, (ast.Tuple, ast.List)):
            for e in t.elts:
                tgt(e, line)
        elif isinstance(t, ast.Starred):
            tgt(t.value, line)
        elif isinstance(t, (ast.Subscript, ast.Attribute)):
            b = t
            while isinstance(b, (ast.Subscript, ast.Attribute)):
                b = b.value
            if isinstance(b, ast.Name):
                ev.append((b.id, line))
        else:
            raise Unsupported(f"assignment target {type(t).__name__}")

    for n in ast.walk(fn):
        if isinstance(n, ast.Assign):
            for t in n.targets:
                tgt(t, n.lineno)
        elif isinstance(n, ast.AugAssign):
            tgt(n.target, n.lineno)
        elif isinstance(n, ast.For):
            tgt(n.target, n.lineno)
        elif isinstance(n, ast.Expr) and isinstance(n.value, ast.Call) and isinstance(n.value.func, ast.Attribute):
            b = n.value.func.value                      # x.append(...) and the like: a mutation of x
            while isinstance(b, (ast.Subscript, ast.Attribute)):
                b = b.value
            if isinstance(b, ast.Name):
                meth.append((b.id, n.lineno))
        elif isinstance(n, ast.ExceptHandler) and n.name:
            ev.append((n.name, n.lineno))
    bound = {nm for nm, _ in ev} | {a.arg for a in fn.args.args}
    return ev + [(nm, line) for nm, line in meth if nm in bound]     # np.random.seed(...) does not bind `np`


def _comp_bound(fn):
    out = set()
    for n in ast.walk(fn):
        if isinstance(n, ast.comprehension):
            for t in ast.walk(n.target):
                if isinstance(t, ast.Name):
                    out.add(t.id)
    return out


class _Inline(ast.NodeTransformer):
    def __init__(self, env):
        self.env = env

    def visit_Name(self, n):
        if isinstance(n.ctx, ast.Load) and n.id in self.env:
            return copy.deepcopy(self.env[n.id])
        return n


PURE_CALLS = {"len", "max", "min", "sum", "round", "set", "type", "range", "list", "tuple", "isinstance", "get_args",
              "np.shape", "np.ndim", "np.isscalar", "np.atleast_2d", "np.asarray", "np.array", "np.repeat"}
PURE_METHODS = {"keys", "values", "items", "lower", "reshape"}


def is_pure(e) -> bool:
    for n in ast.walk(e):
        if isinstance(n, ast.Call):
            f = " ".join(ast.unparse(n.func).split())
            if f in PURE_CALLS:
                continue
            if isinstance(n.func, ast.Attribute) and n.func.attr in PURE_METHODS:
                continue
            return False
    return True


def inline_locals(fn: ast.FunctionDef) -> None:
    """Inline `x = <expr>` where x is a plain local bound exactly once at the top level of the function body, not
    a parameter / loop or comprehension variable, and no name read by <expr> is bound or mutated after that
    statement.  The statement disappears; uses are replaced (iterated, in source order)."""
    params = {a.arg for a in fn.args.args}
    comp = _comp_bound(fn)
    changed = True
    while changed:
        changed = False
        ev = _events(fn)
        count = {}
        for nm, _ in ev:
            count[nm] = count.get(nm, 0) + 1
        for i, s in enumerate(fn.body):
            if not (isinstance(s, ast.Assign) and len(s.targets) == 1 and isinstance(s.targets[0], ast.Name)):
                continue
            x = s.targets[0].id
            if x in params or x in comp or count.get(x) != 1:
                continue
            reads = {n.id for n in ast.walk(s.value) if isinstance(n, ast.Name)}
            if x in reads or any(nm in reads and line > s.lineno for nm, line in ev):
                continue
            if not is_pure(s.value):          # a draw / a constructor: inlining would duplicate or move the effect
                continue
            if any(isinstance(n, (ast.ListComp, ast.SetComp, ast.DictComp, ast.GeneratorExp)) for n in ast.walk(s.value)) \
                    and any(nm in comp for nm in reads - {t.id for c in ast.walk(s.value) if isinstance(c, ast.comprehension)
                                                           for t in ast.walk(c.target) if isinstance(t, ast.Name)}):
                continue
            rest = fn.body[i + 1:]
            env = {x: s.value}
            fn.body = fn.body[:i] + [_Inline(env).visit(r) for r in rest]
            changed = True
            break


class _Rename(ast.NodeTransformer):
    def __init__(self, params, locals_):
        self.map = {p: f"p{i}" for i, p in enumerate(params)}
        self.locals = locals_
        self.k = 0

    def _nm(self, x):
        if x in self.map:
            return self.map[x]
        if x in self.locals:
            self.map[x] = f"l{self.k}"
            self.k += 1
            return self.map[x]
        return x

    def visit_Name(self, n):
        return ast.Name(id=self._nm(n.id), ctx=n.ctx)

    def visit_arg(self, n):
        return ast.arg(arg=self._nm(n.arg), annotation=None)

    def _comp(self, n):
        # generators first (that is the evaluation order), then the element
        n.generators = [self.visit(g) for g in n.generators]
        for f in ("elt", "key", "value"):
            if hasattr(n, f):
                setattr(n, f, self.visit(getattr(n, f)))
        return n

    visit_ListComp = visit_SetComp = visit_GeneratorExp = visit_DictComp = _comp

    def visit_comprehension(self, n):
        n.iter = self.visit(n.iter)
        n.target = self.visit(n.target)
        n.ifs = [self.visit(i) for i in n.ifs]
        return n


def canon_function(tree: ast.Module, name: str) -> ast.FunctionDef:
    fn = copy.deepcopy(get_function(tree, name))
    fn = _Prep().visit(fn)
    ast.fix_missing_locations(fn)
    inline_locals(fn)
    params = [a.arg for a in fn.args.args]
    locals_ = {nm for nm, _ in _events(fn)} | _comp_bound(fn)
    fn = _Rename(params, locals_ - set(params)).visit(fn)
    fn.args.defaults = []
    ast.fix_missing_locations(fn)
    return fn


def text(nodes) -> str:
    if isinstance(nodes, ast.AST):
        nodes = [nodes]
    return " ; ".join(" ".join(ast.unparse(n).split()) for n in nodes)


def is_refusal(s) -> bool:
    return isinstance(s, ast.If) and len(s.body) == 1 and isinstance(s.body[0], ast.Raise) and not s.orelse


class _TakeRefusals(ast.NodeTransformer):
    """remove every `if <test>: raise E` whose canonical test text is in `table`; record slot -> class.
    Any other `if ...: raise` stays in the text (and so changes the recognised form)."""

    def __init__(self, table):
        self.table = table
        self.found = {}

    def visit_If(self, n):
        self.generic_visit(n)
        if is_refusal(n):
            t = text(n.test)
            if t in self.table:
                slot = self.table[t]
                if slot in self.found:
                    raise Unsupported(f"refusal `{t}` occurs twice")
                self.found[slot] = _raise_class(n.body[0])
                return None
        return n


def take_refusals(fn, table):
    tr = _TakeRefusals(table)
    fn = tr.visit(fn)
    for n in ast.walk(fn):                       # a block emptied by the removal
        for f in ("body", "orelse"):
            if isinstance(getattr(n, f, None), list) and f == "body" and not getattr(n, f):
                n.body = [ast.Pass()]
    return fn, tr.found


# ------------------------------------------------------------------------------------------------ blend
BLEND_CHECKS = {
    "not isinstance(p0, list)": "CkIsList",
    "len(p0) <= 1 and isinstance(p1, list) and (p1[0] != 1.0)": "CkSingle",
    "p2.lower() not in get_args(BLEND_METHOD_TYPE)": "CkMethod",
    "any([len(l0) != len(p0[0]) for l0 in p0[1:]])": "CkLengths",
    "any([type(l0.cells[0]) != type(p0[0].cells[0]) for l0 in p0[1:]])": "CkCellType",
}


def _local_text(test: ast.expr) -> str:
    """canonical text of one expression with its own l-numbering (independent of the rest of the function)"""
    names = []
    for n in ast.walk(test):
        if isinstance(n, ast.comprehension):
            for t in ast.walk(n.target):
                if isinstance(t, ast.Name) and t.id not in names:
                    names.append(t.id)
    e = copy.deepcopy(test)
    m = {nm: f"l{i}" for i, nm in enumerate(names)}

    class R(ast.NodeTransformer):
        def visit_Name(self, n):
            return ast.Name(id=m.get(n.id, n.id), ctx=n.ctx)

    return text(R().visit(e))


def describe_blend(tree):
    fn = canon_function(tree, "blend")
    checks = []
    body = list(fn.body)
    rest = []
    seen_other = False
    for s in body:
        is_val = isinstance(s, ast.If) and len(s.body) == 1 and isinstance(s.body[0], ast.Raise)
        if is_val and not seen_other:
            t = _local_text(s.test)
            if t not in BLEND_CHECKS:
                raise Unsupported(f"blend: validation `{t}` is not one of the recognised tests")
            ck = BLEND_CHECKS[t]
            if s.orelse:
                if not (ck == "CkMethod" and text(s.orelse) == "p2 = p2.lower()"):
                    raise Unsupported(f"blend: else branch of validation `{t}`: {text(s.orelse)}")
            elif ck == "CkMethod":
                raise Unsupported("blend: the method is not lower-cased after its validation")
            checks.append((ck, _raise_class(s.body[0])))
        else:
            seen_other = True
            rest.append(s)
    if len({c for c, _ in checks}) != len(checks):
        raise Unsupported("blend: a validation occurs twice")
    # the remaining body: take out the decisions, keep the rest as text
    holder = ast.Module(body=rest, type_ignores=[])
    holder, found = take_refusals(holder, {"len(l2) != 1 and len(l2) != len(p0[0])": "dict_len",
                                           "len(l1) != 1 and len(l1) != len(p0[0])": "dict_len",
                                           "len(l3) != 1 and len(l3) != len(p0[0])": "dict_len"})
    state = {"T": None, "missing": None}

    class Mask(ast.NodeTransformer):
        def visit_ListComp(self, n):
            self.generic_visit(n)
            g = n.generators[0]
            it = g.iter
            inner, tr = None, None
            if isinstance(it, ast.Attribute) and it.attr == "T":
                inner, tr = it.value, True
            elif isinstance(it, ast.Call) and text(it.func) in ("np.transpose", "numpy.transpose") and len(it.args) == 1 \
                    and not it.keywords:
                inner, tr = it.args[0], True
            elif isinstance(it, ast.Call) and text(it.func) in ("np.concatenate", "numpy.concatenate"):
                inner, tr = it, False
            if inner is not None and isinstance(inner, ast.Call) and text(inner.func) in ("np.concatenate", "numpy.concatenate"):
                if state["T"] is not None:
                    raise Unsupported("blend: two iterations over np.concatenate(...)")
                state["T"] = tr
                g.iter = ast.Call(func=ast.Name(id="DICT_WEIGHT_VECTORS", ctx=ast.Load()), args=[inner], keywords=[])
            return n

        def visit_ExceptHandler(self, n):
            self.generic_visit(n)
            if text(n.type) == "KeyError" and len(n.body) == 1 and isinstance(n.body[0], ast.Raise):
                if state["missing"] is not None:
                    raise Unsupported("blend: two `except KeyError` handlers")
                state["missing"] = _raise_class(n.body[0])
                n.body = [ast.Raise(exc=ast.Name(id="MISSING_COORDINATE", ctx=ast.Load()), cause=None)]
            return n

    holder = Mask().visit(holder)
    if state["T"] is None:
        raise Unsupported("blend: the iteration over np.concatenate(<dict values>)[.T] was not found")
    if state["missing"] is None:
        raise Unsupported("blend: `except KeyError: raise ...` was not found")
    ast.fix_missing_locations(holder)
    return {"checks": checks, "T": state["T"], "dict_len": found.get("dict_len"), "missing": state["missing"],
            "shape": text(holder.body)}


# ------------------------------------------------------------------------------------------------ blend_samples
HELPERS = {"_mixture_blend": ("HMixture", 3), "_linear_blend": ("HLinear", 2)}


def describe_samples(tree):
    fn = canon_function(tree, "blend_samples")
    fn, found = take_refusals(fn, {"len(p1) != len(p0)": "len"})
    chain = [s for s in fn.body if isinstance(s, ast.If) and isinstance(s.test, ast.Compare)
             and text(s.test.left) == "p2" and len(s.test.ops) == 1 and isinstance(s.test.ops[0], ast.Eq)]
    if len(chain) != 1:
        raise Unsupported("blend_samples: expected one `if method == ...` chain")
    node = chain[0]
    idx = fn.body.index(node)
    if idx != len(fn.body) - 1:
        raise Unsupported("blend_samples: statements after the dispatch")
    dispatch, other = [], None
    while True:
        c = node.test
        if not (isinstance(c, ast.Compare) and text(c.left) == "p2" and len(c.ops) == 1 and isinstance(c.ops[0], ast.Eq)
                and isinstance(c.comparators[0], ast.Constant) and isinstance(c.comparators[0].value, str)):
            raise Unsupported(f"blend_samples: dispatch test `{text(c)}`")
        if not (len(node.body) == 1 and isinstance(node.body[0], ast.Return) and isinstance(node.body[0].value, ast.Call)
                and isinstance(node.body[0].value.func, ast.Name)):
            raise Unsupported(f"blend_samples: dispatch arm `{text(node.body)}`")
        call = node.body[0].value
        h = call.func.id
        want = ["p0", "p1", "p3"]
        if h in HELPERS:
            hn, ar = HELPERS[h]
            if call.keywords or [text(a) for a in call.args] != want[:ar]:
                raise Unsupported(f"blend_samples: arguments of {h}: `{text(call)}`")
        else:
            hn = "HOther"
        dispatch.append((c.comparators[0].value, hn))
        if len(node.orelse) == 1 and isinstance(node.orelse[0], ast.If):
            node = node.orelse[0]
            continue
        if len(node.orelse) == 1 and isinstance(node.orelse[0], ast.Raise):
            other = _raise_class(node.orelse[0])
            break
        raise Unsupported(f"blend_samples: end of the dispatch chain `{text(node.orelse)}`")
    fn.body = fn.body[:idx] + [ast.Expr(ast.Name(id="DISPATCH", ctx=ast.Load()))]
    ast.fix_missing_locations(fn)
    return {"dispatch": dispatch, "else": other, "len": found.get("len"), "shape": text(fn.body)}


# ------------------------------------------------------------------------------------------------ helpers
def describe_linear(tree):
    fn = canon_function(tree, "_linear_blend")
    table = {}
    for a in ("l0", "l1", "l2", "l3", "l4"):
        table[f"len({a}) != max((len(l0) for l0 in p0)) and len({a}) != 1"] = "linlen"
        table[f"len({a}) != max((len(l1) for l1 in p0)) and len({a}) != 1"] = "linlen"
        table[f"len({a}) != max((len(l2) for l2 in p0)) and len({a}) != 1"] = "linlen"
    fn, found = take_refusals(fn, table)
    return {"linlen": found.get("linlen"), "shape": text(fn.body)}


def describe_mixture(tree):
    fn = canon_function(tree, "_mixture_blend")
    fn, found = take_refusals(fn, {"round(sum(p1), 6) != 1": "sum"})
    state = {"p": None, "n": 0}

    class Mask(ast.NodeTransformer):
        def visit_Call(self, n):
            self.generic_visit(n)
            if text(n.func) in ("np.random.choice", "numpy.random.choice"):
                state["n"] += 1
                kws = {k.arg: k.value for k in n.keywords}
                if None in kws:
                    raise Unsupported("_mixture_blend: **kwargs in np.random.choice")
                pv = kws.get("p")
                if pv is None and len(n.args) >= 4:
                    pv = n.args[3]
                    n.args = n.args[:3]
                if pv is None:
                    state["p"] = "PAbsent"
                elif text(pv) == "p1":
                    state["p"] = "PWeights"
                else:
                    raise Unsupported(f"_mixture_blend: np.random.choice is given p={text(pv)}")
                n.keywords = [k for k in n.keywords if k.arg != "p"] + [
                    ast.keyword(arg="p", value=ast.Name(id="CHOICE_P", ctx=ast.Load()))]
            return n

    fn = Mask().visit(fn)
    if state["n"] != 1:
        raise Unsupported(f"_mixture_blend: expected one call of np.random.choice, found {state['n']}")
    ast.fix_missing_locations(fn)
    return {"sum": found.get("sum"), "p": state["p"], "shape": text(fn.body)}


def describe_cells(tree):
    fn = canon_function(tree, "blend_cells")
    table = {}
    for a in ("l0", "l1", "l2", "l3", "l4", "l5", "l6"):
        table[f"set({a}.values.keys()) != set(p0[0].values.keys())"] = "fieldset"
    fn, found = take_refusals(fn, table)
    # the two mixture refusals are recognised structurally (their texts mention a list comprehension's own variables)
    state = {}

    class Take(ast.NodeTransformer):
        def visit_If(self, n):
            self.generic_visit(n)
            if is_refusal(n):
                t = _local_text(n.test)
                if t.startswith("p2 == 'mixture' and (not all([isinstance(l0, type(") and t.endswith("[1:]]))"):
                    if "mixtype" in state:
                        raise Unsupported("blend_cells: two type refusals")
                    state["mixtype"] = _raise_class(n.body[0])
                    state["mixtype_text"] = t
                    return None
                if t.startswith("any([l0 != ") and t.endswith("[1:]])"):
                    if "mixscalar" in state:
                        raise Unsupported("blend_cells: two scalar refusals")
                    state["mixscalar"] = _raise_class(n.body[0])
                    state["mixscalar_text"] = t
                    return None
            return n

    fn = Take().visit(fn)
    ret = [s for s in fn.body if isinstance(s, ast.Return)]
    if len(ret) != 1 or fn.body[-1] is not ret[0]:
        raise Unsupported("blend_cells: expected one final return")
    r = ret[0].value
    ok = (isinstance(r, ast.Call) and isinstance(r.func, ast.Attribute) and r.func.attr == "replace" and not r.args
          and len(r.keywords) == 1 and r.keywords[0].arg == "values"
          and isinstance(r.func.value, ast.Subscript) and text(r.func.value.value) == "p0"
          and isinstance(r.func.value.slice, ast.Constant) and isinstance(r.func.value.slice.value, int)
          and r.func.value.slice.value >= 0)
    if not ok:
        raise Unsupported(f"blend_cells: return expression `{text(r)}` is not cells[<k>].replace(values=...)")
    k = r.func.value.slice.value
    r.func.value.slice = ast.Name(id="HEADER_FROM", ctx=ast.Load())
    ast.fix_missing_locations(fn)
    shape = text(fn.body)
    # the refusal texts mention the field values through a local name: keep them as part of the recognised form
    shape += " ## " + state.get("mixtype_text", "-") + " ## " + state.get("mixscalar_text", "-")
    return {"fieldset": found.get("fieldset"), "mixtype": state.get("mixtype"), "mixscalar": state.get("mixscalar"),
            "k": k, "shape": shape}


def methods(tree):
    found = []
    for n in tree.body:
        tg = None
        if isinstance(n, ast.Assign) and len(n.targets) == 1 and isinstance(n.targets[0], ast.Name):
            tg, v = n.targets[0].id, n.value
        elif isinstance(n, ast.AnnAssign) and isinstance(n.target, ast.Name):
            tg, v = n.target.id, n.value
        if tg == "BLEND_METHOD_TYPE":
            found.append(v)
    for n in ast.walk(tree):
        if isinstance(n, (ast.Assign, ast.AugAssign, ast.AnnAssign)) and n not in tree.body:
            for t in ast.walk(n):
                if isinstance(t, ast.Name) and t.id == "BLEND_METHOD_TYPE" and isinstance(t.ctx, ast.Store):
                    raise Unsupported("BLEND_METHOD_TYPE is assigned inside a function")
    if len(found) != 1:
        raise Unsupported(f"expected one assignment to BLEND_METHOD_TYPE, found {len(found)}")
    v = found[0]
    if not (isinstance(v, ast.Subscript) and text(v.value) in ("Literal", "typing.Literal")):
        raise Unsupported(f"BLEND_METHOD_TYPE = {text(v)} is not Literal[...]")
    elts = v.slice.elts if isinstance(v.slice, ast.Tuple) else [v.slice]
    out = []
    for e in elts:
        if not (isinstance(e, ast.Constant) and isinstance(e.value, str)):
            raise Unsupported(f"BLEND_METHOD_TYPE element {text(e)}")
        out.append(e.value)
    return out


def describe(repo: Path) -> dict:
    src = (Path(repo) / "bermuda" / "utils" / "summarize.py").read_text()
    tree = ast.parse(src)
    return {"methods": methods(tree), "blend": describe_blend(tree), "samples": describe_samples(tree),
            "linear": describe_linear(tree), "mixture": describe_mixture(tree), "cells": describe_cells(tree)}


def shape_list(dsc) -> list[tuple[str, str]]:
    return [("blend", dsc["blend"]["shape"]), ("blend_cells", dsc["cells"]["shape"]),
            ("blend_samples", dsc["samples"]["shape"]), ("_linear_blend", dsc["linear"]["shape"]),
            ("_mixture_blend", dsc["mixture"]["shape"])]


def emit(dsc) -> str:
    def e(x):
        return copt(None if x is None else cerr(x))

    L = ["(* generated by translate/t_blend.py from bermuda/utils/summarize.py -- do not edit *)",
         "From Coq Require Import ZArith List String.",
         "From Bermuda Require Import Model.Base Model.Blend Model.BlendDesc.",
         "Import ListNotations.",
         "Definition d : blend_desc := mkBlendDesc",
         "  [" + "; ".join(f"{cstr(m)} (* {m} *)" for m in dsc["methods"]) + "]",
         "  [" + "; ".join(f"({c}, {cerr(x)})" for c, x in dsc["blend"]["checks"]) + "]",
         f"  {'true' if dsc['blend']['T'] else 'false'}",
         f"  {e(dsc['blend']['dict_len'])}",
         f"  {cerr(dsc['blend']['missing'])}",
         "  [" + "; ".join(f"({cstr(m)} (* {m} *), {h})" for m, h in dsc["samples"]["dispatch"]) + "]",
         f"  {cerr(dsc['samples']['else'])}",
         f"  {e(dsc['samples']['len'])}",
         f"  {e(dsc['linear']['linlen'])}",
         f"  {e(dsc['mixture']['sum'])}",
         f"  {dsc['mixture']['p']}",
         f"  {e(dsc['cells']['fieldset'])}",
         f"  {e(dsc['cells']['mixtype'])}",
         f"  {e(dsc['cells']['mixscalar'])}",
         f"  {dsc['cells']['k']}",
         "  [" + ";\n   ".join(f"({cstring(k)}, {cstring(v)})" for k, v in shape_list(dsc)) + "]."]
    return "\n".join(L) + "\n"


def translate(repo: Path) -> str:
    return emit(describe(repo))


if __name__ == "__main__":
    import sys

    dsc = describe(Path(sys.argv[1] if len(sys.argv) > 1 else "/repo"))
    for k, v in shape_list(dsc):
        print(k, "::", v)
    print(emit(dsc))
