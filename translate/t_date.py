"""T-date: fail-closed translator  /repo/bermuda/date_utils.py  ->  GenDate.v

Typed expression translator from a small Python subset to Gallina over primitive ints
(`I`), binary64 floats (`F`), dates (`D`, record of three ints), day counts (`TD`), booleans
(`B`) and unit strings (`S`).  Anything outside the subset aborts with the offending source.
Insensitive to comments, docstrings, formatting and the order of definitions.
"""
from __future__ import annotations

import ast
import sys
from pathlib import Path

FUNCS = [
    "_month_fraction",
    "dev_lag_months",
    "add_months",
    "month_to_id",
    "id_to_month",
    "_is_month_start",
    "_is_month_end",
    "resolution_delta",
]
# signatures of functions the source leaves unannotated
EXTRA_SIG = {
    "resolution_delta": {"args": {"date": "D", "resolution": ("I", "S"), "negative": "B"}, "ret": "D"},
    "id_to_month": {"args": {"beginning": "B"}, "ret": None},
}
COQ_TY = {"I": "int", "F": "float", "D": "date", "TD": "int", "B": "bool", "S": "string"}


class Unsupported(Exception):
    pass


def coq_ty(t):
    if isinstance(t, tuple):
        return "(" + " * ".join(coq_ty(x) for x in t) + ")"
    return COQ_TY[t]


def src(node):
    try:
        return ast.unparse(node)
    except Exception:
        return repr(node)


def bail(node, why):
    raise Unsupported(f"{why}: `{src(node)}` (line {getattr(node, 'lineno', '?')})")


def ann_type(a):
    if a is None:
        return None
    s = src(a)
    return {
        "int": "I",
        "float": "F",
        "bool": "B",
        "str": "S",
        "datetime.date": "D",
        "datetime.timedelta": "TD",
    }.get(s) or bail(a, "unsupported annotation")


def float_lit(x: float) -> str:
    if x != x or x in (float("inf"), float("-inf")):
        raise Unsupported("non-finite float literal")
    if x == int(x) and abs(x) < 2**53:
        s = f"{int(abs(x))}%float"
    else:
        s = f"{abs(x).hex()}%float"
    return f"(PrimFloat.opp {s})" if x < 0 or (x == 0 and str(x).startswith("-")) else f"({s})"


def int_lit(n: int) -> str:
    if abs(n) >= 2**40:
        raise Unsupported("integer literal too large for the 63-bit model")
    return f"(ineg {-n})" if n < 0 else f"({n})"


class Tr:
    def __init__(self, sigs):
        self.sigs = sigs  # name -> (argnames, argtypes, rettype)

    # ---- coercions -------------------------------------------------------------------
    def coerce(self, txt, t, want, node):
        if t == want:
            return txt
        if t == "I" and want == "F":
            return f"(i2f {txt})"
        if t == "I" and want == "TD":
            return txt
        bail(node, f"cannot use a value of type {t} where {want} is expected")

    def unify(self, a, ta, b, tb, node):
        if ta == tb:
            return a, b, ta
        if {ta, tb} == {"I", "F"}:
            return self.coerce(a, ta, "F", node), self.coerce(b, tb, "F", node), "F"
        bail(node, f"branches of different types {ta}/{tb}")

    # ---- expressions -----------------------------------------------------------------
    def expr(self, e, env):
        if isinstance(e, ast.Constant):
            v = e.value
            if isinstance(v, bool):
                return ("true" if v else "false"), "B"
            if isinstance(v, int):
                return int_lit(v), "I"
            if isinstance(v, float):
                return float_lit(v), "F"
            if isinstance(v, str):
                if '"' in v:
                    bail(e, "string literal with quote")
                return f'"{v}"%string', "S"
            bail(e, "unsupported constant")
        if isinstance(e, ast.Name):
            if e.id not in env:
                bail(e, "unknown name")
            return env[e.id]
        if isinstance(e, ast.UnaryOp):
            x, t = self.expr(e.operand, env)
            if isinstance(e.op, ast.USub):
                if t == "I":
                    return f"(ineg {x})", "I"
                if t == "F":
                    return f"(PrimFloat.opp {x})", "F"
            if isinstance(e.op, ast.Not) and t == "B":
                return f"(negb {x})", "B"
            bail(e, "unsupported unary operator")
        if isinstance(e, ast.Attribute):
            s = src(e)
            if s == "datetime.date.max":
                return "date_max", "D"
            if s in ("np.inf", "math.inf"):
                return "PrimFloat.infinity", "F"
            x, t = self.expr(e.value, env)
            if t == "D" and e.attr in ("year", "month", "day"):
                return f"(d{e.attr} {x})", "I"
            if t == "TD" and e.attr == "days":
                return x, "I"
            bail(e, "unsupported attribute")
        if isinstance(e, ast.Subscript) and isinstance(e.value, ast.Call) and src(e.value.func) == "calendar.monthrange" \
                and isinstance(e.slice, ast.Constant) and e.slice.value == 1 and type(e.slice.value) is int:
            ys = []
            for a in e.value.args:
                x, t = self.expr(a, env)
                if t != "I":
                    bail(a, "monthrange argument is not an int")
                ys.append(x)
            if len(ys) != 2 or e.value.keywords:
                bail(e, "monthrange arity")
            return f"(py_monthrange_days {ys[0]} {ys[1]})", "I"
        if isinstance(e, ast.IfExp):
            c, tc = self.expr(e.test, env)
            if tc != "B":
                bail(e.test, "condition is not boolean")
            a, ta = self.expr(e.body, env)
            b, tb = self.expr(e.orelse, env)
            a, b, t = self.unify(a, ta, b, tb, e)
            return f"(if {c} then {a} else {b})", t
        if isinstance(e, ast.BoolOp):
            parts = []
            for v in e.values:
                x, t = self.expr(v, env)
                if t != "B":
                    bail(v, "non-boolean operand of and/or")
                parts.append(x)
            op = " && " if isinstance(e.op, ast.And) else " || "
            return "(" + op.join(parts) + ")", "B"
        if isinstance(e, ast.Compare):
            if len(e.ops) != 1:
                bail(e, "chained comparison")
            a, ta = self.expr(e.left, env)
            b, tb = self.expr(e.comparators[0], env)
            op = e.ops[0]
            if ta == "TD":
                ta = "I"
            if tb == "TD":
                tb = "I"
            if {ta, tb} == {"I", "F"}:
                a, b, ta = self.unify(a, ta, b, tb, e)
                tb = ta
            if ta != tb:
                bail(e, f"comparison of {ta} with {tb}")
            tbl = {
                "I": ("ieq", "ilt", "ile"),
                "F": ("PrimFloat.eqb", "PrimFloat.ltb", "PrimFloat.leb"),
                "D": ("date_eqb", "date_ltb", "date_leb"),
                "S": ("str_eqb", None, None),
                "B": ("Bool.eqb", None, None),
            }[ta]
            eq, lt, le = tbl
            if isinstance(op, ast.Eq):
                return f"({eq} {a} {b})", "B"
            if isinstance(op, ast.NotEq):
                return f"(negb ({eq} {a} {b}))", "B"
            if lt is None:
                bail(e, "ordering comparison on this type")
            if isinstance(op, ast.Lt):
                return f"({lt} {a} {b})", "B"
            if isinstance(op, ast.LtE):
                return f"({le} {a} {b})", "B"
            if isinstance(op, ast.Gt):
                return f"({lt} {b} {a})", "B"
            if isinstance(op, ast.GtE):
                return f"({le} {b} {a})", "B"
            bail(e, "unsupported comparison operator")
        if isinstance(e, ast.BinOp):
            return self.binop(e, env)
        if isinstance(e, ast.Call):
            return self.call(e, env)
        bail(e, "unsupported expression")

    def binop(self, e, env):
        a, ta = self.expr(e.left, env)
        b, tb = self.expr(e.right, env)
        op = e.op
        if isinstance(op, (ast.Add, ast.Sub, ast.Mult)):
            if ta == "D" and tb in ("TD", "I") and isinstance(op, (ast.Add, ast.Sub)):
                if tb != "TD":
                    bail(e, "date +/- non-timedelta")
                k = b if isinstance(op, ast.Add) else f"(ineg {b})"
                return f"(date_add_days {a} {k})", "D"
            if ta == "D" and tb == "D" and isinstance(op, ast.Sub):
                return f"(date_sub {a} {b})", "TD"
            if ta in ("I", "F") and tb in ("I", "F"):
                a, b, t = self.unify(a, ta, b, tb, e)
                name = {ast.Add: "add", ast.Sub: "sub", ast.Mult: "mul"}[type(op)]
                fn = ("i" + name) if t == "I" else ("PrimFloat." + name)
                return f"({fn} {a} {b})", t
            bail(e, f"arithmetic on {ta},{tb}")
        if isinstance(op, ast.Div):
            if ta in ("I", "F") and tb in ("I", "F"):
                return f"(PrimFloat.div {self.coerce(a, ta, 'F', e)} {self.coerce(b, tb, 'F', e)})", "F"
            bail(e, "division on non-numbers")
        if isinstance(op, (ast.FloorDiv, ast.Mod)):
            r = e.right
            if ta == "I" and isinstance(r, ast.Constant) and isinstance(r.value, int) and r.value > 0:
                fn = "py_floordiv" if isinstance(op, ast.FloorDiv) else "py_mod"
                return f"({fn} {a} {b})", "I"
            if ta == "F" and isinstance(op, ast.Mod) and isinstance(r, ast.Constant) and r.value == 1:
                return f"(py_fmod1 {a})", "F"
            bail(e, "// or % outside the supported forms (int by positive literal, float % 1)")
        bail(e, "unsupported binary operator")

    def call(self, e, env):
        f = src(e.func)
        if f == "datetime.date":
            if len(e.args) != 3 or e.keywords:
                bail(e, "date() needs three positional arguments")
            xs = []
            for a in e.args:
                x, t = self.expr(a, env)
                if t != "I":
                    bail(a, "date() argument is not an int")
                xs.append(x)
            return f"(mkdate {' '.join(xs)})", "D"
        if f == "datetime.timedelta":
            if e.args or len(e.keywords) != 1 or e.keywords[0].arg != "days":
                bail(e, "only timedelta(days=...) is supported")
            x, t = self.expr(e.keywords[0].value, env)
            if t != "I":
                bail(e, "timedelta days is not an int")
            return x, "TD"
        if f in ("int", "round"):
            if len(e.args) != 1 or e.keywords:
                bail(e, f"{f}() with one argument only")
            x, t = self.expr(e.args[0], env)
            if t == "I":
                return x, "I"
            if t != "F":
                bail(e, f"{f}() of a non-number")
            return f"({'py_int' if f == 'int' else 'py_round'} {x})", "I"
        if f in self.sigs:
            names, types, ret = self.sigs[f]
            if e.keywords or len(e.args) != len(names):
                bail(e, "call with keywords / wrong arity")
            xs = []
            for a, t_want in zip(e.args, types):
                x, t = self.expr(a, env)
                xs.append(self.coerce(x, t, t_want, a))
            return f"(py_{f.lstrip('_')} {' '.join(xs)})", ret
        bail(e, "call to an unknown function")

    # ---- statements ------------------------------------------------------------------
    def always_returns(self, stmts):
        if not stmts:
            return False
        last = stmts[-1]
        if isinstance(last, ast.Return):
            return True
        if isinstance(last, ast.If):
            return self.always_returns(last.body) and self.always_returns(last.orelse)
        return False

    def block(self, stmts, env, ret, node):
        if not stmts:
            bail(node, "control reaches the end of a function without return")
        s, rest = stmts[0], stmts[1:]
        env = dict(env)
        if isinstance(s, ast.Expr) and isinstance(s.value, ast.Constant) and isinstance(s.value.value, str):
            return self.block(rest, env, ret, node)
        if isinstance(s, ast.Return):
            if s.value is None:
                bail(s, "bare return")
            x, t = self.expr(s.value, env)
            return self.coerce(x, t, ret, s)
        if isinstance(s, ast.Assign):
            if len(s.targets) != 1:
                bail(s, "multiple assignment targets")
            tgt = s.targets[0]
            if isinstance(tgt, ast.Name):
                x, t = self.expr(s.value, env)
                v = self.fresh(tgt.id)
                env[tgt.id] = (v, t)
                return f"let {v} := {x} in\n  {self.block(rest, env, ret, node)}"
            if isinstance(tgt, ast.Tuple) and all(isinstance(n, ast.Name) for n in tgt.elts):
                names = [n.id for n in tgt.elts]
                if src(s.value.func if isinstance(s.value, ast.Call) else s.value) == "calendar.monthrange":
                    if len(names) != 2 or names[0] != "_":
                        bail(s, "monthrange must be unpacked as `_, n`")
                    ys = []
                    for a in s.value.args:
                        x, t = self.expr(a, env)
                        if t != "I":
                            bail(a, "monthrange argument is not an int")
                        ys.append(x)
                    if len(ys) != 2:
                        bail(s, "monthrange arity")
                    v = self.fresh(names[1])
                    env[names[1]] = (v, "I")
                    return f"let {v} := (py_monthrange_days {ys[0]} {ys[1]}) in\n  {self.block(rest, env, ret, node)}"
                x, t = self.expr(s.value, env)
                if isinstance(t, tuple) and len(t) == len(names):
                    vs = []
                    for n, ti in zip(names, t):
                        v = self.fresh(n)
                        env[n] = (v, ti)
                        vs.append(v)
                    return f"let '({', '.join(vs)}) := {x} in\n  {self.block(rest, env, ret, node)}"
            bail(s, "unsupported assignment")
        if isinstance(s, ast.AugAssign):
            if not isinstance(s.target, ast.Name):
                bail(s, "augmented assignment to a non-name")
            fake = ast.BinOp(left=ast.Name(id=s.target.id, ctx=ast.Load()), op=s.op, right=s.value)
            ast.copy_location(fake, s)
            x, t = self.expr(fake, env)
            v = self.fresh(s.target.id)
            env[s.target.id] = (v, t)
            return f"let {v} := {x} in\n  {self.block(rest, env, ret, node)}"
        if isinstance(s, ast.If):
            c, tc = self.expr(s.test, env)
            if tc != "B":
                bail(s.test, "condition is not boolean")
            if self.always_returns(s.body):
                a = self.block(s.body, env, ret, s)
                b = self.block(s.orelse + rest if not self.always_returns(s.orelse) else s.orelse, env, ret, s)
                if self.always_returns(s.orelse) and rest:
                    bail(rest[0], "unreachable code after if/else that always returns")
                return f"if {c} then\n  {a}\n  else\n  {b}"
            # conditional update of one variable:  if c: x <op>= e
            if not s.orelse and len(s.body) == 1 and isinstance(s.body[0], (ast.Assign, ast.AugAssign)):
                st = s.body[0]
                tgt = st.targets[0] if isinstance(st, ast.Assign) else st.target
                if isinstance(tgt, ast.Name) and tgt.id in env:
                    if isinstance(st, ast.AugAssign):
                        val = ast.BinOp(left=ast.Name(id=tgt.id, ctx=ast.Load()), op=st.op, right=st.value)
                        ast.copy_location(val, st)
                    else:
                        val = st.value
                    x, t = self.expr(val, env)
                    old, told = env[tgt.id]
                    x, old2, t2 = self.unify(x, t, old, told, st)
                    v = self.fresh(tgt.id)
                    env[tgt.id] = (v, t2)
                    return f"let {v} := (if {c} then {x} else {old2}) in\n  {self.block(rest, env, ret, node)}"
            # general conditional update: both branches are straight-line assignments to plain names
            def assigned(stmts):
                out = []
                for st in stmts:
                    if isinstance(st, ast.Assign) and len(st.targets) == 1 and isinstance(st.targets[0], ast.Name):
                        out.append(st.targets[0].id)
                    elif isinstance(st, ast.AugAssign) and isinstance(st.target, ast.Name):
                        out.append(st.target.id)
                    elif isinstance(st, ast.Expr) and isinstance(st.value, ast.Constant):
                        continue
                    else:
                        bail(st, "unsupported statement inside a conditional update")
                return out
            names = sorted(set(assigned(s.body)) | set(assigned(s.orelse)))
            if not names:
                bail(s, "unsupported if-statement shape")

            def branch(stmts):
                benv, lets = dict(env), []
                for st in stmts:
                    if isinstance(st, ast.Expr):
                        continue
                    if isinstance(st, ast.Assign):
                        tgt, val = st.targets[0].id, st.value
                    else:
                        tgt = st.target.id
                        val = ast.BinOp(left=ast.Name(id=tgt, ctx=ast.Load()), op=st.op, right=st.value)
                        ast.copy_location(val, st)
                    x, t = self.expr(val, benv)
                    v = self.fresh(tgt)
                    benv[tgt] = (v, t)
                    lets.append(f"let {v} := {x} in ")
                for n in names:
                    if n not in benv:
                        bail(s, f"`{n}` is assigned in one branch only and not defined before the if")
                return lets, [benv[n] for n in names]
            la, va = branch(s.body)
            lb, vb = branch(s.orelse)
            comps_a, comps_b, types = [], [], []
            for (xa, ta), (xb, tb) in zip(va, vb):
                xa2, xb2, t2 = self.unify(xa, ta, xb, tb, s)
                comps_a.append(xa2)
                comps_b.append(xb2)
                types.append(t2)
            vs = []
            for n, t in zip(names, types):
                v = self.fresh(n)
                env[n] = (v, t)
                vs.append(v)
            tup = (lambda cs: cs[0] if len(cs) == 1 else "(" + ", ".join(cs) + ")")
            pat = vs[0] if len(vs) == 1 else "'(" + ", ".join(vs) + ")"
            return (f"let {pat} := (if {c} then {''.join(la)}{tup(comps_a)} else {''.join(lb)}{tup(comps_b)}) in\n  "
                    f"{self.block(rest, env, ret, node)}")
        bail(s, "unsupported statement")

    _n = 0

    def fresh(self, name):
        Tr._n += 1
        base = name if name != "_" else "u"
        if base in ("id", "date", "int", "float", "bool", "string", "in", "at", "end", "fun", "let", "match", "if", "then", "else", "Type", "Set", "Prop", "as", "with", "return", "for", "forall", "exists", "fix", "cofix", "struct", "where", "using"):
            base += "_"
        return f"{base}{Tr._n}"


def translate(repo: Path) -> str:
    path = repo / "bermuda" / "date_utils.py"
    tree = ast.parse(path.read_text())
    defs = {n.name: n for n in tree.body if isinstance(n, ast.FunctionDef)}
    sigs = {}
    for f in FUNCS:
        if f not in defs:
            raise Unsupported(f"function {f} not found in date_utils.py")
        d = defs[f]
        a = d.args
        if a.vararg or a.kwarg or a.kwonlyargs or a.posonlyargs:
            raise Unsupported(f"{f}: unsupported parameter kinds")
        extra = EXTRA_SIG.get(f, {"args": {}, "ret": None})
        names, types = [], []
        for arg in a.args:
            t = ann_type(arg.annotation) if arg.annotation is not None else extra["args"].get(arg.arg)
            if t is None:
                raise Unsupported(f"{f}: parameter `{arg.arg}` has no type annotation")
            names.append(arg.arg)
            types.append(t)
        ret = ann_type(d.returns) if d.returns is not None else extra["ret"]
        if ret is None:
            raise Unsupported(f"{f}: no return annotation")
        # record defaults (only literal booleans are accepted; they are recorded, not used)
        for dv in a.defaults:
            if not (isinstance(dv, ast.Constant) and isinstance(dv.value, bool)):
                raise Unsupported(f"{f}: unsupported default value `{src(dv)}`")
        sigs[f] = (names, types, ret)
    # dependency order: emit a function after the functions it calls
    order, seen = [], set()

    def visit(f, stack=()):
        if f in seen:
            return
        if f in stack:
            raise Unsupported(f"recursion through {f}")
        for n in ast.walk(defs[f]):
            if isinstance(n, ast.Call) and isinstance(n.func, ast.Name) and n.func.id in sigs and n.func.id != f:
                visit(n.func.id, stack + (f,))
        seen.add(f)
        order.append(f)

    for f in FUNCS:
        visit(f)
    tr = Tr(sigs)
    out = [
        "(* GENERATED by translate/t_date.py from bermuda/date_utils.py -- do not edit *)",
        "From Coq Require Import ZArith Bool Uint63 PrimFloat String.",
        "From Bermuda Require Import Lib.PyPrim.",
        "Open Scope bool_scope.",
        "Open Scope uint63_scope.",
        "",
    ]
    for f in order:
        names, types, ret = sigs[f]
        Tr._n = 0
        env = {}
        params = []
        for n, t in zip(names, types):
            v = tr.fresh(n)
            env[n] = (v, t)
            params.append(f"({v} : {coq_ty(t)})")
        body = tr.block(defs[f].body, env, ret, defs[f])
        out.append(f"Definition py_{f.lstrip('_')} {' '.join(params)} : {coq_ty(ret)} :=\n  {body}.\n")
    return "\n".join(out)


if __name__ == "__main__":
    repo = Path(sys.argv[1] if len(sys.argv) > 1 else "/repo")
    try:
        sys.stdout.write(translate(repo))
    except Unsupported as ex:
        sys.stderr.write(f"T-date: unsupported construct: {ex}\n")
        sys.exit(3)
