"""T-basis: fail-closed extraction of the decision-carrying constants of bermuda/utils/basis.py

    _values_diff   {k: (NEXT[k] if k == "<carry>" else NEXT[k] - PREV[k]) for k in set(PREV.keys())}
                   preceded by  `if set(PREV.keys()).symmetric_difference(set(NEXT.keys())): raise TriangleError`
    _values_add    {k: (NEXT[k] if k == "<carry>" else CURR[k] + NEXT[k]) for k in set(CURR.keys())}
    to_incremental first IncrementalCell(..., prev_evaluation_date=resolution_delta(period_start, (-1, "days")))
    to_cumulative  `if resolution_delta(cells[0].prev_evaluation_date, (1, "days")) != cells[0].period_start: raise TriangleError`
                   `if cell.prev_evaluation_date != current_evaluation_date: raise TriangleError`

into  Definition d : bdesc := mkBdesc <carry_diff> <carry_add> <off_first> <off_check>.
Local names, formatting, comments and error messages are irrelevant; any other shape raises Unsupported.
"""
from __future__ import annotations

import ast
from pathlib import Path


class Unsupported(Exception):
    pass


def fail(msg, node=None):
    where = f" (line {node.lineno})" if node is not None and hasattr(node, "lineno") else ""
    raise Unsupported(f"t_basis: {msg}{where}")


def func(mod, name):
    for n in mod.body:
        if isinstance(n, ast.FunctionDef) and n.name == name:
            return n
    fail(f"function {name} not found")


def is_sub(node, base, key):
    """node is  base[key]  with Name base / Name key"""
    return (isinstance(node, ast.Subscript) and isinstance(node.value, ast.Name) and node.value.id == base
            and isinstance(node.slice, ast.Name) and node.slice.id == key)


def raises_triangle_error(stmts):
    return (len(stmts) == 1 and isinstance(stmts[0], ast.Raise) and isinstance(stmts[0].exc, ast.Call)
            and isinstance(stmts[0].exc.func, ast.Name) and stmts[0].exc.func.id == "TriangleError")


def keyset_of(node, env):
    """set(X.keys()) or a local bound to it -> X"""
    if isinstance(node, ast.Name) and node.id in env:
        return env[node.id]
    if (isinstance(node, ast.Call) and isinstance(node.func, ast.Name) and node.func.id == "set" and len(node.args) == 1
            and isinstance(node.args[0], ast.Call) and isinstance(node.args[0].func, ast.Attribute)
            and node.args[0].func.attr == "keys" and isinstance(node.args[0].func.value, ast.Name)
            and not node.args[0].args):
        return node.args[0].func.value.id
    return None


class _Rename(ast.NodeTransformer):
    def __init__(self, m):
        self.m = m

    def visit_Name(self, n):
        return ast.copy_location(ast.Name(id=self.m.get(n.id, n.id), ctx=n.ctx), n)


def inline_helpers(mod, body, depth=3):
    """Statement-level inlining of `x = helper(a, b)` where `helper` is a module-level function with plain
    positional parameters, called with plain names, whose body is straight-line statements / guards ending
    in its only `return`.  The helper's statements are spliced in (parameters replaced by the argument names,
    its locals renamed apart), the final `return e` becomes `x = e`.  The spliced code is then parsed by the
    same shape checks as hand-inlined code, so extracting a helper neither hides nor admits anything.
    Any other helper shape fails closed."""
    import copy

    fns = {n.name: n for n in mod.body if isinstance(n, ast.FunctionDef)}
    out = []
    for st in body:
        v = st.value if isinstance(st, ast.Assign) and len(st.targets) == 1 and isinstance(st.targets[0], ast.Name) else None
        if not (isinstance(v, ast.Call) and isinstance(v.func, ast.Name) and v.func.id in fns):
            out.append(st)
            continue
        if depth <= 0:
            fail("helper calls nested too deeply", st)
        h = fns[v.func.id]
        params = [a.arg for a in h.args.args]
        if (v.keywords or h.args.defaults or h.args.vararg or h.args.kwarg or h.args.kwonlyargs or h.args.posonlyargs
                or h.decorator_list or len(v.args) != len(params) or not all(isinstance(a, ast.Name) for a in v.args)):
            fail(f"call of helper {h.name} has an unsupported shape", st)
        hb = [x for x in h.body if not (isinstance(x, ast.Expr) and isinstance(x.value, ast.Constant))]
        if not hb or not isinstance(hb[-1], ast.Return) or hb[-1].value is None:
            fail(f"helper {h.name} does not end in `return <expr>`", h)
        for x in hb[:-1]:
            for n in ast.walk(x):
                if isinstance(n, (ast.Return, ast.FunctionDef, ast.Lambda, ast.Global, ast.Nonlocal, ast.Yield,
                                  ast.YieldFrom, ast.Await, ast.NamedExpr)):
                    fail(f"helper {h.name} is not straight-line code with a single return", n)
        assigned = {t.id for x in hb for n in ast.walk(x) if isinstance(n, (ast.Assign, ast.AugAssign, ast.AnnAssign))
                    for t in ast.walk(n) if isinstance(t, ast.Name) and isinstance(t.ctx, ast.Store)}
        if assigned & set(params):
            fail(f"helper {h.name} reassigns a parameter", h)
        m = {p_: a.id for p_, a in zip(params, v.args)}
        m.update({loc: f"_{h.name}__{loc}" for loc in assigned})
        ren = [_Rename(m).visit(copy.deepcopy(x)) for x in hb]
        spliced = ren[:-1] + [ast.copy_location(ast.Assign(targets=[st.targets[0]], value=ren[-1].value), st)]
        out += inline_helpers(mod, spliced, depth - 1)
    return out


def values_fn(mod, fn, op_cls, left_is_first):
    """-> carried key.  `first`/`second` are the two parameters."""
    if len(fn.args.args) != 2 or fn.args.defaults or fn.args.vararg or fn.args.kwarg:
        fail(f"{fn.name}: expected exactly two positional parameters", fn)
    first, second = (a.arg for a in fn.args.args)
    env = {}
    body = [s for s in fn.body if not (isinstance(s, ast.Expr) and isinstance(s.value, ast.Constant))]
    body = inline_helpers(mod, body)
    guard_seen = False
    ret = None
    for s in body:
        if isinstance(s, ast.Assign) and len(s.targets) == 1 and isinstance(s.targets[0], ast.Name):
            ks = keyset_of(s.value, env)
            if ks is None:
                fail(f"{fn.name}: unsupported assignment", s)
            env[s.targets[0].id] = ks
        elif isinstance(s, ast.If):
            t = s.test
            ok = (isinstance(t, ast.Call) and isinstance(t.func, ast.Attribute) and t.func.attr == "symmetric_difference"
                  and len(t.args) == 1 and not s.orelse and raises_triangle_error(s.body))
            if ok:
                a, b = keyset_of(t.func.value, env), keyset_of(t.args[0], env)
                ok = {a, b} == {first, second}
            elif (isinstance(t, ast.Compare) and len(t.ops) == 1 and isinstance(t.ops[0], ast.NotEq)
                  and not s.orelse and raises_triangle_error(s.body)):
                a, b = keyset_of(t.left, env), keyset_of(t.comparators[0], env)
                ok = {a, b} == {first, second}
            if not ok:
                fail(f"{fn.name}: key-set guard has an unexpected shape", s)
            guard_seen = True
        elif isinstance(s, ast.Return):
            if not guard_seen:
                fail(f"{fn.name}: result is built before the key sets are compared", s)
            ret = s.value
        else:
            fail(f"{fn.name}: unsupported statement {type(s).__name__}", s)
    if not isinstance(ret, ast.DictComp) or len(ret.generators) != 1:
        fail(f"{fn.name}: return value is not a single dict comprehension", fn)
    g = ret.generators[0]
    if g.ifs or g.is_async or not isinstance(g.target, ast.Name):
        fail(f"{fn.name}: comprehension has filters", ret)
    k = g.target.id
    it = keyset_of(g.iter, env)
    if it is None and isinstance(g.iter, ast.Name) and g.iter.id in (first,):
        it = first
    if it not in (first, second):
        fail(f"{fn.name}: comprehension does not iterate over the keys of an argument", ret)
    if not (isinstance(ret.key, ast.Name) and ret.key.id == k):
        fail(f"{fn.name}: comprehension key is not the loop variable", ret)
    v = ret.value
    if not isinstance(v, ast.IfExp):
        fail(f"{fn.name}: value is not a conditional expression (carry rule missing?)", ret)
    t = v.test
    if not (isinstance(t, ast.Compare) and len(t.ops) == 1 and isinstance(t.ops[0], ast.Eq)
            and isinstance(t.left, ast.Name) and t.left.id == k and isinstance(t.comparators[0], ast.Constant)
            and isinstance(t.comparators[0].value, str)):
        fail(f"{fn.name}: carry test is not `k == \"<field>\"`", v)
    if not is_sub(v.body, second, k):
        fail(f"{fn.name}: carried value is not {second}[k]", v)
    o = v.orelse
    want_l, want_r = (first, second) if left_is_first else (second, first)
    if not (isinstance(o, ast.BinOp) and isinstance(o.op, op_cls) and is_sub(o.left, want_l, k)
            and is_sub(o.right, want_r, k)):
        fail(f"{fn.name}: combined value is not {want_l}[k] {op_cls.__name__} {want_r}[k]", v)
    return t.comparators[0].value


def int_const(node):
    if isinstance(node, ast.Constant) and type(node.value) is int:
        return node.value
    if isinstance(node, ast.UnaryOp) and isinstance(node.op, ast.USub) and isinstance(node.operand, ast.Constant) \
            and type(node.operand.value) is int:
        return -node.operand.value
    return None


def day_offset(node):
    """resolution_delta(X, (n, "days"))  |  X + timedelta(days=n)  |  X - timedelta(days=n)  ->  (X, n)"""
    if isinstance(node, ast.Call) and isinstance(node.func, ast.Name) and node.func.id == "resolution_delta":
        if len(node.args) == 2 and not node.keywords and isinstance(node.args[1], ast.Tuple) and len(node.args[1].elts) == 2:
            n = int_const(node.args[1].elts[0])
            u = node.args[1].elts[1]
            if n is not None and isinstance(u, ast.Constant) and u.value in ("day", "days"):
                return node.args[0], n
        fail("resolution_delta call with an unexpected resolution", node)
    if isinstance(node, ast.BinOp) and isinstance(node.op, (ast.Add, ast.Sub)):
        r = node.right
        if (isinstance(r, ast.Call) and ((isinstance(r.func, ast.Attribute) and r.func.attr == "timedelta")
                                         or (isinstance(r.func, ast.Name) and r.func.id == "timedelta"))
                and not r.args and len(r.keywords) == 1 and r.keywords[0].arg == "days"):
            n = int_const(r.keywords[0].value)
            if n is not None:
                return node.left, n if isinstance(node.op, ast.Add) else -n
    return None


def attr_chain(node):
    """cells[0].x or cell.x -> ('cells0'|name, attr)"""
    if isinstance(node, ast.Attribute):
        b = node.value
        if isinstance(b, ast.Name):
            return b.id, node.attr
        if (isinstance(b, ast.Subscript) and isinstance(b.value, ast.Name) and isinstance(b.slice, ast.Constant)
                and b.slice.value == 0):
            return b.value.id + "[0]", node.attr
    return None, None


def _stores(fn, name):
    return [n for n in ast.walk(fn) if isinstance(n, ast.Name) and n.id == name and isinstance(n.ctx, (ast.Store, ast.Del))]


def _list_untouched(fn, name):
    """`name` (a list bound by a for target) is only read: no item stores/deletes, no mutating method calls"""
    for n in ast.walk(fn):
        if isinstance(n, ast.Subscript) and isinstance(n.value, ast.Name) and n.value.id == name \
                and isinstance(n.ctx, (ast.Store, ast.Del)):
            return False
        if isinstance(n, ast.Call) and isinstance(n.func, ast.Attribute) and isinstance(n.func.value, ast.Name) \
                and n.func.value.id == name and n.func.attr in ("append", "extend", "insert", "pop", "remove", "sort",
                                                               "reverse", "clear", "__setitem__", "__delitem__"):
            return False
        if isinstance(n, ast.AugAssign) and isinstance(n.target, ast.Name) and n.target.id == name:
            return False
    return True


def _is_sub0(e):
    return (isinstance(e, ast.Subscript) and isinstance(e.value, ast.Name) and isinstance(e.slice, ast.Constant)
            and e.slice.value == 0 and type(e.slice.value) is int)


def resolve_first_aliases(fn):
    """`first = cells[0]` as a direct statement of the `for ..., cells in ...` body, `first` assigned nowhere
    else, every use of `first` later in that same body, `cells` bound only by that for target and never
    modified  ==>  `first` IS `cells[0]` at each use: replace it.  Any other alias of a subscript is left alone
    (and then fails the shape checks as before)."""
    import copy

    fn = copy.deepcopy(fn)
    for loop in [n for n in ast.walk(fn) if isinstance(n, ast.For)]:
        bound = {t.id for t in ast.walk(loop.target) if isinstance(t, ast.Name)}
        for idx, st in enumerate(list(loop.body)):
            if not (isinstance(st, ast.Assign) and len(st.targets) == 1 and isinstance(st.targets[0], ast.Name)
                    and _is_sub0(st.value) and st.value.value.id in bound):
                continue
            alias, lst = st.targets[0].id, st.value.value.id
            if len(_stores(fn, alias)) != 1 or len(_stores(fn, lst)) != 1 or not _list_untouched(fn, lst):
                continue
            later = set()
            for x in loop.body[idx + 1:]:
                later |= {id(n) for n in ast.walk(x)}
            uses = [n for n in ast.walk(fn) if isinstance(n, ast.Name) and n.id == alias and isinstance(n.ctx, ast.Load)]
            if not uses or any(id(n) not in later for n in uses):
                continue

            class R(ast.NodeTransformer):
                def visit_Name(self, n):
                    if n.id == alias and isinstance(n.ctx, ast.Load):
                        return ast.copy_location(copy.deepcopy(st.value), n)
                    return n
            loop.body = loop.body[:idx] + [R().visit(x) for x in loop.body[idx + 1:]]
    return fn


def _int_of(e):
    return int_const(e)


def _len_of(e, lst):
    return (isinstance(e, ast.Call) and isinstance(e.func, ast.Name) and e.func.id == "len" and len(e.args) == 1
            and not e.keywords and isinstance(e.args[0], ast.Name) and e.args[0].id == lst)


def _index_expr(e, i):
    """e is  i + c  /  i - c  /  i   ->  c"""
    if isinstance(e, ast.Name) and e.id == i:
        return 0
    if isinstance(e, ast.BinOp) and isinstance(e.left, ast.Name) and e.left.id == i and isinstance(e.op, (ast.Add, ast.Sub)):
        c = _int_of(e.right)
        if c is not None:
            return c if isinstance(e.op, ast.Add) else -c
    return None


def pairwise_loop(fn, call):
    """The for loop around `call` walks consecutive pairs (P, N) = (cells[k], cells[k+1]), k = 0 .. len-2, in order:
         for P, N in zip(cells[:-1], cells[1:])                     (also zip(cells, cells[1:]))
         for i in range(1, len(cells)):      P = cells[i-1]; N = cells[i]      (single or tuple assignment)
         for i in range(len(cells) - 1):     P = cells[i];   N = cells[i+1]
       -> (P, N, cells)"""
    loops = [n for n in ast.walk(fn) if isinstance(n, ast.For) and any(x is call for b in n.body for x in ast.walk(b))]
    if not loops:
        fail("to_incremental: the later increments are not built inside a loop", call)
    loop = max(loops, key=lambda n: n.lineno)          # innermost
    if loop.orelse:
        fail("to_incremental: pair loop has an else clause", loop)
    it, tg = loop.iter, loop.target
    if isinstance(it, ast.Call) and isinstance(it.func, ast.Name) and it.func.id == "zip" and len(it.args) == 2 and not it.keywords:
        a, b = it.args

        def sl(e):
            if isinstance(e, ast.Name):
                return e.id, (None, None)
            if isinstance(e, ast.Subscript) and isinstance(e.value, ast.Name) and isinstance(e.slice, ast.Slice) and e.slice.step is None:
                lo = None if e.slice.lower is None else _int_of(e.slice.lower)
                hi = None if e.slice.upper is None else _int_of(e.slice.upper)
                if (e.slice.lower is None or lo is not None) and (e.slice.upper is None or hi is not None):
                    return e.value.id, (lo, hi)
            return None, None
        (la, ra), (lb, rb) = sl(a), sl(b)
        ok = (la is not None and la == lb and ra in ((None, -1), (None, None), (0, -1), (0, None)) and rb == (1, None)
              and isinstance(tg, ast.Tuple) and len(tg.elts) == 2 and all(isinstance(x, ast.Name) for x in tg.elts))
        if not ok:
            fail("to_incremental: pair loop is not zip(cells[:-1], cells[1:])", loop)
        return tg.elts[0].id, tg.elts[1].id, la
    if isinstance(it, ast.Call) and isinstance(it.func, ast.Name) and it.func.id == "range" and not it.keywords \
            and isinstance(tg, ast.Name):
        i = tg.id
        binds = {}
        for st in loop.body:
            if not isinstance(st, ast.Assign) or len(st.targets) != 1:
                break
            t, v = st.targets[0], st.value
            pairs = list(zip(t.elts, v.elts)) if (isinstance(t, ast.Tuple) and isinstance(v, ast.Tuple)
                                                  and len(t.elts) == len(v.elts)) else [(t, v)]
            for tt, vv in pairs:
                if not (isinstance(tt, ast.Name) and isinstance(vv, ast.Subscript) and isinstance(vv.value, ast.Name)):
                    fail("to_incremental: unsupported assignment at the head of the pair loop", st)
                c = _index_expr(vv.slice, i)
                if c is None:
                    fail("to_incremental: unsupported index at the head of the pair loop", st)
                binds[tt.id] = (vv.value.id, c)
        if len(binds) != 2 or len({l for l, _ in binds.values()}) != 1:
            fail("to_incremental: index loop does not bind exactly two cells of one list", loop)
        lst = next(iter(binds.values()))[0]
        (p_, cp), (n_, cn) = sorted(binds.items(), key=lambda kv: kv[1][1])
        cp, cn = cp[1], cn[1]
        if cn != cp + 1:
            fail("to_incremental: index loop does not pair consecutive cells", loop)
        args = it.args
        # i runs over  -cp .. len-1-cn  (so that cells[i+cp] = cells[0] .. and cells[i+cn] = cells[len-1])
        lo = 0 if len(args) == 1 else _int_of(args[0])
        hi = args[-1] if len(args) <= 2 else None
        if len(args) > 2 or lo is None or lo != -cp:
            fail("to_incremental: index loop does not start at the first pair", loop)
        want_off = -cn                         # stop = len(cells) + want_off
        if want_off == 0:
            ok = _len_of(hi, lst)
        else:
            ok = (isinstance(hi, ast.BinOp) and _len_of(hi.left, lst) and isinstance(hi.op, (ast.Add, ast.Sub))
                  and _int_of(hi.right) is not None
                  and (_int_of(hi.right) if isinstance(hi.op, ast.Add) else -_int_of(hi.right)) == want_off)
        if not ok:
            fail("to_incremental: index loop does not stop at the last pair", loop)
        for nm in (p_, n_, i):
            if len(_stores(fn, nm)) != 1:
                fail(f"to_incremental: {nm} is assigned more than once", loop)
        if not _list_untouched(fn, lst):
            fail("to_incremental: the row list is modified", loop)
        return p_, n_, lst
    fail("to_incremental: unsupported pair loop", loop)


def off_first(fn):
    fn = resolve_first_aliases(fn)
    calls = [n for n in ast.walk(fn) if isinstance(n, ast.Call) and isinstance(n.func, ast.Name)
             and n.func.id == "IncrementalCell"]
    calls.sort(key=lambda n: (n.lineno, n.col_offset))
    if len(calls) != 2:
        fail(f"to_incremental: expected two IncrementalCell(...) constructions, found {len(calls)}", fn)
    kw = {k.arg: k.value for k in calls[0].keywords}
    if calls[0].args or "prev_evaluation_date" not in kw:
        fail("to_incremental: first IncrementalCell is not built with keyword arguments", calls[0])
    r = day_offset(kw["prev_evaluation_date"])
    if r is None or not (isinstance(r[0], ast.Name) and r[0].id == "period_start"):
        fail("to_incremental: prev_evaluation_date of the first increment is not period_start +- n days", calls[0])
    ev = kw.get("evaluation_date")
    if attr_chain(ev) != ("cells[0]", "evaluation_date"):
        fail("to_incremental: evaluation_date of the first increment is not cells[0].evaluation_date", calls[0])
    kw2 = {k.arg: k.value for k in calls[1].keywords}
    a, b = attr_chain(kw2.get("prev_evaluation_date")), attr_chain(kw2.get("evaluation_date"))
    if a[1] != "evaluation_date" or b[1] != "evaluation_date" or a[0] == b[0]:
        fail("to_incremental: the later increments do not link prev_cell.evaluation_date -> next_cell.evaluation_date",
             calls[1])
    P, N, lst = pairwise_loop(fn, calls[1])
    if (a[0], b[0]) != (P, N):
        fail(f"to_incremental: the later increments do not link {P}.evaluation_date -> {N}.evaluation_date of "
             "consecutive cells", calls[1])
    vd = kw2.get("values")
    if not (isinstance(vd, ast.Call) and isinstance(vd.func, ast.Name) and vd.func.id == "_values_diff" and len(vd.args) == 2
            and not vd.keywords and attr_chain(vd.args[0]) == (P, "values") and attr_chain(vd.args[1]) == (N, "values")):
        fail(f"to_incremental: values of the later increments are not _values_diff({P}.values, {N}.values)", calls[1])
    if attr_chain(ev)[0] != lst + "[0]":
        fail("to_incremental: the first increment and the pair loop use different row lists", calls[0])
    return r[1]


def off_check(fn):
    fn = resolve_first_aliases(fn)
    ifs = [n for n in ast.walk(fn) if isinstance(n, ast.If) and raises_triangle_error(n.body)]
    ifs.sort(key=lambda n: n.lineno)
    if len(ifs) != 2:
        fail(f"to_cumulative: expected two `raise TriangleError` guards, found {len(ifs)}", fn)
    t = ifs[0].test
    if not (isinstance(t, ast.Compare) and len(t.ops) == 1 and isinstance(t.ops[0], ast.NotEq)) or ifs[0].orelse:
        fail("to_cumulative: first guard is not a `!=` comparison", ifs[0])
    l, r = t.left, t.comparators[0]
    dl, dr = day_offset(l), day_offset(r)
    if dl is not None and attr_chain(dl[0]) == ("cells[0]", "prev_evaluation_date") \
            and attr_chain(r) == ("cells[0]", "period_start"):
        off = dl[1]
    elif dr is not None and attr_chain(dr[0]) == ("cells[0]", "period_start") \
            and attr_chain(l) == ("cells[0]", "prev_evaluation_date"):
        off = -dr[1]
    else:
        fail("to_cumulative: first guard does not compare cells[0].prev_evaluation_date +- n days with "
             "cells[0].period_start", ifs[0])
    t2 = ifs[1].test
    if not (isinstance(t2, ast.Compare) and len(t2.ops) == 1 and isinstance(t2.ops[0], ast.NotEq)) or ifs[1].orelse:
        fail("to_cumulative: chain guard is not a `!=` comparison", ifs[1])
    sides = [t2.left, t2.comparators[0]]
    has_prev = [attr_chain(s)[1] == "prev_evaluation_date" for s in sides]
    other = [s for s, h in zip(sides, has_prev) if not h]
    if sum(has_prev) != 1 or not (isinstance(other[0], ast.Name)):
        fail("to_cumulative: chain guard does not compare cell.prev_evaluation_date with the running evaluation date",
             ifs[1])
    return off


def cbytes(s: str) -> str:
    return "[" + ";".join(str(b) for b in s.encode("utf8")) + "]"


def translate(repo) -> str:
    src = (Path(repo) / "bermuda" / "utils" / "basis.py").read_text()
    mod = ast.parse(src)
    cd = values_fn(mod, func(mod, "_values_diff"), ast.Sub, left_is_first=False)
    ca = values_fn(mod, func(mod, "_values_add"), ast.Add, left_is_first=True)
    o1 = off_first(func(mod, "to_incremental"))
    o2 = off_check(func(mod, "to_cumulative"))
    z = lambda n: f"({n})" if n < 0 else str(n)  # noqa: E731
    return (
        "(* generated by translate/t_basis.py from bermuda/utils/basis.py -- do not edit *)\n"
        "From Coq Require Import ZArith List.\nFrom Bermuda Require Import Model.Base Model.Basis.\n"
        "Import ListNotations.\nLocal Open Scope Z_scope.\n"
        f"(* _values_diff carries {cd!r}; _values_add carries {ca!r}; first prev = period_start + ({o1}) days;\n"
        f"   to_cumulative requires prev(first) + ({o2}) days = period_start *)\n"
        f"Definition d : bdesc := mkBdesc {cbytes(cd)} {cbytes(ca)} {z(o1)} {z(o2)}.\n"
    )


if __name__ == "__main__":
    import sys

    print(translate(sys.argv[1] if len(sys.argv) > 1 else "/repo"))
