"""Semantics-preserving normalisation of small pure Python functions, shared by the translators.

A maintainer's harmless rewrites (naming a sub-expression, extracting a one-line helper, dropping an
`else` after `return`) should not change what a translator emits.  `reduce_function` turns a function whose
body is straight-line code over PURE expressions into the single expression it returns:

    * docstrings / `pass` are skipped;
    * `name = <expr>` (one plain-name target) binds the name for the rest of the block (substitution);
    * `if c: <block that always returns>` followed by the rest  ==  `A if c else B`  (also with an else);
    * `return <expr>` ends the block;
    * a call `helper(a, b)` of a module-level function / `Cls.helper(a)` of a staticmethod that itself reduces
      to one expression, with plain positional parameters, is replaced by that expression (depth-limited).

Anything else raises NotReducible and the caller fails closed as before.  Substitution is only sound for
expressions without side effects; the expression grammar accepted here has no assignment expressions, no
awaits/yields and no lambdas, and calls are limited to names / attributes (the translators then recognise
the specific calls they know and reject the rest).
"""
from __future__ import annotations

import ast
import copy


class NotReducible(Exception):
    pass


_OK_EXPR = (ast.Name, ast.Attribute, ast.Constant, ast.Tuple, ast.List, ast.Set, ast.Dict, ast.Compare, ast.BoolOp,
            ast.BinOp, ast.UnaryOp, ast.IfExp, ast.Call, ast.Subscript, ast.Slice, ast.Starred, ast.keyword,
            ast.GeneratorExp, ast.ListComp, ast.SetComp, ast.DictComp, ast.comprehension, ast.JoinedStr,
            ast.FormattedValue, ast.expr_context, ast.operator, ast.boolop, ast.unaryop, ast.cmpop, ast.Load, ast.Store)


def check_pure(e):
    for n in ast.walk(e):
        if not isinstance(n, _OK_EXPR):
            raise NotReducible(f"expression kind {type(n).__name__} is not handled")


class _Subst(ast.NodeTransformer):
    def __init__(self, env):
        self.env = env
        self.shadow = []

    def visit_Name(self, n):
        if isinstance(n.ctx, ast.Load) and n.id in self.env and not any(n.id in s for s in self.shadow):
            return copy.deepcopy(self.env[n.id])
        return n

    def _comp(self, n):
        bound = set()
        for g in n.generators:
            for t in ast.walk(g.target):
                if isinstance(t, ast.Name):
                    bound.add(t.id)
        # the first iterable is evaluated outside the comprehension's scope
        first = self.visit(n.generators[0].iter)
        self.shadow.append(bound)
        try:
            n = self.generic_visit(n)
        finally:
            self.shadow.pop()
        n.generators[0].iter = first
        return n

    visit_GeneratorExp = visit_ListComp = visit_SetComp = visit_DictComp = _comp


def subst(e, env):
    return _Subst(env).visit(copy.deepcopy(e)) if env else copy.deepcopy(e)


def always_returns(stmts):
    if not stmts:
        return False
    last = stmts[-1]
    if isinstance(last, ast.Return):
        return True
    if isinstance(last, ast.If):
        return always_returns(last.body) and always_returns(last.orelse)
    return False


def _strip(stmts):
    return [s for s in stmts if not isinstance(s, ast.Pass)
            and not (isinstance(s, ast.Expr) and isinstance(s.value, ast.Constant) and isinstance(s.value.value, str))]


def reduce_block(stmts, env):
    stmts = _strip(stmts)
    if not stmts:
        raise NotReducible("control reaches the end of the block without return")
    s, rest = stmts[0], stmts[1:]
    if isinstance(s, ast.Return):
        if s.value is None:
            raise NotReducible("bare return")
        check_pure(s.value)
        return subst(s.value, env)
    if isinstance(s, ast.Assign) and len(s.targets) == 1 and isinstance(s.targets[0], ast.Name):
        check_pure(s.value)
        env = dict(env)
        env[s.targets[0].id] = subst(s.value, env)
        return reduce_block(rest, env)
    if isinstance(s, ast.AnnAssign) and isinstance(s.target, ast.Name) and s.value is not None:
        check_pure(s.value)
        env = dict(env)
        env[s.target.id] = subst(s.value, env)
        return reduce_block(rest, env)
    if isinstance(s, ast.If) and always_returns(s.body):
        check_pure(s.test)
        a = reduce_block(s.body, env)
        if always_returns(s.orelse):
            if _strip(rest):
                raise NotReducible("unreachable code after if/else that always returns")
            b = reduce_block(s.orelse, env)
        else:
            b = reduce_block(list(s.orelse) + list(rest), env)
        return ast.IfExp(test=subst(s.test, env), body=a, orelse=b)
    raise NotReducible(f"statement kind {type(s).__name__} at line {getattr(s, 'lineno', '?')} is not straight-line code")


def _plain_params(fn):
    a = fn.args
    if a.vararg or a.kwarg or a.kwonlyargs or a.posonlyargs or a.defaults or a.kw_defaults:
        return None
    return [x.arg for x in a.args]


class _Inline(ast.NodeTransformer):
    def __init__(self, module_funcs, class_funcs, class_name, depth):
        self.mf, self.cf, self.cn, self.depth = module_funcs, class_funcs, class_name, depth
        self.changed = False

    def visit_Call(self, n):
        n = self.generic_visit(n)
        if n.keywords or any(isinstance(a, ast.Starred) for a in n.args):
            return n
        target, args = None, list(n.args)
        f = n.func
        if isinstance(f, ast.Name) and f.id in self.mf:
            target = self.mf[f.id]
        elif isinstance(f, ast.Attribute) and f.attr in self.cf and isinstance(f.value, ast.Name) and f.value.id == self.cn:
            # Cls.helper(...) on a staticmethod only: instance methods can be overridden in subclasses, so
            # replacing `obj.helper(...)` by this class's body would not be sound
            fn = self.cf[f.attr]
            if [d.id for d in fn.decorator_list if isinstance(d, ast.Name)] == ["staticmethod"] and len(fn.decorator_list) == 1:
                target = fn
        if target is None:
            return n
        params = _plain_params(target)
        if params is None or len(params) != len(args):
            return n
        try:
            body = reduce_block(target.body, {})
        except NotReducible:
            return n
        self.changed = True
        return subst(body, dict(zip(params, args)))


def reduce_function(fn, module=None, cls=None, depth=4):
    """The expression `fn` returns (helpers inlined), or NotReducible."""
    e = reduce_block(fn.body, {})
    module_funcs = {n.name: n for n in (module.body if module is not None else []) if isinstance(n, ast.FunctionDef)}
    class_funcs = {n.name: n for n in (cls.body if cls is not None else []) if isinstance(n, ast.FunctionDef)
                   and n.name != fn.name}
    for _ in range(depth):
        tr = _Inline(module_funcs, class_funcs, cls.name if cls is not None else None, depth)
        e = tr.visit(e)
        if not tr.changed:
            break
    else:
        raise NotReducible("helper inlining does not terminate")
    ast.fix_missing_locations(e)
    return e
