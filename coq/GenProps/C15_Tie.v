(** C15 tie: one case = input cells, operation + parameters, and the IMPLEMENTATION's result;
    [check] compares with the model (Model/Extend.v) and evaluates the executable specifications on
    the implementation's output. *)
From Coq Require Import ZArith List Bool.
From Bermuda Require Import Lib.Calendar Model.Base Model.Accessors Model.Extend.
Import ListNotations.
Local Open Scope Z_scope.

Inductive op :=
| OpRT (u : unit_) (lags : option (list Z))
| OpRD (dates : list Z) (hist : bool)
| OpFF (res : option Z) (none : bool)
| OpBF (statics : list str) (res : option Z) (min_lag : Z).

Definition model (o : op) (t : list cell) : result (list cell) :=
  match o with
  | OpRT u lags => make_right_triangle u lags t
  | OpRD dates hist => make_right_diagonal dates hist t
  | OpFF res none => fill_forward_gaps res none t
  | OpBF st res ml => backfill st res ml t
  end.

Definition cells_eqb := list_eqb cell_seqb.
Definition no_dup_coords (l : list cell) : bool :=
  (fix go (l : list cell) := match l with [] => true | c :: r => negb (occupied r c) && go r end) l.

Definition spec (o : op) (t : list cell) (r : result (list cell)) : list bool :=
  match r with
  | Err _ => [true; true; true; true]
  | Ok out =>
      match o with
      | OpRT u lags => [right_new_cells_b t out; right_lags_exact_b u lags t out; right_chain_b t out;
                        no_dup_coords out]
      | OpRD dates false => [right_new_cells_b t out; right_chain_b t out; no_dup_coords out; true]
      | OpRD dates true => [true; true; true; true]
      | OpFF _ _ => [keeps_observed_b t out; no_dup_coords out; true; true]
      | OpBF _ _ _ => [keeps_observed_b t out; no_dup_coords out; true; true]
      end
  end.

Definition check (c : list cell * op * result (list cell)) : list bool :=
  let '(t, o, r) := c in
  result_eqb cells_eqb (model o t) r :: spec o t r.
Definition NCHECK : nat := 5.
Definition run (cases : list (list cell * op * result (list cell))) : list nat :=
  failing (flat_map check cases).
