(** C10 -- join, merge and coalesce against the descriptions GENERATED from bermuda/utils/join.py
    and bermuda/utils/merge.py on this run (Gen.GenPred: gen_join, gen_merge).

    Proved once, statically (Proofs/JoinP.v), for ANY description satisfying the Boolean side
    conditions `join_desc_ok` / `merge_desc_ok`; here the side conditions are discharged on the
    generated descriptions by computation and the theorems are instantiated.

    Notation of the statements:  a := reduce_on on t1,  b := reduce_on on t2  (the operands with
    metadata reduced to `on`, Props/C10.v: C10_on_reduces_metadata_only);  ks := the coordinate
    key (metadata, period_start, period_end, evaluation_date[, prev_evaluation_date when the left
    operand is incremental]);  has_key_in ks k t: some cell of t has key k (metadata compared with
    Python's ==);  last_with ks k t: the LAST cell of t with key k (what a dict comprehension keeps);
    key_in_out ks k out: some pair of `out` has key k. *)
From Coq Require Import ZArith List Bool Permutation.
From Bermuda Require Import Model.Base Model.Select Model.Join Proofs.SelectP Proofs.JoinP.
From Gen Require Import GenPred.
Import ListNotations.
Local Open Scope Z_scope.

Theorem C10_generated_descriptions_ok : join_desc_ok gen_join = true /\ merge_desc_ok gen_merge = true.
Proof. split; vm_compute; reflexivity. Qed.
Definition Hj := proj1 C10_generated_descriptions_ok.
Definition Hm := proj2 C10_generated_descriptions_ok.

(* the six join types are the six set operations on coordinate keys *)
Theorem C10_join_key_set_is_the_set_operation : forall jt on t1 t2 out,
  join gen_join jt on t1 t2 = Ok out ->
  let a := reduce_on on t1 in let b := reduce_on on t2 in let ks := cum_key (tri_is_inc a) in
  (forall k, key_in_out ks k out <-> wanted jt (has_key_in ks k a) (has_key_in ks k b) = true)
  /\ (forall l r, wanted s_full l r = (l || r) /\ wanted s_inner l r = (l && r) /\ wanted s_left l r = l
                  /\ wanted s_right l r = r /\ wanted s_left_anti l r = (l && negb r)
                  /\ wanted s_right_anti l r = (r && negb l)).
Proof.
  intros jt on t1 t2 out H. cbv zeta. split; [apply (join_keys gen_join jt on t1 t2 out Hj H) | apply wanted_table].
Qed.
Print Assumptions C10_join_key_set_is_the_set_operation.

(* one pair per key, carrying the original cells (metadata reduced to `on`) of both sides *)
Theorem C10_join_one_pair_per_key_carrying_the_original_cells : forall jt on t1 t2 out,
  join gen_join jt on t1 t2 = Ok out ->
  let a := reduce_on on t1 in let b := reduce_on on t2 in let ks := cum_key (tri_is_inc a) in
  (forall p, In p out -> exists k, pair_key ks p = Some k /\ fst p = last_with ks k a /\ snd p = last_with ks k b)
  /\ ForallOrdPairs (fun p q => forall k k', pair_key ks p = Some k -> pair_key ks q = Some k' ->
                                             ckey_eqb k k' = false) out.
Proof.
  intros jt on t1 t2 out H. cbv zeta.
  split; [apply (join_cells gen_join jt on t1 t2 out Hj H) | apply (join_one_pair_per_key gen_join jt on t1 t2 out Hj H)].
Qed.
Print Assumptions C10_join_one_pair_per_key_carrying_the_original_cells.

(* when join answers and when it refuses; empty operands are ordinary operands (F13) *)
Theorem C10_join_defined_on_all_operands_of_equal_cell_type : forall jt on t1 t2,
  (kinds_clash t1 t2 = true -> join gen_join jt on t1 t2 = Err ValueError)
  /\ (str_mem jt [s_full; s_left; s_right; s_inner; s_left_anti; s_right_anti] = false ->
      join gen_join jt on t1 t2 = Err ValueError)
  /\ (kinds_clash t1 t2 = false ->
      str_mem jt [s_full; s_left; s_right; s_inner; s_left_anti; s_right_anti] = true ->
      exists out, join gen_join jt on t1 t2 = Ok out)
  /\ (exists out, join gen_join s_full on [] t2 = Ok out /\ forall p, In p out -> fst p = None).
Proof.
  intros jt on t1 t2. split; [apply join_clash |]. split; [apply join_unknown_type; exact Hj |].
  split; [apply join_total; exact Hj | apply join_empty_left; exact Hj].
Qed.
Print Assumptions C10_join_defined_on_all_operands_of_equal_cell_type.

(* merge: one cell per joined pair; matched coordinates get the left cell with {**left, **right}
   (right wins conflicts: Props/C10.v, C10_dict_union_right_operand_wins); unmatched cells unchanged *)
Theorem C10_merge_right_biased_union_on_matches_identity_elsewhere : forall jt on t1 t2 out,
  merge gen_join gen_merge jt on t1 t2 = Ok out ->
  exists pairs, join gen_join jt on t1 t2 = Ok pairs /\ length out = length pairs /\
    Forall2 (fun p o => match p with
                        | (Some c1, Some c2) => o = set_vals c1 (dict_union (cvals c1) (cvals c2))
                        | (Some c1, None) => o = c1
                        | (None, Some c2) => o = c2
                        | (None, None) => False
                        end) pairs out.
Proof. intros jt on t1 t2 out H. apply (merge_cells gen_join gen_merge jt on t1 t2 out Hj Hm H). Qed.
Print Assumptions C10_merge_right_biased_union_on_matches_identity_elsewhere.

(* merge t t = t  (t without duplicate coordinates, cells with unique field names) *)
Theorem C10_merge_idempotent : forall t, wf_tri t -> merge gen_join gen_merge s_full None t t = Ok t.
Proof. intros t H. apply (merge_idem gen_join gen_merge t Hj Hm H). Qed.
Print Assumptions C10_merge_idempotent.

(* coalesce: exactly one cell per coordinate (metadata, period, evaluation date) of any operand --
   the unmodified FIRST cell of the earliest triangle holding it *)
Theorem C10_coalesce_first_triangle_wins : forall ts,
  (forall o, In o (coalesce gen_merge ts) -> first_with co_ks (key_of co_ks o) (concat ts) = Some o)
  /\ (forall c, In c (concat ts) -> has_key_in co_ks (key_of co_ks c) (coalesce gen_merge ts) = true)
  /\ ForallOrdPairs (fun c d => ckey_eqb (key_of co_ks c) (key_of co_ks d) = false) (coalesce gen_merge ts)
  /\ (forall k t u, first_with co_ks k (t ++ u)
                    = match first_with co_ks k t with Some c => Some c | None => first_with co_ks k u end).
Proof.
  intro ts. split; [intros o; apply coalesce_first_wins; exact Hm |].
  split; [intros c; apply coalesce_covers; exact Hm |].
  split; [apply coalesce_one_per_key; exact Hm | intros; apply first_with_app].
Qed.
Print Assumptions C10_coalesce_first_triangle_wins.

(* ------------------------------------------------------------------ non-vacuity *)
Definition m1 : meta := default_meta.
Definition m2 : meta := mkMeta (Some [65]) (Some [85;83]) None None None None [([108], MStr [120])] [].
Definition mkv (m : meta) (s e v : Z) (vals : list (str * value)) : cell := mkCell KCum s e v None m vals.
Definition n (x : Z) : value := VNum (Num false (1024 * x)).
Definition ex_l : list cell :=
  [ mkv m1 737425 737455 737455 [([97], n 1)]; mkv m1 737425 737455 737484 [([97], n 2); ([98], n 7)];
    mkv m2 737425 737455 737455 [([97], n 3)] ].
Definition ex_r : list cell :=
  [ mkv m1 737425 737455 737484 [([98], n 70); ([99], n 8)]; mkv m2 737456 737484 737484 [([97], n 9)] ].
Definition sizes (jt : str) : nat :=
  match join gen_join jt None ex_l ex_r with Ok o => length o | Err _ => 99%nat end.
Example C10_join_nonvacuous :
  map sizes [s_full; s_inner; s_left; s_right; s_left_anti; s_right_anti] = [4; 1; 3; 2; 2; 1]%nat
  /\ sizes [111] = 99%nat
  /\ join gen_join s_inner (Some [[99;111;117;110;116;114;121]]) ex_l ex_r
     = Ok [ (Some (set_meta (mkv m1 737425 737455 737484 [([97], n 2); ([98], n 7)]) (select_metadata [[99;111;117;110;116;114;121]] m1)),
             Some (set_meta (mkv m1 737425 737455 737484 [([98], n 70); ([99], n 8)]) (select_metadata [[99;111;117;110;116;114;121]] m1))) ].
Proof. vm_compute. repeat split; reflexivity. Qed.
Example C10_merge_nonvacuous :
  merge gen_join gen_merge s_left None ex_l ex_r
  = Ok [ mkv m1 737425 737455 737455 [([97], n 1)];
         mkv m1 737425 737455 737484 [([97], n 2); ([98], n 70); ([99], n 8)];
         mkv m2 737425 737455 737455 [([97], n 3)] ]
  /\ wf_tri ex_l /\ merge gen_join gen_merge s_full None ex_l ex_l = Ok ex_l.
Proof.
  split; [vm_compute; reflexivity |]. split; [| vm_compute; reflexivity].
  split.
  - repeat constructor; vm_compute; reflexivity.
  - repeat constructor; cbn; intuition discriminate.
Qed.
Example C10_coalesce_nonvacuous :
  coalesce gen_merge [ex_r; ex_l; ex_r]
  = [ mkv m1 737425 737455 737484 [([98], n 70); ([99], n 8)]; mkv m2 737456 737484 737484 [([97], n 9)];
      mkv m1 737425 737455 737455 [([97], n 1)]; mkv m2 737425 737455 737455 [([97], n 3)] ].
Proof. vm_compute. reflexivity. Qed.
