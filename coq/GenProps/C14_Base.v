(** C14 -- correspondence records and their checks (compiled in build/C14 against the generated
    GenFrame.v; the cases_*.v files written by harness/c14.py only contain literals). *)
From Coq Require Import ZArith List Bool.
From Bermuda Require Import Model.Base Lib.Calendar Model.Frame Model.MatrixIx.
From Gen Require Import GenFrame.
Import ListNotations.
Local Open Scope Z_scope.

Definition mk_table (hdr : list str) (rows : list (list tval)) : table := map (combine hdr) rows.
Definition permute {A} (p : list nat) (l : list A) : list A :=
  flat_map (fun i => match nth_error l i with Some x => [x] | None => [] end) p.
Definition on_ok {A} (r : result A) (f : A -> bool) : bool := match r with Ok a => f a | Err _ => true end.

(* Python dicts compare without order: bring value / detail dicts into the order of a name list *)
Definition reorder {V} (names : list str) (d : list (str * V)) : list (str * V) :=
  flat_map (fun k => match assoc k d with Some v => [(k, v)] | None => [] end) names.
Definition norm_cell (fn names : list str) (c : cell) : cell :=
  let m := cmeta c in
  mkCell (ckind c) (ps c) (pe c) (ev c) (prev c)
    (mkMeta (risk_basis m) (country m) (currency m) (reinsurance_basis m) (loss_definition m)
            (per_occurrence_limit m) (reorder names (details m)) (reorder names (loss_details m)))
    (reorder fn (cvals c)).
Definition norm_res (fn names : list str) (r : result (list cell)) : result (list cell) :=
  match r with Ok l => Ok (map (norm_cell fn names) l) | Err e => Err e end.

(* ---------------- wide / long frames ---------------- *)
Record fcase := mkF {
  f_cells : list cell; f_fields : list str; f_dcols : list str; f_lcols : list str;
  f_wide : result table;                (* triangle_to_wide_data_frame(t) *)
  f_long : result table;                (* triangle_to_long_data_frame(t) *)
  f_rwide : result (list cell);         (* wide reader (frame and CSV agree, checked in Python) *)
  f_rlong : result (list cell);         (* long reader with loss_detail_cols *)
  f_rlongcsv : result (list cell);      (* long CSV entry point (no loss_detail_cols) *)
  f_names : list str;                  (* sorted detail + loss-detail names *)
  f_pw : list nat; f_pl : list nat;     (* row permutations applied before reading *)
  f_in_hyps : bool }.

Definition check_fcase (c : fcase) : list bool :=
  let t := f_cells c in
  let result_cells_eqb a b := result_cells_eqb (norm_res (f_fields c) (f_names c) a) (norm_res (f_fields c) (f_names c) b) in
  [ Bool.eqb (frame_hyps (f_fields c) (f_dcols c) (f_lcols c) t) (f_in_hyps c);
    (* writers: model table = implementation table *)
    result_table_eqb (to_wide_rows (f_fields c) (f_dcols c) (f_lcols c) t) (f_wide c);
    result_table_eqb (to_long_rows (f_dcols c) (f_lcols c) t) (f_long c);
    (* readers on the implementation's table with shuffled rows *)
    on_ok (f_wide c) (fun T => result_cells_eqb (from_wide_rows frame (f_fields c) (f_lcols c) (permute (f_pw c) T)) (f_rwide c));
    on_ok (f_long c) (fun T => result_cells_eqb (from_long_rows frame (f_lcols c) (permute (f_pl c) T)) (f_rlong c));
    on_ok (f_long c) (fun T => result_cells_eqb (from_long_rows frame [] (permute (f_pl c) T)) (f_rlongcsv c));
    (* model end to end *)
    result_cells_eqb (bind (to_wide_rows (f_fields c) (f_dcols c) (f_lcols c) t) (from_wide_rows frame (f_fields c) (f_lcols c))) (f_rwide c);
    result_cells_eqb (bind (to_long_rows (f_dcols c) (f_lcols c) t) (from_long_rows frame (f_lcols c))) (f_rlong c);
    (* the statement of the theorems, evaluated on the implementation's results *)
    negb (f_in_hyps c) || result_cells_eqb (Ok (floatify t)) (f_rwide c);
    negb (f_in_hyps c) || result_cells_eqb (Ok (floatify t)) (f_rlong c);
    negb (f_in_hyps c) || result_cells_eqb (Ok (floatify_merged t)) (f_rlongcsv c) ].

(* ---------------- array frame ---------------- *)
Record acase := mkA {
  a_cells : list cell; a_field : str; a_res : option Z; a_meta : meta;
  a_frame : result aframe; a_back : result (list cell); a_in_hyps : bool }.
Definition aframe_eqb (x y : aframe) : bool :=
  list_eqb Z.eqb (af_lags x) (af_lags y)
  && list_eqb (pair_eqb Z.eqb (list_eqb (opt_eqb Z.eqb))) (af_rows x) (af_rows y).
Definition check_acase (c : acase) : list bool :=
  [ result_eqb aframe_eqb (to_array (a_cells c) (a_field c)) (a_frame c);
    (* the printer of implementation results turns every number into a float: floatify the model side too *)
    on_ok (a_frame c) (fun af => result_cells_eqb
       (bind (match a_res c with Some r => Ok r | None => infer_resolution af end)
             (fun r => Ok (floatify (from_array af (a_field c) r (a_meta c))))) (a_back c));
    negb (a_in_hyps c) || result_cells_eqb (Ok (floatify (a_cells c))) (a_back c) ].

(* ---------------- matrix ---------------- *)
Record mimpl := mkMI {
  mi_eo : Z; mi_er : Z; mi_do : Z; mi_dr : Z; mi_ns : Z; mi_nf : Z; mi_np : Z; mi_nd : Z;
  mi_entries : list (mkey * Z) }.
Record mcase := mkM {
  mc_cells : list cell; mc_fields : list str;
  mc_mat : result mimpl; mc_back : result (list cell); mc_in_hyps : bool }.
Definition matrix_matches (m : matrix) (i : mimpl) : bool :=
  let ix := m_index m in
  (exp_origin ix =? mi_eo i) && (exp_res ix =? mi_er i) && (dev_origin ix =? mi_do i) && (dev_res ix =? mi_dr i)
  && (Z.of_nat (List.length (ix_slices ix)) =? mi_ns i) && (Z.of_nat (List.length (ix_fields ix)) =? mi_nf i)
  && (m_np m =? mi_np i) && (m_nd m =? mi_nd i)
  && forallb (fun kv => match mlookup (fst kv) (m_data m) with Some v => v =? snd kv | None => false end) (mi_entries i)
  && Nat.eqb (List.length (dedup mkey_eqb (map fst (m_data m)))) (List.length (mi_entries i)).
Definition check_mcase (c : mcase) : list bool :=
  let mm := triangle_to_matrix mspec (mc_cells c) (mc_fields c) in
  [ match mm, mc_mat c with
    | Ok m, Ok i => matrix_matches m i
    | Err a, Err b => err_eqb a b
    | _, _ => false
    end;
    match mm with
    | Ok m => result_cells_eqb (Ok (floatify (matrix_to_triangle mspec m))) (mc_back c)
    | Err _ => match mc_back c with Err _ => true | Ok _ => false end
    end;
    negb (mc_in_hyps c) || result_cells_eqb (Ok (floatify (mc_cells c))) (mc_back c) ].

(* failing (case, check) pairs, coded case*100 + check *)
Definition fails_of {A} (chk : A -> list bool) (cases : list A) : list nat :=
  flat_map (fun ic => map (fun j => (fst ic * 100 + j)%nat) (failing (chk (snd ic))))
           (combine (seq 0 (List.length cases)) cases).
