(* T-plot obligations (C20, F17): build_plot_data takes its rows from Triangle.slice_period_rows, and
   the records are the cells of the triangle in order with the _core_plot_data coordinates; hence
   (static theorem) neighbours are cells of the same slice and period. *)
From Coq Require Import ZArith QArith List Bool String.
From Bermuda Require Import Model.Base Model.Plot Proofs.PlotRecords.
From Gen Require Import GenPlot.
Import ListNotations.

Theorem rows_by_slice : by_slice GenPlot.desc = true.
Proof. vm_compute. reflexivity. Qed.
Theorem records_in_cell_order : str_eqb (D_records_over GenPlot.desc) (STR "triangle"%string) = true.
Proof. vm_compute. reflexivity. Qed.
Theorem core_coordinates : core_eqb (D_core GenPlot.desc) (D_core std_desc) = true.
Proof. vm_compute. reflexivity. Qed.

Theorem C20_row_neighbours_generated : forall t c s, In (c, s) (summary_table GenPlot.desc t) ->
  exists p n, s = cell_summaries GenPlot.desc c p n /\ In c t /\
    (forall x, n = Some x -> In x t /\ same_row true c x = true /\ (pc_ev c <= pc_ev x)%Z) /\
    (forall x, p = Some x -> In x t /\ same_row true c x = true /\ (pc_ev x <= pc_ev c)%Z).
Proof.
  intros t c s H. destruct (summary_table_entries GenPlot.desc t c s H) as (p & n & H1 & H2).
  exists p, n. split; [exact H2|]. pose proof (neighbours_same_row GenPlot.desc t c p n H1) as G.
  rewrite rows_by_slice in G. exact G.
Qed.
Print Assumptions C20_row_neighbours_generated.
