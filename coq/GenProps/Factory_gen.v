(** Method forms relevant to this property are wired as the models assume (table regenerated from
    /repo/bermuda/factory.py by translate/t_factory.py). @NAMES@ is filled in by harness/factory_common.py. *)
From Coq Require Import List String Bool.
Import ListNotations.
Open Scope string_scope.
From Bermuda Require Import Model.Factory Proofs.FactoryP.
From Gen Require Import GenFactory.

Definition relevant : list string := [@NAMES@].

Theorem method_forms_wired_as_modelled : names_ok wrappers relevant = true.
Proof. vm_compute. reflexivity. Qed.

(** hence: each relevant method is wired once, to the expected function, with the expected wrapper shape *)
Theorem method_forms_spec :
  forall n, In n relevant ->
    count_name n wrappers = 1 /\ exists e, lookup n wrappers = Some e /\ lookup n expected = Some e.
Proof. exact (names_ok_spec wrappers relevant method_forms_wired_as_modelled). Qed.

(** and for the transparent shapes the method form is the function form on every call *)
Theorem method_form_is_function_form_here (A R : Type) (cons_list : A -> A -> A) :
  forall n fn w st, In n relevant -> lookup n expected = Some (fn, w, st) -> transparent w = true ->
  lookup n wrappers = Some (fn, w, st) /\
  forall (f : pyfun A R) self pos kws, apply_wrap cons_list w f self pos kws = Some (f (self :: pos) kws).
Proof. exact (method_form_is_function_form A R cons_list wrappers relevant method_forms_wired_as_modelled). Qed.

Print Assumptions method_forms_wired_as_modelled.
Print Assumptions method_forms_spec.
Print Assumptions method_form_is_function_form_here.
