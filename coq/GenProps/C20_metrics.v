(* T-plot obligation (C20): the metric lambdas of COMMON_METRIC_DICT regenerated from /repo are the
   expression trees of the standard table, hence satisfy [metric_table_spec] (loss ratios are
   100 * loss / earned_premium of the cell's own fields, plain fields pass through, age-to-age metrics
   use the NEXT cell). *)
From Coq Require Import ZArith QArith List Bool.
From Bermuda Require Import Model.Base Model.Plot Proofs.PlotRecords.
From Gen Require Import GenPlot.
Import ListNotations.

Theorem metrics_eq_std : metrics_eqb (D_metrics GenPlot.desc) (D_metrics std_desc) = true.
Proof. vm_compute. reflexivity. Qed.
Theorem metrics_are_std : D_metrics GenPlot.desc = D_metrics std_desc.
Proof. vm_compute. reflexivity. Qed.
Theorem metric_table_ok : metric_table_spec (D_metrics GenPlot.desc).
Proof. rewrite metrics_are_std. exact metric_table_std. Qed.
Print Assumptions metric_table_ok.
