(** C14 -- obligations on the description GENERATED from /repo (GenFrame.v) and the theorems
    instantiated at it.  A mutated reader (grouping column dropped, scenario sort removed, different
    development step in index and inverse) makes a [spec_ok] evaluate to false. *)
From Coq Require Import ZArith List Bool.
From Bermuda Require Import Model.Base Model.Frame Model.MatrixIx Proofs.FrameLib Proofs.FrameKey
     Proofs.FrameExample Proofs.FrameWide4 Proofs.FrameLong Proofs.MatrixIxU Proofs.MatrixIxU2.
From Coq Require Import Sorting.Permutation.
Local Open Scope Z_scope.
From Gen Require Import GenFrame.
Import ListNotations.

(* "the grouping key list covers every metadata column that can distinguish two slices"; the column
   constants are the documented ones; groups of several rows are sorted by `scenario` *)
Theorem C14_frame_spec_ok : frame_spec_ok frame = true.
Proof. vm_compute; reflexivity. Qed.
(* "index and inverse use the same step" *)
Theorem C14_matrix_spec_ok : matrix_spec_ok mspec = true.
Proof. vm_compute; reflexivity. Qed.

(* key lemma at the generated key lists: equal grouping keys => equal coordinates, metadata columns
   and detail columns, for the wide and the long reader of the current source *)
Theorem C14_wide_key_separates : forall cols dcols lcols (r1 r2 : row),
  keys r1 = cols -> keys r2 = cols ->
  row_key (key_cols (fs_wide_key frame) cols dcols lcols) r1
  = row_key (key_cols (fs_wide_key frame) cols dcols lcols) r2 ->
  forall c, In c (coord_cols ++ meta_col_names ++ dcols) -> get c r1 = get c r2.
Proof. intros cols dcols lcols r1 r2. apply wide_key_separates. exact C14_frame_spec_ok. Qed.
Theorem C14_long_key_separates : forall cols dcols lcols (r1 r2 : row),
  keys r1 = cols -> keys r2 = cols ->
  row_key (key_cols (fs_long_key frame) cols dcols lcols) r1
  = row_key (key_cols (fs_long_key frame) cols dcols lcols) r2 ->
  forall c, In c ([c_ps; c_pe; c_ev; c_field] ++ meta_col_names ++ dcols ++ lcols) -> get c r1 = get c r2.
Proof. intros cols dcols lcols r1 r2. apply long_key_separates. exact C14_frame_spec_ok. Qed.
(* (W) at the readers of the CURRENT source: writing a triangle to the wide frame and reading it back with
   the grouping key lists / constants / sort columns extracted from /repo returns floatify t *)
Theorem C14_wide_round_trip_generated : forall fn dn ln t,
  frame_hyps fn dn ln t = true -> wide_trip frame fn dn ln t = Ok (floatify t).
Proof. intros fn dn ln t. apply wide_round_trip. exact C14_frame_spec_ok. Qed.
Theorem C14_long_round_trip_generated : forall fn dn ln t,
  frame_hyps fn dn ln t = true -> long_trip frame dn ln t = Ok (floatify t).
Proof. intros fn dn ln t. apply (long_round_trip frame fn). exact C14_frame_spec_ok. Qed.
Theorem C14_long_csv_round_trip_generated : forall fn dn ln t,
  frame_hyps fn dn ln t = true -> long_trip_csv frame dn ln t = Ok (floatify_merged t).
Proof. intros fn dn ln t. apply (long_round_trip_csv frame fn). exact C14_frame_spec_ok. Qed.
(* (M) at the index / inverse steps of the CURRENT source *)
Theorem C14_matrix_round_trip_generated : forall t fields ix,
  semi_regular t = true -> index_from_triangle t fields = Ok ix ->
  ((dev_res ix | exp_res ix) \/ (exp_res ix | dev_res ix)) -> NoDup fields ->
  (forall c, In c t -> grid_cell_sub (exp_res ix) fields c) -> NoDup t ->
  (forall c c', In c t -> In c' t -> cmeta c = cmeta c' -> ps c = ps c' -> ev c = ev c' -> c = c') ->
  exists out, matrix_round_trip mspec t fields = Ok out /\ Permutation out (floatify t).
Proof. intros t fields ix. apply matrix_round_trip_nested_sub; vm_compute; reflexivity. Qed.
Print Assumptions C14_frame_spec_ok.
Print Assumptions C14_matrix_spec_ok.
Print Assumptions C14_wide_key_separates.
Print Assumptions C14_long_key_separates.
Print Assumptions C14_wide_round_trip_generated.
Print Assumptions C14_long_round_trip_generated.
Print Assumptions C14_long_csv_round_trip_generated.
Print Assumptions C14_matrix_round_trip_generated.
