(** C13, regenerated decision tokens: the descriptions extracted from the current source
    (Gen.GenAcc, written by translate/t_acc.py) satisfy the side conditions, hence the theorems of
    Props/C13.v hold for the definitions built from them. *)
From Coq Require Import ZArith List Bool Lia.
From Bermuda Require Import Model.Base Model.Accessors Proofs.Accessors Proofs.AccessorsTax Proofs.AccessorsGen.
From Gen Require Import GenAcc.
Import ListNotations.
Open Scope Z_scope.

Theorem C13_gen_spec_ok :
  cmp_spec_ok disjoint_cmp = true /\ red_spec_ok gcd_desc = true /\ diff_spec_ok diff_desc = true.
Proof. vm_compute. repeat split; reflexivity. Qed.

(* is_disjoint as written in the source (comparison token regenerated) *)
Theorem C13_is_disjoint_source : forall t,
  (forall c, In c t -> wf_cell c) ->
  (is_disjoint_with (eval_cmp disjoint_cmp) t = true <->
   forall c1 c2, In c1 t -> In c2 t -> period c1 <> period c2 -> overlap (period c1) (period c2) = false).
Proof.
  intros t Hwf. rewrite is_disjoint_gen by apply C13_gen_spec_ok. now apply is_disjoint_spec.
Qed.
Print Assumptions C13_is_disjoint_source.

(* _multi_gcd / _diff as written in the source *)
Theorem C13_multi_gcd_source : forall xs,
  xs <> [] -> (forall x, In x xs -> 0 <= x) ->
  exists g, multi_gcd_gen gcd_desc xs = Ok g /\ is_gcd_of xs g.
Proof.
  intros xs H1 H2. rewrite multi_gcd_gen_ok by apply C13_gen_spec_ok. now apply multi_gcd_spec.
Qed.
Print Assumptions C13_multi_gcd_source.

Theorem C13_diff_source : forall xs, diffs_gen diff_desc xs = diffs xs.
Proof. intros xs. apply diffs_gen_ok, C13_gen_spec_ok. Qed.
Print Assumptions C13_diff_source.
