(** C17 -- obligations about the description of bermuda/utils/thin.py (thin, _thin_cell) that
    translate/t_resample.py regenerates into GenResample.v on every run.

    [GenResample.thin_d : thin_desc] says which comparison of triangle.num_samples with the argument refuses (and
    with what class), which returns the argument itself, in what order; how the index vector is drawn (population,
    size, replace flag, one rng.choice call outside any loop); which guards select the values that are indexed; that
    every item of cell.values is mapped with its key.  The static theorems of Proofs/ResampleDescP.v hold for ANY d
    with thin_spec_ok d = true; here the side condition is computed for the d extracted now and the thin
    statements of Props/C17.v are instantiated for the model parametrised by it.
    Strength as Props/C17.v: PARTIAL (the index vector is an oracle; distinctness is NumPy's). *)
From Coq Require Import ZArith List Bool String.
From Bermuda Require Import Model.Base Model.Resample Model.ResampleDesc Proofs.ResampleP Proofs.ResampleDescP Props.C17.
From Gen Require Import GenResample.
Import ListNotations.
Local Notation length := Datatypes.length.
Local Open Scope nat_scope.     (* Props.C17 opens Z_scope *)

Theorem C17_gen_thin_spec_ok : thin_spec_ok GenResample.thin_d = true.
Proof. vm_compute. reflexivity. Qed.
Print Assumptions C17_gen_thin_spec_ok.

Theorem C17_gen_thin_model : forall t k ndxs, thinD GenResample.thin_d t k ndxs = thin t k ndxs.
Proof. exact (thinD_is_thin GenResample.thin_d C17_gen_thin_spec_ok). Qed.
Print Assumptions C17_gen_thin_model.

Theorem C17_gen_thin_refuses : forall t k ndxs n,
  num_samples t = Ok n -> n < k -> thinD GenResample.thin_d t k ndxs = Err ValueError.
Proof. exact (thinD_refuses GenResample.thin_d C17_gen_thin_spec_ok). Qed.
Print Assumptions C17_gen_thin_refuses.

Theorem C17_gen_thin_identity : forall t ndxs n,
  num_samples t = Ok n -> thinD GenResample.thin_d t n ndxs = Ok t.
Proof. exact (thinD_identity GenResample.thin_d C17_gen_thin_spec_ok). Qed.
Print Assumptions C17_gen_thin_identity.

Theorem C17_gen_thin_structure : forall t k ndxs t', thinD GenResample.thin_d t k ndxs = Ok t' ->
  exists n, num_samples t = Ok n /\ k <= n /\ (k = n -> t' = t) /\
    (k < n ->
       length t' = length t /\
       (forall i c, nth_error t i = Some c ->
          exists c', nth_error t' i = Some c' /\ same_frame c c' /\ keys (cvals c') = keys (cvals c)) /\
       (forall i key, field t' i key = option_map (thin_valueD (td_guards GenResample.thin_d) ndxs) (field t i key))).
Proof. exact (thinD_structure GenResample.thin_d C17_gen_thin_spec_ok). Qed.
Print Assumptions C17_gen_thin_structure.

Theorem C17_gen_thin_value : forall ndxs v,
  match v with
  | VArr f xs => if 1 <? length xs
                 then exists ys, thin_valueD (td_guards GenResample.thin_d) ndxs v = VArr f ys /\ length ys = length ndxs /\
                                 forall j, j < length ndxs -> nth j ys 0%Z = nth (nth j ndxs 0) xs 0%Z
                 else thin_valueD (td_guards GenResample.thin_d) ndxs v = v
  | _ => thin_valueD (td_guards GenResample.thin_d) ndxs v = v
  end.
Proof. exact (thin_valueD_spec GenResample.thin_d C17_gen_thin_spec_ok). Qed.
Print Assumptions C17_gen_thin_value.

Theorem C17_gen_thin_preserves_samplewise_relation :
  forall t k ndxs t' n (f : Z -> Z) ia ka fa A ib kb fb B,
    thinD GenResample.thin_d t k ndxs = Ok t' -> num_samples t = Ok n -> length ndxs = k -> Forall (fun i => i < n) ndxs ->
    field t ia ka = Some (VArr fa A) -> field t ib kb = Some (VArr fb B) ->
    length A = n -> length B = n -> 1 < n ->
    (forall i, i < n -> nth i B 0%Z = f (nth i A 0%Z)) ->
    exists A' B', field t' ia ka = Some (VArr fa A') /\ field t' ib kb = Some (VArr fb B') /\
                  length A' = k /\ length B' = k /\
                  forall j, j < k -> nth j B' 0%Z = f (nth j A' 0%Z).
Proof. exact (thinD_preserves_samplewise_relation GenResample.thin_d C17_gen_thin_spec_ok). Qed.
Print Assumptions C17_gen_thin_preserves_samplewise_relation.

(* method_moments._sort_x_on_y_rank(x, y) as described now: sorts x, places by the argsort of y *)
Theorem C17_gen_rank_spec_ok : rank_spec_ok GenResample.rank_d = true.
Proof. vm_compute. reflexivity. Qed.
Print Assumptions C17_gen_rank_spec_ok.

Theorem C17_gen_rerank_rank_order : forall px py x y,
  valid_perm_b y py = true -> length x = length y ->
  length (rerankD GenResample.rank_d px py x y) = length y /\
  forall p q, p < length y -> q < length y -> (nth p y 0 < nth q y 0)%Z ->
              (nth p (rerankD GenResample.rank_d px py x y) 0 <= nth q (rerankD GenResample.rank_d px py x y) 0)%Z.
Proof. exact (rerankD_rank_order GenResample.rank_d C17_gen_rank_spec_ok). Qed.
Print Assumptions C17_gen_rerank_rank_order.

(* ---------------------------------------------------------------- non-vacuity *)
Example C17_gen_ex_rerank :      (* x = [5;7;6] re-ranked on y = [30;10;20] (argsort [1;2;0]) = [7;5;6]; swapped roles are rejected *)
  rerankD GenResample.rank_d [0; 2; 1] [1; 2; 0] [5; 7; 6]%Z [30; 10; 20]%Z = [7; 5; 6]%Z
  /\ valid_perm_b [30; 10; 20]%Z [1; 2; 0] = true
  /\ rank_spec_ok (mkRankDesc 1 0 false (rk_shape GenResample.rank_d)) = false
  /\ rerankD (mkRankDesc 1 0 false (rk_shape GenResample.rank_d)) [0; 2; 1] [1; 2; 0] [5; 7; 6]%Z [30; 10; 20]%Z
     <> rerank [1; 2; 0] [5; 7; 6]%Z.
Proof. repeat split; try (vm_compute; reflexivity). intro H. vm_compute in H. discriminate H. Qed.

Example C17_gen_ex_runs :
  thinD GenResample.thin_d ex_tri 2 [2%nat; 0%nat] = thin ex_tri 2 [2%nat; 0%nat]
  /\ (exists t', thinD GenResample.thin_d ex_tri 2 [2%nat; 0%nat] = Ok t' /\ length t' = 2)
  /\ thinD GenResample.thin_d ex_tri 4 [] = Err ValueError /\ thinD GenResample.thin_d ex_tri 3 [] = Ok ex_tri.
Proof. split; [vm_compute; reflexivity|]. split; [eexists; split; [vm_compute; reflexivity | reflexivity]|]. split; vm_compute; reflexivity. Qed.

(* the parametrisation is not idle: descriptions that differ in one decision are rejected by the side condition and
   their models disagree with Resample.thin on a concrete input *)
Definition with_branches (a : thin_desc) (b : list branch) : thin_desc :=
  mkThinDesc b (td_pop a) (td_size a) (td_replace a) (td_draws a) (td_draw_in_loop a) (td_guards a) (td_all_values a) (td_shape a).
Definition with_guards (a : thin_desc) (g : list guard) : thin_desc :=
  mkThinDesc (td_branches a) (td_pop a) (td_size a) (td_replace a) (td_draws a) (td_draw_in_loop a) g (td_all_values a) (td_shape a).
Example C17_gen_ex_off_by_one_refusal_rejected :       (* `<=` instead of `<`: k = n is refused instead of returned *)
  let d' := with_branches GenResample.thin_d [BrRefuse CLe ONum OArg ValueError; BrIdent CEq ONum OArg; BrDraw] in
  thin_spec_ok d' = false /\ thinD d' ex_tri 3 [] <> thin ex_tri 3 [].
Proof. split; [vm_compute; reflexivity | intro H; vm_compute in H; discriminate H]. Qed.
Example C17_gen_ex_dropped_array_guard_rejected :      (* without isinstance(v, np.ndarray) the scalar is not passed through *)
  let d' := with_guards GenResample.thin_d [GNdimPos; GLenGt 1] in
  thin_spec_ok d' = false /\ thinD d' ex_tri 2 [2%nat; 0%nat] <> thin ex_tri 2 [2%nat; 0%nat].
Proof. split; [vm_compute; reflexivity | intro H; vm_compute in H; discriminate H]. Qed.
